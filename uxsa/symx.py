"""Symbolic expansion of straight-line code: what a function returns, written as ONE expression over its parameters.

No execution and no solver: the statements of a structured path (flow.enumerate_paths) are substituted into each other
(`w = a / b; w /= s(w); return t(w)`  ->  `t((a / b) / s(a / b))`), tuple unpacking of a call becomes `call[i]`, and a call to a function of the
package that has a single normally-returning path is replaced by that function's own expanded return expression (arguments bound, bounded depth).
Rules then match the expanded tree, so a computation reads the same whether it is written inline, through locals with any names, or through
extracted helpers.

What is NOT modelled: loops (the loop header is kept as an opaque event and any name assigned inside becomes opaque), stores into containers
(`x[i] = v` makes x opaque: `__stored__(x, i, v)`), aliasing.  Anything opaque stays in the tree as a call the rules do not recognise, which makes them answer
"not understood" rather than guess."""
from __future__ import annotations

import ast
import copy

from .astutil import norm
from .flow import enumerate_paths
from .loader import FuncInfo

OPAQUE = "__opaque__"


class _Sub(ast.NodeTransformer):
    def __init__(self, env):
        self.env = env

    def visit_Name(self, n):
        if isinstance(n.ctx, ast.Load) and n.id in self.env:
            return copy.deepcopy(self.env[n.id])
        return n

    # names bound inside comprehensions / lambdas shadow: leave those subtrees alone when they rebind a substituted name
    def _shadowing(self, n, bound):
        if bound & set(self.env):
            inner = _Sub({k: v for k, v in self.env.items() if k not in bound})
            return inner.generic_visit(n)
        return self.generic_visit(n)

    def visit_Lambda(self, n):
        return self._shadowing(n, {a.arg for a in n.args.args})

    def _comp(self, n):
        bound = {x.id for g in n.generators for x in ast.walk(g.target) if isinstance(x, ast.Name)}
        return self._shadowing(n, bound)

    visit_ListComp = visit_SetComp = visit_DictComp = visit_GeneratorExp = _comp


def subst(expr, env):
    return _Sub(env).visit(copy.deepcopy(expr))


def _opaque(label, *parts):
    return ast.Call(func=ast.Name(id=OPAQUE, ctx=ast.Load()), args=[ast.Constant(value=label)] + [copy.deepcopy(p) for p in parts], keywords=[])


def is_opaque(e):
    return any(isinstance(x, ast.Call) and isinstance(x.func, ast.Name) and x.func.id == OPAQUE for x in ast.walk(e))


class Expander:
    def __init__(self, program, max_depth=2, keep=()):
        self.P = program
        self.max_depth = max_depth
        self.keep = set(keep)  # names of package functions the rule knows by name: never looked through
        self.inlined = []     # names of package functions looked through (for evidence)

    # ------------------------------------------------------------------ one path
    def run_path(self, f: FuncInfo, path, env0, depth):
        env = dict(env0)
        for e in path.events:
            if isinstance(e, ast.Assign):
                val = self.expr(f, subst(e.value, env), depth)
                for t in e.targets:
                    self._bind(t, val, env)
            elif isinstance(e, ast.AnnAssign) and e.value is not None:
                self._bind(e.target, self.expr(f, subst(e.value, env), depth), env)
            elif isinstance(e, ast.AugAssign):
                if isinstance(e.target, ast.Name):
                    cur = env.get(e.target.id, ast.Name(id=e.target.id, ctx=ast.Load()))
                    env[e.target.id] = ast.BinOp(left=copy.deepcopy(cur), op=e.op, right=self.expr(f, subst(e.value, env), depth))
                elif isinstance(e.target, ast.Subscript) and isinstance(e.target.value, ast.Name):
                    nm = e.target.value.id
                    env[nm] = _opaque("stored", env.get(nm, ast.Name(id=nm, ctx=ast.Load())), subst(e.target.slice, env), subst(e.value, env))
            elif isinstance(e, (ast.For, ast.AsyncFor, ast.While)):
                # loop header event: everything assigned in the loop is unknown from here on
                for x in ast.walk(e):
                    if isinstance(x, ast.Name) and isinstance(x.ctx, ast.Store):
                        env[x.id] = _opaque("loop", ast.Name(id=x.id, ctx=ast.Load()))
                    if isinstance(x, ast.Subscript) and isinstance(x.ctx, ast.Store) and isinstance(x.value, ast.Name):
                        env[x.value.id] = _opaque("loop", ast.Name(id=x.value.id, ctx=ast.Load()))
            elif isinstance(e, ast.Expr) and isinstance(e.value, ast.Call):
                # a method call on a local may mutate it (x.sort(), x.append(...)): treat receivers of unknown methods as opaque afterwards
                c = e.value
                if isinstance(c.func, ast.Attribute) and isinstance(c.func.value, ast.Name) and c.func.value.id in env:
                    nm = c.func.value.id
                    env[nm] = _opaque("mutated:" + c.func.attr, env[nm])
        ret = path.ret
        return (self.expr(f, subst(ret, env), depth) if ret is not None else None), env

    def _bind(self, t, val, env):
        if isinstance(t, ast.Name):
            env[t.id] = val
        elif isinstance(t, (ast.Tuple, ast.List)):
            if isinstance(val, (ast.Tuple, ast.List)) and len(val.elts) == len(t.elts):
                for a, b in zip(t.elts, val.elts):
                    self._bind(a, b, env)
            else:
                for i, a in enumerate(t.elts):
                    self._bind(a, ast.Subscript(value=copy.deepcopy(val), slice=ast.Constant(value=i), ctx=ast.Load()), env)
        elif isinstance(t, ast.Subscript) and isinstance(t.value, ast.Name):
            nm = t.value.id
            env[nm] = _opaque("stored", env.get(nm, ast.Name(id=nm, ctx=ast.Load())), subst(t.slice, env), val)
        elif isinstance(t, ast.Starred):
            self._bind(t.value, _opaque("starred", val), env)

    # ------------------------------------------------------------------ expressions: look through package calls
    def expr(self, f: FuncInfo, e, depth):
        if depth >= self.max_depth:
            return e
        outer = self

        class T(ast.NodeTransformer):
            def visit_Call(self_, n):
                self_.generic_visit(n)
                tgt = outer.P.resolve_expr(f.module, n.func, f) if isinstance(n.func, (ast.Name, ast.Attribute)) else None
                if not isinstance(tgt, FuncInfo) or tgt.cls is not None or tgt.name in outer.keep:
                    return n
                r = outer.call(tgt, n, depth + 1)
                return r if r is not None else n

            def visit_Subscript(self_, n):
                self_.generic_visit(n)
                # (a, b, c)[1] -> b
                if isinstance(n.value, ast.Tuple) and isinstance(n.slice, ast.Constant) and isinstance(n.slice.value, int) and -len(n.value.elts) <= n.slice.value < len(n.value.elts):
                    return n.value.elts[n.slice.value]
                return n
        return T().visit(e)

    def call(self, tgt: FuncInfo, call: ast.Call, depth):
        """expanded return expression of tgt(args) when tgt has exactly one normally-returning path, else None"""
        if any(isinstance(a, ast.Starred) for a in call.args) or any(k.arg is None for k in call.keywords):
            return None
        a = tgt.node.args
        if a.vararg or a.kwarg:
            return None
        pos = [x.arg for x in a.posonlyargs + a.args]
        kwonly = [x.arg for x in a.kwonlyargs]
        if len(call.args) > len(pos):
            return None
        env = dict(zip(pos, call.args))
        for k in call.keywords:
            if k.arg not in pos + kwonly or k.arg in env:
                return None
            env[k.arg] = k.value
        defaults = dict(zip(pos[len(pos) - len(a.defaults):], a.defaults))
        defaults.update({n_: d for n_, d in zip(kwonly, a.kw_defaults) if d is not None})
        for prm in pos + kwonly:
            if prm not in env:
                if prm not in defaults:
                    return None
                env[prm] = defaults[prm]
        try:
            paths = [p for p in enumerate_paths(tgt.node.body, max_paths=64, split_boolops=False) if p.exit in ("return", "fall")]
        except Exception:
            return None
        rets = [p for p in paths if p.exit == "return" and p.ret is not None]
        if not rets or len(rets) != len(paths) or len(rets) > 4:
            return None
        if any(isinstance(x, (ast.Yield, ast.YieldFrom, ast.Global, ast.Nonlocal, ast.For, ast.While, ast.AsyncFor)) for x in ast.walk(tgt.node)) and len(rets) > 1:
            return None
        if any(isinstance(x, (ast.Yield, ast.YieldFrom, ast.Global, ast.Nonlocal)) for x in ast.walk(tgt.node)):
            return None
        if len(rets) == 1:
            r, _env = self.run_path(tgt, rets[0], env, depth)
        else:
            # several returning paths: a conditional expression over the path conditions.  The conditions are read in the final environment of their path,
            # which is what they saw when they were tested only if no name they mention is assigned twice.
            stores = {}
            for x in ast.walk(tgt.node):
                if isinstance(x, ast.Name) and isinstance(x.ctx, ast.Store):
                    stores[x.id] = stores.get(x.id, 0) + 1
            for p in rets:
                for t, _v in p.conds:
                    if any(isinstance(x, ast.Name) and stores.get(x.id, 0) > 1 for x in ast.walk(t)):
                        return None
            r = None
            for p in reversed(rets):
                val, penv = self.run_path(tgt, p, env, depth)
                if val is None:
                    return None
                if r is None:
                    r = val
                    continue
                tests = [subst(t, penv) if v else ast.UnaryOp(op=ast.Not(), operand=subst(t, penv)) for t, v in p.conds]
                if not tests:
                    return None
                cond = tests[0] if len(tests) == 1 else ast.BoolOp(op=ast.And(), values=tests)
                r = ast.IfExp(test=self.expr(tgt, cond, depth), body=val, orelse=r)
        if r is not None:
            self.inlined.append(tgt.key)
        return r

    def conditions(self, f: FuncInfo, path, env, depth=0):
        """[(expanded test, truth)] of a path, read in the environment `env` (the path's final one)"""
        return [(self.expr(f, subst(t, env), depth), v) for t, v in path.conds]

    # ------------------------------------------------------------------ whole function
    def returns(self, f: FuncInfo, max_paths=4000, split_boolops=True):
        """[(path, expanded return expression, final env)] for every normally-returning path of f"""
        out = []
        for p in enumerate_paths(f.node.body, max_paths=max_paths, split_boolops=split_boolops):
            if p.exit != "return" or p.ret is None:
                continue
            r, env = self.run_path(f, p, {}, 0)
            out.append((p, r, env))
        return out

    # ------------------------------------------------------------------ guards
    def raising_guards(self, f: FuncInfo, depth=0, env=None):
        """[(test expression over f's parameters, statement)] for every `if <test>: ... raise` in f and in the package procedures f calls as bare statements
        (their parameters replaced by the arguments)."""
        env = env or {}
        out = []
        for st in f.node.body:
            out += self._guards_stmt(f, st, env, depth)
        return out

    def _guards_stmt(self, f, st, env, depth):
        out = []
        if isinstance(st, ast.If):
            if any(isinstance(x, ast.Raise) for x in st.body):
                out.append((subst(st.test, env), st))
            if any(isinstance(x, ast.Raise) for x in st.orelse):
                out.append((ast.UnaryOp(op=ast.Not(), operand=subst(st.test, env)), st))
            for sub in st.body + st.orelse:
                out += self._guards_stmt(f, sub, env, depth)
        elif isinstance(st, ast.Expr) and isinstance(st.value, ast.Call) and depth < self.max_depth:
            c = st.value
            tgt = self.P.resolve_expr(f.module, c.func, f)
            if isinstance(tgt, FuncInfo) and tgt.cls is None and not any(isinstance(a, ast.Starred) for a in c.args):
                pos = [x.arg for x in tgt.node.args.posonlyargs + tgt.node.args.args]
                henv = {p: subst(a, env) for p, a in zip(pos, c.args)}
                henv.update({k.arg: subst(k.value, env) for k in c.keywords if k.arg})
                out += self.raising_guards(tgt, depth + 1, henv)
        return out


# ---------------------------------------------------------------------------------------------------------------- matching helpers
def call_name(e):
    from .loader import dotted
    return (dotted(e.func) or [""])[-1] if isinstance(e, ast.Call) else None


def kw(e, name):
    return next((k.value for k in e.keywords if k.arg == name), None) if isinstance(e, ast.Call) else None


def strip_neutral(e, names=("asarray", "array", "ascontiguousarray", "asanyarray")):
    """np.asarray(x) -> x  (value-preserving wrappers)"""
    while isinstance(e, ast.Call) and call_name(e) in names and e.args and not [k for k in e.keywords if k.arg not in ("dtype", "copy")]:
        e = e.args[0]
    return e


def same(a, b):
    return norm(a) == norm(b)


def factors(e):
    if isinstance(e, ast.BinOp) and isinstance(e.op, ast.Mult):
        return factors(e.left) + factors(e.right)
    return [e]


def is_const(e, pred=lambda v: True):
    if isinstance(e, ast.Constant) and isinstance(e.value, (int, float)) and not isinstance(e.value, bool):
        return pred(e.value)
    if isinstance(e, ast.UnaryOp) and isinstance(e.op, ast.USub) and isinstance(e.operand, ast.Constant) and isinstance(e.operand.value, (int, float)):
        return pred(-e.operand.value)
    return False
