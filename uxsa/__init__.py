"""uxsa - repository-specific static analysis of UXARRAY/uxarray.

Never imports uxarray.  Reads ${UXSA_REPO:-/repo}/uxarray/**/*.py on every run
and decides structural necessary conditions of the properties in
/verif/properties.jsonl (see /verif/DESIGN.md).
"""

import os

REPO = os.environ.get("UXSA_REPO", "/repo")
VERIF = os.path.dirname(os.path.dirname(os.path.abspath(__file__)))
