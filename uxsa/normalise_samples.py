"""Validation of the normaliser itself (not of uxarray): small programs covering every rewrite N1..N9 are executed before and after normalisation and must
behave identically (return value or exception) on the listed inputs; each sample also states which rewrite must have fired, so a rewrite that silently stops
applying is noticed.  Run by `python -m uxsa selfcheck`."""
import ast

from .normalise import normalise

SAMPLES = [
    ("N1 alias of a private attribute", "aliases_inlined", '''
class G:
    def __init__(self): self._c = {"a": None, "k": 0}
    def get(self, k):
        c = self._c
        if c["a"] is not None and c["k"] == k:
            return ("hit", c["a"])
        c["a"] = k * 2
        c["k"] = k
        return ("miss", c["a"])
def run(x):
    g = G(); return [g.get(x), g.get(x), g.get(x + 1)]
'''),
    ("N1' alias used only before the attribute is rebound", "aliases_inlined", '''
class G:
    def __init__(self): self._t = None
    def get(self, k):
        t = self._t
        if t is not None and t[0] == k:
            return ("reuse", t)
        self._t = (k, k * k)
        return ("built", self._t)
def run(x):
    g = G(); return [g.get(x), g.get(x), g.get(-x)]
'''),
    ("N2 dict.update with keywords and with a literal", "update_keys_split", '''
class G:
    def __init__(self): self._c = {}
    def put(self, a, b):
        self._c.update(a=a, b=b)
        self._c.update({"c": a + b})
        return dict(self._c)
def run(x):
    return G().put(x, 3)
'''),
    ("N3 loop over a constant table with break/else", "table_loops_unrolled", '''
T = {"n_face": "f", "n_edge": "e", "n_node": "n"}
def pick(dims):
    for d, nm in T.items():
        if d in dims:
            r = nm + d
            break
    else:
        raise ValueError("none of " + ",".join(dims))
    return r
def run(x):
    out = []
    for dims in (["n_edge"], ["q", "n_node"], ["n_node", "n_face"], ["z"] if x else ["n_face"]):
        try: out.append(pick(dims))
        except ValueError as e: out.append(str(e))
    return out
'''),
    ("N3 plain loop over a literal tuple", "table_loops_unrolled", '''
def run(x):
    acc = []
    for name in ("a", "b", "c"):
        acc.append(name * x)
    return acc
'''),
    ("N4 thin wrapper with a function-valued and a constant argument", "wrappers_inlined", '''
def _k1(v, s): return [v + s]
def _k2(v, s): return [v - s, v]
def _common(v, kernel, tag, s=2):
    if v < 0:
        raise ValueError("neg %s" % tag)
    r = kernel(v, s)
    return (tag, r)
def a(v): return _common(v, _k1, "A")
def b(v): return _common(v, kernel=_k2, tag="B", s=5)
def run(x):
    out = []
    for f in (a, b):
        try: out.append(f(x))
        except ValueError as e: out.append(str(e))
    return out
'''),
    ("N4 method wrapper", "wrappers_inlined", '''
class G:
    def __init__(self): self._ds = {}
    def _coord(self, name):
        if name in self._ds:
            return self._ds[name]
        self._ds["lon"] = 1; self._ds["lat"] = 2
        return self._ds[name]
    @property
    def lon(self): return self._coord("lon")
    @property
    def lat(self): return self._coord("lat")
def run(x):
    g = G(); return [g.lat, g.lon, sorted(g._ds)]
'''),
    ("N5 single-expression helper with a generator", "expression_helpers_inlined", '''
def _differ(cached, requested):
    return any(cached[name] != value for name, value in requested.items())
def _red(data, idx, f, kw):
    return f([data[i] for i in idx], **kw)
def run(x):
    cached = {"p": 1, "q": x}
    return [_differ(cached, {"p": 1, "q": 2}), _red([5, 6, 7, x], (0, 3), sum, {"start": 10})]
'''),
    ("N6 helper that never returns", "noreturn_helpers_inlined", '''
def _fail(v):
    if v % 2:
        raise KeyError("odd %d" % v)
    raise ValueError("even %d" % v)
def f(v):
    if v > 3:
        _fail(v)
    return v
def run(x):
    out = []
    for v in (x, x + 4, x + 5):
        try: out.append(f(v))
        except (KeyError, ValueError) as e: out.append(type(e).__name__ + str(e))
    return out
'''),
    ("N7 boolean flag consumed by the next statement", "flags_inlined", '''
def f(t, r, k):
    ok = t is not None and not r and t[0] == k
    if ok:
        return "reuse"
    return "build"
def run(x):
    return [f(None, False, x), f((x,), False, x), f((x,), True, x), f((x + 1,), False, x)]
'''),
    ("N8 local dict literal + N2 + N9", "dict_literals_propagated", '''
class G:
    def __init__(self): self._c = {"v": None, "p": None, "q": None}
    def conv(self, p, q):
        if p < 0:
            p = 0
        req = {"p": p, "q": q}
        if self._c["v"] is not None and not any(self._c[n] != v for n, v in req.items()):
            return ("cached", self._c["v"])
        self._c["v"] = p + q
        self._c.update(v2=p, **req)
        return ("new", self._c["v"])
def run(x):
    g = G(); return [g.conv(x, 1), g.conv(x, 1), g.conv(-5, 1), g.conv(0, 1), g.conv(x, 2)]
'''),
    ("N10 getattr/setattr with identifier literals", "getattr_setattr_folded", '''
class G:
    def __init__(self): self._t = None
    def get(self, k):
        t = getattr(self, "_t")
        if t is None or t[0] != k:
            t = (k, k + 1)
            setattr(self, "_t", t)
        return t
def run(x):
    g = G(); return [g.get(x), g.get(x), g._t]
'''),
    ("N3 table of tuples with module references + N11 folding", "boolean_constants_folded", '''
import math
_CORE = (("a", "x", True, math.pi), ("b", "y", False, math.e))
def pick(attrs, ds):
    out = {}
    for attr, fallback, required, val in _CORE:
        if attr in attrs:
            out[attrs[attr]] = val
        elif required or fallback in ds:
            out[ds[fallback]] = val
    return out
def run(x):
    res = []
    for attrs, ds in (({"a": "A"}, {"x": "X", "y": "Y"}), ({}, {"x": "X"}), ({"b": "B"}, {"x": "X2"}), ({}, {"y": "Y"} if x else {"x": "X"})):
        try: res.append(sorted(pick(attrs, ds).items()))
        except KeyError as e: res.append("KeyError" + str(e))
    return res
'''),
    ("N12 module-level numeric constant", "numeric_constants_folded", '''
SPAN = 180
OTHER = 2.5
def f(v):
    return v >= SPAN
def g(SPAN):
    return SPAN + OTHER
def run(x):
    return [f(x * 100), g(x)]
'''),
    ("N9 all() over a literal tuple", "any_all_expanded", '''
def run(x):
    return [all(v > x for v in (3, 4, 5)), any(v == x for v in (1, 2))]
'''),
    ("N13 selector helper in an assignment and an augmented assignment", "selector_helpers_inlined", '''
def pick_base_zz(attrs, vals, mask):
    """doc"""
    if "start" in attrs:
        return int(attrs["start"])
    elif any(mask):
        if min(vals) > 5:
            return 5
    else:
        return -1
    return 0
def run(x):
    out = []
    for attrs, vals in (({"start": x}, [1, 2]), ({}, [x, 9]), ({}, [7, 8]), ({}, [])):
        mask = [v != 9 for v in vals]
        b = pick_base_zz(attrs, vals, mask)
        acc = [10]
        acc[0] -= pick_base_zz(attrs, vals, mask)
        out.append((b, acc))
    return out
'''),
    ("N12 module-level arithmetic constant over another constant", "numeric_constants_folded", '''
TOL_ZZ = 0.25
LIMIT_ZZ = 1.0 - TOL_ZZ
def clipflag(vals):
    return [abs(v) > LIMIT_ZZ for v in vals]
def run(x):
    return clipflag([x, 0.7, 0.76, -0.9, 0.75])
'''),
    ("N15 tail call of a private method", "tail_method_calls_inlined", '''
class G:
    def __init__(self): self._ds = {}; self.n = 0
    @property
    def area(self):
        if "area" in self._ds:
            return self._ds["area"]
        return self._cache_area_zz(3)
    def _cache_area_zz(self, k):
        """doc"""
        self.n += 1
        v = [self.n * k]
        self._ds["area"] = v
        if k > 5:
            return None
        return self._ds["area"]
    def touch(self, k):
        if k:
            return self._bump_zz()
        return -1
    def _bump_zz(self):
        self.n += 10
def run(x):
    g = G()
    return [g.area, g.area, g.touch(x), g.touch(0), g.n]
'''),
    ("N13 selector METHOD assigned to an attribute, non-simple argument in the root test", "selector_helpers_inlined", '''
class Box:
    pass
class G:
    def __init__(self, g): self.g = g
    def _pick_zz(self, deep):
        """doc"""
        if not deep:
            return self.g
        return list(self.g)
    def cp(self, **kw):
        out = Box()
        out.g = self._pick_zz(kw.get("deep"))
        return (out.g == self.g, out.g is self.g)
def run(x):
    g = G([x, 1])
    return [g.cp(), g.cp(deep=True), g.cp(deep=0)]
'''),
    ("N16 keyword dicts", "kwargs_dicts_inlined", '''
def mk(a, k=1, m=2, z=0):
    return (a, k, m, z)
def run(x):
    kw = {"k": x + 1, "m": x * 2}
    r = mk(x, **kw)
    s = mk(x, z=5, **{"m": 7})
    return [r, s]
'''),
    ("N17 pure arithmetic local", "pure_locals_propagated", '''
import math
def box(n, width):
    half = 0.5 * math.pi
    cols = width + 1
    rows = [[0] * cols for _ in range(n)]
    return (half, -half, len(rows[0]), cols * 2)
def run(x):
    return box(2, x % 5)
'''),
    ("N19 keyword call of a same-module function made positional", "calls_made_positional", '''
def build(face_nodes, n_face, n_max=3, tag="t"):
    return (list(face_nodes), n_face, n_max, tag)
def run(x):
    log = []
    def ev(v):
        log.append(v); return v
    a = build(face_nodes=[x], n_face=2, n_max=5)
    b = build([x], n_face=ev(1), n_max=ev(2))
    c = build(n_face=1, face_nodes=[0])          # not in parameter order: left alone
    return [a, b, c, log]
'''),
]


def _behaviour(src_or_tree, inputs):
    ns = {}
    code = compile(src_or_tree, "<sample>", "exec")
    exec(code, ns)
    out = []
    for x in inputs:
        try:
            out.append(("ok", repr(ns["run"](x))))
        except Exception as e:  # noqa: BLE001 - the sample's own exception is the observable
            out.append(("exc", type(e).__name__, str(e)))
    return out


def validate():
    """[(sample, problem)] - empty when every sample behaves the same after normalisation and its rewrite fired"""
    problems = []
    for name, must_fire, src in SAMPLES:
        tree = ast.parse(src)
        before = _behaviour(src, (0, 1, 2, 5))
        tree, stats = normalise(tree)
        if not stats.get(must_fire):
            problems.append((name, f"rewrite {must_fire} did not fire: {stats}"))
        try:
            after = _behaviour(ast.unparse(tree), (0, 1, 2, 5))
        except Exception as e:  # noqa: BLE001
            problems.append((name, f"normalised program does not run: {type(e).__name__}: {e}"))
            continue
        if before != after:
            problems.append((name, f"behaviour differs: {before} vs {after}"))
    return problems
