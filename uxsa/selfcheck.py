"""setup_cmd: nothing to build (pure stdlib).  Verifies that the analyser can load what it needs."""

from __future__ import annotations

import importlib
import json
import os

from . import REPO, VERIF
from .loader import load_program


def selfcheck():
    P = load_program(REPO)
    n_props = 0
    for i in range(1, 21):
        p = os.path.join(VERIF, "uxsa", "props", f"c{i:02d}.py")
        if os.path.exists(p):
            importlib.import_module(f"uxsa.props.c{i:02d}")
            n_props += 1
    n_known = n_fixed = 0
    for ln in open(os.path.join(VERIF, "known_findings.jsonl")):
        ln = ln.strip()
        if ln and not ln.startswith("#"):
            r = json.loads(ln)
            if r.get("fixed"):
                n_fixed += 1
            else:
                assert {"property", "rule", "construct", "what"} <= set(r), r
                n_known += 1
    n_mut = 0
    cat = os.path.join(VERIF, "mutants", "catalogue.jsonl")
    if os.path.exists(cat):
        for ln in open(cat):
            ln = ln.strip()
            if ln and not ln.startswith("#"):
                r = json.loads(ln)
                assert {"id", "property", "file", "old", "new", "expect"} <= set(r), r
                n_mut += 1
    # the normaliser must preserve behaviour: its sample programs run identically before and after every rewrite, and every rewrite still fires
    from .normalise_samples import SAMPLES, validate
    problems = validate()
    if problems:
        for name, why in problems:
            print(f"ANALYSIS-ERROR normaliser sample '{name}': {why}")
        return 2
    # ... and it must leave every module of the repository compilable
    tot = {}
    for m in P.modules.values():
        compile(m.tree, m.path, "exec")
        for k, v in (getattr(m, "normalised", {}) or {}).items():
            if isinstance(v, int):
                tot[k] = tot.get(k, 0) + v
    man = json.load(open(os.path.join(VERIF, "MANIFEST.json")))
    assert len(man["checks"]) == n_props, (len(man["checks"]), n_props)
    print(f"uxsa selfcheck: parsed {len(P.modules)} modules, {P.n_functions} functions from {REPO}; {n_props} property modules; "
          f"{n_known} known findings, {n_fixed} fixed entries; {n_mut} catalogue mutants; normaliser: {len(SAMPLES)} equivalence samples ok, rewrites applied to the repository {tot}")
    return 0
