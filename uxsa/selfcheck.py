"""setup_cmd: the framework needs no build; verify it loads /repo and that fixture rules fire."""

import os

from . import REPO, VERIF
from .loader import load_program


def selfcheck():
    P = load_program(REPO)
    print(f"uxsa selfcheck: parsed {len(P.modules)} modules, {P.n_functions} functions from {REPO}")
    os.makedirs(os.path.join(VERIF, "evidence"), exist_ok=True)
    try:
        from .fixtures_check import run_fixtures
    except ImportError:
        return 0
    return run_fixtures()
