"""Loader / symbol table / literal folder for the uxarray package (stdlib ast only)."""

from __future__ import annotations

import ast
import os
import warnings
from dataclasses import dataclass, field
from typing import Optional


class AnalysisIncomplete(Exception):
    """An anchor the analysis depends on is missing / an idiom is not understood."""


class Sym:
    """Symbolic constant (value not folded, e.g. INT_FILL_VALUE)."""

    __slots__ = ("name",)

    def __init__(self, name):
        self.name = name

    def __repr__(self):
        return f"Sym({self.name})"

    def __eq__(self, other):
        return isinstance(other, Sym) and other.name == self.name

    def __hash__(self):
        return hash(("Sym", self.name))


@dataclass
class External:
    name: str  # e.g. "numpy.deg2rad"

    def __repr__(self):
        return f"External({self.name})"


@dataclass
class ModuleRef:
    name: str


@dataclass
class ConstInfo:
    module: "Module"
    name: str
    node: ast.AST  # the value expression

    @property
    def key(self):
        return f"{self.module.name}.{self.name}"


@dataclass
class FuncInfo:
    module: "Module"
    name: str
    node: ast.FunctionDef
    cls: Optional["ClassInfo"] = None
    decorators: list = field(default_factory=list)

    @property
    def qualname(self):
        return f"{self.cls.name}.{self.name}" if self.cls else self.name

    @property
    def key(self):
        return f"{self.module.relpath}:{self.qualname}"

    @property
    def is_njit(self):
        return any(d.split("(")[0].split(".")[-1] in ("njit", "jit") for d in self.decorators)

    @property
    def is_property(self):
        return "property" in self.decorators

    @property
    def is_setter(self):
        return any(d.endswith(".setter") for d in self.decorators)

    @property
    def is_classmethod(self):
        return "classmethod" in self.decorators

    @property
    def is_staticmethod(self):
        return "staticmethod" in self.decorators

    def params(self):
        a = self.node.args
        return [x.arg for x in a.posonlyargs + a.args]

    def all_param_names(self):
        a = self.node.args
        names = [x.arg for x in a.posonlyargs + a.args + a.kwonlyargs]
        if a.vararg:
            names.append(a.vararg.arg)
        if a.kwarg:
            names.append(a.kwarg.arg)
        return names

    def defaults(self):
        """name -> default expr node"""
        a = self.node.args
        pos = a.posonlyargs + a.args
        out = {}
        for p, d in zip(pos[len(pos) - len(a.defaults):], a.defaults):
            out[p.arg] = d
        for p, d in zip(a.kwonlyargs, a.kw_defaults):
            if d is not None:
                out[p.arg] = d
        return out

    def __hash__(self):
        return id(self.node)

    def __eq__(self, other):
        return isinstance(other, FuncInfo) and other.node is self.node

    def __repr__(self):
        return f"<Func {self.key}>"


@dataclass
class ClassInfo:
    module: "Module"
    name: str
    node: ast.ClassDef
    methods: dict = field(default_factory=dict)  # name -> FuncInfo (getter for properties)
    setters: dict = field(default_factory=dict)
    bases: list = field(default_factory=list)
    attrs: dict = field(default_factory=dict)  # class-level assignments name -> node

    @property
    def key(self):
        return f"{self.module.relpath}:{self.name}"

    def __hash__(self):
        return id(self.node)

    def __eq__(self, other):
        return isinstance(other, ClassInfo) and other.node is self.node

    def __repr__(self):
        return f"<Class {self.key}>"


def deco_str(d):
    try:
        return ast.unparse(d)
    except Exception:  # pragma: no cover
        return "?"


class Module:
    def __init__(self, name, path, relpath, src):
        self.name = name
        self.path = path
        self.relpath = relpath
        self.src = src
        with warnings.catch_warnings():
            warnings.simplefilter("ignore")
            self.tree = ast.parse(src, filename=path)
        from .normalise import normalise
        self.tree, self.normalised = normalise(self.tree, relpath)
        self.is_pkg = os.path.basename(path) == "__init__.py"
        self.defs = {}  # last definition wins
        self.all_funcs = []  # every FuncInfo incl. shadowed ones and methods
        self.imports = {}  # alias -> ("mod", modname) | ("from", modname, name)
        self.shadowed = []  # (name, FuncInfo) earlier defs replaced by later ones
        self._index()

    def package(self):
        return self.name if self.is_pkg else self.name.rpartition(".")[0]

    def _abs_from(self, node: ast.ImportFrom):
        if node.level == 0:
            return node.module or ""
        base = self.package().split(".")
        if node.level > 1:
            base = base[: -(node.level - 1)]
        return ".".join(base + ([node.module] if node.module else []))

    def _index_imports(self, body, table):
        for st in body:
            if isinstance(st, ast.Import):
                for a in st.names:
                    if a.asname:
                        table[a.asname] = ("mod", a.name)
                    else:
                        top = a.name.split(".")[0]
                        table[top] = ("mod", top)
            elif isinstance(st, ast.ImportFrom):
                mod = self._abs_from(st)
                for a in st.names:
                    table[a.asname or a.name] = ("from", mod, a.name)
            elif isinstance(st, (ast.If, ast.Try)):
                for sub in ast.iter_child_nodes(st):
                    if isinstance(sub, list):
                        continue
                for fld in ("body", "orelse", "finalbody"):
                    self._index_imports(getattr(st, fld, []) or [], table)
                for h in getattr(st, "handlers", []) or []:
                    self._index_imports(h.body, table)

    def _mkfunc(self, node, cls=None):
        fi = FuncInfo(self, node.name, node, cls, [deco_str(d) for d in node.decorator_list])
        self.all_funcs.append(fi)
        return fi

    def _index(self):
        self._index_imports(self.tree.body, self.imports)
        for st in self.tree.body:
            if isinstance(st, (ast.FunctionDef, ast.AsyncFunctionDef)):
                fi = self._mkfunc(st)
                if st.name in self.defs and isinstance(self.defs[st.name], FuncInfo):
                    self.shadowed.append((st.name, self.defs[st.name]))
                self.defs[st.name] = fi
            elif isinstance(st, ast.ClassDef):
                ci = ClassInfo(self, st.name, st, bases=[deco_str(b) for b in st.bases])
                for sub in st.body:
                    if isinstance(sub, (ast.FunctionDef, ast.AsyncFunctionDef)):
                        fi = self._mkfunc(sub, ci)
                        if fi.is_setter:
                            ci.setters[sub.name] = fi
                        else:
                            ci.methods[sub.name] = fi
                    elif isinstance(sub, ast.Assign):
                        for t in sub.targets:
                            if isinstance(t, ast.Name):
                                ci.attrs[t.id] = sub.value
                self.defs[st.name] = ci
            elif isinstance(st, ast.Assign):
                for t in st.targets:
                    if isinstance(t, ast.Name):
                        self.defs[t.id] = ConstInfo(self, t.id, st.value)
            elif isinstance(st, ast.AnnAssign) and isinstance(st.target, ast.Name) and st.value is not None:
                self.defs[st.target.id] = ConstInfo(self, st.target.id, st.value)


class Program:
    PKG = "uxarray"

    def __init__(self, repo_root):
        self.root = repo_root
        self.modules = {}
        pkgdir = os.path.join(repo_root, self.PKG)
        if not os.path.isdir(pkgdir):
            raise AnalysisIncomplete(f"package directory not found: {pkgdir}")
        for dirpath, dirnames, filenames in os.walk(pkgdir):
            dirnames[:] = sorted(d for d in dirnames if d != "__pycache__")
            for fn in sorted(filenames):
                if not fn.endswith(".py"):
                    continue
                path = os.path.join(dirpath, fn)
                rel = os.path.relpath(path, repo_root)
                parts = rel[:-3].split(os.sep)
                if parts[-1] == "__init__":
                    parts = parts[:-1]
                name = ".".join(parts)
                with open(path, encoding="utf-8") as f:
                    src = f.read()
                try:
                    self.modules[name] = Module(name, path, rel, src)
                except SyntaxError as e:
                    raise AnalysisIncomplete(f"cannot parse {rel}: {e}")
        self._const_cache = {}
        self._func_by_key = {}
        for m in self.modules.values():
            for f in m.all_funcs:
                # last definition wins for the key as well
                self._func_by_key[f.key] = f
        self.n_functions = sum(len(m.all_funcs) for m in self.modules.values())

    # ------------------------------------------------------------------ lookup
    def module(self, name) -> Module:
        m = self.modules.get(name)
        if m is None:
            raise AnalysisIncomplete(f"module {name} not found")
        return m

    def func(self, key) -> FuncInfo:
        """key = 'uxarray/grid/grid.py:Grid.copy' (live definition)."""
        rel, _, qn = key.partition(":")
        modname = rel[:-3].replace("/", ".")
        if modname.endswith(".__init__"):
            modname = modname[: -len(".__init__")]
        m = self.modules.get(modname)
        if m is None:
            raise AnalysisIncomplete(f"anchor module missing: {rel}")
        if "." in qn:
            cn, _, fn = qn.partition(".")
            ci = m.defs.get(cn)
            if not isinstance(ci, ClassInfo):
                raise AnalysisIncomplete(f"anchor class missing: {key}")
            f = ci.methods.get(fn)
            if f is None and fn.endswith("@setter"):
                f = ci.setters.get(fn[: -len("@setter")])
            if f is None:
                raise AnalysisIncomplete(f"anchor method missing: {key}")
            return f
        f = m.defs.get(qn)
        if not isinstance(f, FuncInfo):
            raise AnalysisIncomplete(f"anchor function missing: {key}")
        return f

    def try_func(self, key):
        try:
            return self.func(key)
        except AnalysisIncomplete:
            return None

    def cls(self, key) -> ClassInfo:
        rel, _, cn = key.partition(":")
        modname = rel[:-3].replace("/", ".")
        m = self.modules.get(modname)
        ci = m.defs.get(cn) if m else None
        if not isinstance(ci, ClassInfo):
            raise AnalysisIncomplete(f"anchor class missing: {key}")
        return ci

    def all_functions(self):
        for m in self.modules.values():
            live = set()
            for f in m.all_funcs:
                if f.cls is None:
                    if m.defs.get(f.name) is f:
                        live.add(id(f))
                else:
                    live.add(id(f))
            for f in m.all_funcs:
                if id(f) in live:
                    yield f

    # --------------------------------------------------------------- resolution
    def _resolve_in_module(self, m: Module, name, seen=None):
        seen = seen or set()
        if (m.name, name) in seen:
            return None
        seen.add((m.name, name))
        if name in m.defs:
            return m.defs[name]
        imp = m.imports.get(name)
        if imp is not None:
            return self._resolve_import(imp, seen)
        return None

    def _resolve_import(self, imp, seen=None):
        if imp[0] == "mod":
            mn = imp[1]
            if mn == self.PKG or mn.startswith(self.PKG + "."):
                return ModuleRef(mn)
            return External(mn)
        _, mod, name = imp
        if not (mod == self.PKG or mod.startswith(self.PKG + ".")):
            return External(f"{mod}.{name}")
        sub = f"{mod}.{name}"
        if sub in self.modules:
            return ModuleRef(sub)
        m = self.modules.get(mod)
        if m is None:
            return External(sub)
        r = self._resolve_in_module(m, name, seen)
        return r if r is not None else External(sub)

    def resolve_name(self, module: Module, name, func: FuncInfo = None):
        """Resolve a bare name as seen from `module` (and function-local imports of `func`)."""
        if func is not None:
            table = self.local_imports(func)
            if name in table:
                return self._resolve_import(table[name])
        return self._resolve_in_module(module, name)

    def local_imports(self, func: FuncInfo):
        c = getattr(func, "_local_imports", None)
        if c is None:
            c = {}
            for n in ast.walk(func.node):
                if isinstance(n, ast.Import):
                    for a in n.names:
                        if a.asname:
                            c[a.asname] = ("mod", a.name)
                        else:
                            c[a.name.split(".")[0]] = ("mod", a.name.split(".")[0])
                elif isinstance(n, ast.ImportFrom):
                    mod = func.module._abs_from(n)
                    for a in n.names:
                        c[a.asname or a.name] = ("from", mod, a.name)
            func._local_imports = c
        return c

    def resolve_expr(self, module: Module, node, func: FuncInfo = None):
        """Resolve Name / dotted Attribute chains to program entities (or External)."""
        chain = dotted(node)
        if chain is None:
            return None
        cur = self.resolve_name(module, chain[0], func)
        if cur is None:
            return None
        for part in chain[1:]:
            if isinstance(cur, ModuleRef):
                sub = f"{cur.name}.{part}"
                if sub in self.modules:
                    cur = ModuleRef(sub)
                    continue
                m = self.modules.get(cur.name)
                r = self._resolve_in_module(m, part) if m else None
                if r is None:
                    return None
                cur = r
            elif isinstance(cur, External):
                cur = External(f"{cur.name}.{part}")
            elif isinstance(cur, ClassInfo):
                if part in cur.methods:
                    cur = cur.methods[part]
                elif part in cur.attrs:
                    cur = ConstInfo(cur.module, f"{cur.name}.{part}", cur.attrs[part])
                else:
                    return None
            else:
                return None
        return cur

    def resolve_callee(self, module: Module, call_func, func: FuncInfo = None):
        """resolve_expr, plus  self.<method>  inside a method of a class of the package (the receiver is the method's first parameter)"""
        r = self.resolve_expr(module, call_func, func) if isinstance(call_func, (ast.Name, ast.Attribute)) else None
        if r is not None:
            return r
        if func is not None and func.cls is not None and isinstance(call_func, ast.Attribute) and isinstance(call_func.value, ast.Name):
            ps = func.params()
            if ps and call_func.value.id == ps[0]:
                ci = func.cls if isinstance(func.cls, ClassInfo) else None
                if ci is not None and call_func.attr in ci.methods:
                    return ci.methods[call_func.attr]
        return None

    # ------------------------------------------------------------ const folding
    def const_value(self, ci: ConstInfo):
        k = ci.key
        if k not in self._const_cache:
            self._const_cache[k] = Sym(ci.name)  # recursion guard
            self._const_cache[k] = self.fold(ci.module, ci.node, sym_name=ci.name)
        return self._const_cache[k]

    def fold(self, module: Module, node, func=None, sym_name=None):
        """Fold a literal expression; unknown parts become Sym."""
        if isinstance(node, ast.Constant):
            return node.value
        if isinstance(node, ast.JoinedStr):
            return Sym("fstring")
        if isinstance(node, (ast.List, ast.Tuple)):
            vals = [self.fold(module, e, func) for e in node.elts]
            return vals if isinstance(node, ast.List) else tuple(vals)
        if isinstance(node, ast.Set):
            return set(self.fold(module, e, func) for e in node.elts)
        if isinstance(node, ast.Dict):
            out = {}
            for k, v in zip(node.keys, node.values):
                if k is None:
                    sub = self.fold(module, v, func)
                    if isinstance(sub, dict):
                        out.update(sub)
                    continue
                kk = self.fold(module, k, func)
                try:
                    out[kk] = self.fold(module, v, func)
                except TypeError:
                    pass
            return out
        if isinstance(node, (ast.Name, ast.Attribute)):
            r = self.resolve_expr(module, node, func)
            if isinstance(r, ConstInfo):
                return self.const_value(r)
            ch = dotted(node)
            return Sym(".".join(ch) if ch else (sym_name or "?"))
        if isinstance(node, ast.UnaryOp) and isinstance(node.op, ast.USub):
            v = self.fold(module, node.operand, func)
            if isinstance(v, (int, float)):
                return -v
        if isinstance(node, ast.BinOp) and isinstance(node.op, ast.Add):
            a, b = self.fold(module, node.left, func), self.fold(module, node.right, func)
            if isinstance(a, str) and isinstance(b, str):
                return a + b
            if isinstance(a, list) and isinstance(b, list):
                return a + b
        if isinstance(node, ast.Call):
            fn = dotted(node.func)
            if fn and fn[-1] in ("dict",) and not node.args:
                return {k.arg: self.fold(module, k.value, func) for k in node.keywords if k.arg}
            if fn and fn[-1] in ("dict",) and len(node.args) == 1 and not node.keywords:
                v = self.fold(module, node.args[0], func)
                if isinstance(v, dict):
                    return dict(v)
            # a module-level table built by a small pure helper of the same package (NAME = _make_attrs("role", "text", padded=False)):
            # the helper is evaluated on literal arguments by a restricted interpreter (assignments, dict item stores, if on foldable tests, return)
            r = self.resolve_expr(module, node.func, func) if isinstance(node.func, (ast.Name, ast.Attribute)) else None
            if isinstance(r, FuncInfo) and r.cls is None:
                v = self._eval_pure_helper(r, node, module, func)
                if v is not None:
                    return v
        if isinstance(node, ast.Compare) and len(node.ops) == 1:
            a, b = self.fold(module, node.left, func), self.fold(module, node.comparators[0], func)
            if not isinstance(a, Sym) and not isinstance(b, Sym):
                try:
                    op = node.ops[0]
                    if isinstance(op, ast.Eq):
                        return a == b
                    if isinstance(op, ast.NotEq):
                        return a != b
                    if isinstance(op, ast.In):
                        return a in b
                    if isinstance(op, ast.NotIn):
                        return a not in b
                    if isinstance(op, ast.Is):
                        return a is b
                    if isinstance(op, ast.IsNot):
                        return a is not b
                except Exception:  # noqa: BLE001
                    pass
        if isinstance(node, ast.UnaryOp) and isinstance(node.op, ast.Not):
            v = self.fold(module, node.operand, func)
            if isinstance(v, bool):
                return not v
        return Sym(sym_name or "expr")

    def _eval_pure_helper(self, h, call, module, func, depth=0):
        """value returned by h(<foldable arguments>) when h's body is: local assignments, `d[k] = v` / `d.update({...})` on a local dict, `if` on tests that fold
        to a bool, `return <expr>`; None when anything else occurs"""
        if depth > 2 or any(isinstance(a, ast.Starred) for a in call.args) or any(k.arg is None for k in call.keywords):
            return None
        a = h.node.args
        if a.vararg or a.kwarg:
            return None
        pos = [x.arg for x in a.posonlyargs + a.args]
        kwonly = [x.arg for x in a.kwonlyargs]
        env = {}
        for prm, arg in zip(pos, call.args):
            env[prm] = self.fold(module, arg, func)
        for k in call.keywords:
            if k.arg not in pos + kwonly:
                return None
            env[k.arg] = self.fold(module, k.value, func)
        defaults = dict(zip(pos[len(pos) - len(a.defaults):], a.defaults))
        defaults.update({n_: d for n_, d in zip(kwonly, a.kw_defaults) if d is not None})
        for prm in pos + kwonly:
            if prm not in env:
                if prm not in defaults:
                    return None
                env[prm] = self.fold(h.module, defaults[prm], h)
        if len(call.args) > len(pos):
            return None
        outer = self

        class Stop(Exception):
            pass

        def ev(e):
            if isinstance(e, ast.Name) and e.id in env:
                return env[e.id]
            if isinstance(e, ast.Dict):
                out = {}
                for k, v in zip(e.keys, e.values):
                    if k is None:
                        sub = ev(v)
                        if not isinstance(sub, dict):
                            raise Stop()
                        out.update(sub)
                    else:
                        out[ev(k)] = ev(v)
                return out
            if isinstance(e, (ast.Tuple, ast.List)):
                vals = [ev(x) for x in e.elts]
                return tuple(vals) if isinstance(e, ast.Tuple) else vals
            if isinstance(e, ast.BoolOp):
                vals = [ev(x) for x in e.values]
                if any(isinstance(v, Sym) for v in vals):
                    raise Stop()
                return all(vals) if isinstance(e.op, ast.And) else any(vals)
            if isinstance(e, ast.UnaryOp) and isinstance(e.op, ast.Not):
                v = ev(e.operand)
                if isinstance(v, Sym):
                    raise Stop()
                return not v
            if isinstance(e, ast.Compare) and len(e.ops) == 1:
                l, r = ev(e.left), ev(e.comparators[0])
                if isinstance(l, Sym) or isinstance(r, Sym):
                    raise Stop()
                op = e.ops[0]
                table = {ast.Eq: lambda: l == r, ast.NotEq: lambda: l != r, ast.In: lambda: l in r, ast.NotIn: lambda: l not in r, ast.Is: lambda: l is r, ast.IsNot: lambda: l is not r}
                if type(op) in table:
                    return table[type(op)]()
                raise Stop()
            if isinstance(e, ast.IfExp):
                t = ev(e.test)
                if isinstance(t, Sym):
                    raise Stop()
                return ev(e.body) if t else ev(e.orelse)
            if isinstance(e, ast.Call) and isinstance(e.func, ast.Name) and e.func.id == "dict" and len(e.args) <= 1:
                base = ev(e.args[0]) if e.args else {}
                if not isinstance(base, dict):
                    raise Stop()
                out = dict(base)
                out.update({k.arg: ev(k.value) for k in e.keywords if k.arg})
                return out
            if any(isinstance(x, ast.Name) and x.id in env for x in ast.walk(e)):
                raise Stop()
            return outer.fold(h.module, e, h)

        def run(stmts):
            for st in stmts:
                if isinstance(st, ast.Expr) and isinstance(st.value, ast.Constant):
                    continue
                if isinstance(st, ast.Assign) and len(st.targets) == 1 and isinstance(st.targets[0], ast.Name):
                    env[st.targets[0].id] = ev(st.value)
                elif isinstance(st, ast.Assign) and len(st.targets) == 1 and isinstance(st.targets[0], ast.Subscript) and isinstance(st.targets[0].value, ast.Name) \
                        and isinstance(env.get(st.targets[0].value.id), dict):
                    env[st.targets[0].value.id][ev(st.targets[0].slice)] = ev(st.value)
                elif isinstance(st, ast.Expr) and isinstance(st.value, ast.Call) and isinstance(st.value.func, ast.Attribute) and st.value.func.attr == "update" \
                        and isinstance(st.value.func.value, ast.Name) and isinstance(env.get(st.value.func.value.id), dict):
                    upd = {}
                    if st.value.args:
                        upd = ev(st.value.args[0])
                        if not isinstance(upd, dict):
                            raise Stop()
                    upd = dict(upd)
                    upd.update({k.arg: ev(k.value) for k in st.value.keywords if k.arg})
                    env[st.value.func.value.id].update(upd)
                elif isinstance(st, ast.If):
                    t = ev(st.test)
                    if isinstance(t, Sym):
                        raise Stop()
                    r_ = run(st.body if t else st.orelse)
                    if r_ is not None:
                        return r_
                elif isinstance(st, ast.Return):
                    return ("ret", ev(st.value) if st.value is not None else None)
                elif isinstance(st, ast.Pass):
                    continue
                else:
                    raise Stop()
            return None
        try:
            r_ = run(h.node.body)
        except Stop:
            return None
        except Exception:  # noqa: BLE001
            return None
        return r_[1] if r_ else None


def dotted(node):
    """['a','b','c'] for a.b.c, None if not a pure dotted chain."""
    parts = []
    while isinstance(node, ast.Attribute):
        parts.append(node.attr)
        node = node.value
    if isinstance(node, ast.Name):
        parts.append(node.id)
        return list(reversed(parts))
    return None


_PROGRAM_CACHE = {}


def load_program(repo_root=None) -> Program:
    from . import REPO

    root = repo_root or REPO
    if root not in _PROGRAM_CACHE:
        _PROGRAM_CACHE[root] = Program(root)
    return _PROGRAM_CACHE[root]
