"""Checker validation (thorough tier): applies the catalogue's one-site edits to scratch copies of the package
(under $TMPDIR, removed afterwards), re-runs the property's quick check on each copy and records whether the
checker fires ('caught' mutants) or stays silent ('silent' twins: behaviour-preserving rewrites).
The result is evidence about the CHECKER, it never changes the verdict about /repo."""

from __future__ import annotations

import json
import os
import shutil
import subprocess
import sys
import tempfile
from concurrent.futures import ThreadPoolExecutor

from . import REPO, VERIF

CATALOGUE = os.path.join(VERIF, "mutants", "catalogue.jsonl")


def load(prop=None):
    out = []
    if not os.path.exists(CATALOGUE):
        return out
    for ln in open(CATALOGUE):
        ln = ln.strip()
        if ln and not ln.startswith("#"):
            r = json.loads(ln)
            if prop is None or r["property"] == prop:
                out.append(r)
    return out


def _one(rec):
    d = tempfile.mkdtemp(prefix="uxsa_mut_", dir=os.environ.get("TMPDIR", "/tmp"))
    try:
        shutil.copytree(os.path.join(REPO, "uxarray"), os.path.join(d, "uxarray"), ignore=shutil.ignore_patterns("__pycache__"))
        path = os.path.join(d, rec["file"])
        src = open(path).read()
        if src.count(rec["old"]) < 1:
            return rec, "not-applicable", "anchor text no longer present in the tree"
        occ = int(rec.get("occurrence", 1))  # which occurrence of the anchor text is edited (the module may define a function twice)
        if src.count(rec["old"]) < occ:
            return rec, "not-applicable", f"anchor text occurs fewer than {occ} times"
        parts = src.split(rec["old"])
        new_src = rec["old"].join(parts[:occ]) + rec["new"] + rec["old"].join(parts[occ:])
        try:
            import warnings
            with warnings.catch_warnings():
                warnings.simplefilter("ignore")
                compile(new_src, path, "exec")
        except SyntaxError as e:
            return rec, "not-applicable", f"mutant does not compile: {e}"
        open(path, "w").write(new_src)
        env = dict(os.environ, UXSA_REPO=d, UXSA_NO_EVIDENCE="1", UXSA_NO_REPLAY="1")
        p = subprocess.run([sys.executable, "-m", "uxsa", "check", rec["property"], "--tier", "quick"], cwd=VERIF, env=env, capture_output=True, text=True)
        rules = [l.strip() for l in p.stdout.splitlines() if l.startswith("  rule=")]
        if p.returncode == 1:
            return rec, "caught", rules[0][:200] if rules else ""
        if p.returncode == 2:
            return rec, "incomplete", next((l for l in p.stdout.splitlines() if l.startswith("ANALYSIS-")), "")[:200]
        return rec, "silent", ""
    finally:
        shutil.rmtree(d, ignore_errors=True)


def _patched(patch_path, prop):
    """quick check of `prop` on a scratch copy of the current tree with a committed patch applied: 'caught' | 'incomplete' | 'silent' | 'not-applicable'"""
    d = tempfile.mkdtemp(prefix="uxsa_pat_", dir=os.environ.get("TMPDIR", "/tmp"))
    try:
        shutil.copytree(os.path.join(REPO, "uxarray"), os.path.join(d, "uxarray"), ignore=shutil.ignore_patterns("__pycache__"))
        p = subprocess.run(["patch", "-p1", "-s", "--no-backup-if-mismatch", "-i", patch_path], cwd=d, capture_output=True, text=True)
        if p.returncode != 0:
            return "not-applicable", "patch no longer applies to the tree"
        env = dict(os.environ, UXSA_REPO=d, UXSA_NO_EVIDENCE="1", UXSA_NO_REPLAY="1")
        p = subprocess.run([sys.executable, "-m", "uxsa", "check", prop, "--tier", "quick"], cwd=VERIF, env=env, capture_output=True, text=True)
        rules = [l.strip() for l in p.stdout.splitlines() if l.startswith("  rule=")]
        if p.returncode == 1:
            return "caught", rules[0][:160] if rules else ""
        if p.returncode == 2:
            return "incomplete", next((l for l in p.stdout.splitlines() if l.startswith("ANALYSIS-")), "")[:160]
        return "silent", ""
    finally:
        shutil.rmtree(d, ignore_errors=True)


def validate_patches(prop, jobs=None):
    """The committed sub-agent changes of this property: seeded/<prop>*/ (written to BREAK the property: this property's check should report them; a change that
    only another property's check reports is listed as such in DESIGN 9.6) and twins/<prop>t*/ (behaviour-preserving: the check must not report a violation)."""
    res = {"seeded": {}, "refactorings": {}}
    work = []
    for kind, root in (("seeded", "seeded"), ("refactorings", "twins")):
        base = os.path.join(VERIF, root)
        if not os.path.isdir(base):
            continue
        for nm in sorted(os.listdir(base)):
            pp = os.path.join(base, nm, "patch.diff")
            if nm.startswith(prop) and os.path.exists(pp):
                work.append((kind, nm, pp))
    with ThreadPoolExecutor(jobs or min(8, os.cpu_count() or 4)) as ex:
        for (kind, nm, _pp), (outcome, info) in zip(work, ex.map(lambda w: _patched(w[2], prop), work)):
            res[kind][nm] = {"outcome": outcome, "rule": info}
    res["seeded_reported"] = sum(1 for v in res["seeded"].values() if v["outcome"] == "caught")
    res["seeded_total"] = len(res["seeded"])
    res["refactorings_false_alarms"] = sorted(k for k, v in res["refactorings"].items() if v["outcome"] == "caught")
    res["refactorings_silent"] = sum(1 for v in res["refactorings"].values() if v["outcome"] == "silent")
    res["refactorings_not_understood"] = sum(1 for v in res["refactorings"].values() if v["outcome"] == "incomplete")
    return res


def validate(prop=None, jobs=None):
    recs = load(prop)
    res = {"mutants": 0, "caught": 0, "twins": 0, "twins_silent": 0, "refused_expected": 0, "refused": 0, "not_applicable": 0, "missed": [], "false_alarms": [], "details": []}
    if not recs:
        return res
    with ThreadPoolExecutor(jobs or min(16, os.cpu_count() or 4)) as ex:
        for rec, outcome, info in ex.map(_one, recs):
            if outcome == "not-applicable":
                res["not_applicable"] += 1
            elif rec["expect"] == "incomplete":
                # a breaking change written in an idiom the rule cannot read: the check must refuse to pass (exit 2), never pass silently
                res["refused_expected"] += 1
                if outcome in ("incomplete", "caught"):
                    res["refused"] += 1
                else:
                    res["missed"].append({"id": rec["id"], "outcome": outcome, "info": info})
            elif rec["expect"] == "caught":
                res["mutants"] += 1
                if outcome in ("caught",):
                    res["caught"] += 1
                else:
                    res["missed"].append({"id": rec["id"], "outcome": outcome, "info": info})
            else:
                res["twins"] += 1
                if outcome == "silent":
                    res["twins_silent"] += 1
                else:
                    res["false_alarms"].append({"id": rec["id"], "outcome": outcome, "info": info})
            res["details"].append({"id": rec["id"], "expect": rec["expect"], "outcome": outcome, "rule": info})
    return res


def main(argv):
    prop = argv[0] if argv else None
    r = validate(prop)
    for d in r["details"]:
        flag = "ok " if (d["expect"] == "caught" and d["outcome"] == "caught") or (d["expect"] == "silent" and d["outcome"] == "silent") or (d["expect"] == "incomplete" and d["outcome"] in ("incomplete", "caught")) else ("n/a" if d["outcome"] == "not-applicable" else "BAD")
        print(f"{flag} {d['id']:<40} expect={d['expect']:<7} outcome={d['outcome']:<11} {d['rule'][:120]}")
    print(f"mutants caught {r['caught']}/{r['mutants']}; refused as not understood {r['refused']}/{r['refused_expected']}; twins silent {r['twins_silent']}/{r['twins']}; not applicable {r['not_applicable']}")
    return 0 if not r["missed"] and not r["false_alarms"] else 1
