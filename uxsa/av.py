"""Abstract values (facet records) and the grid schema derived from the conventions modules."""

from __future__ import annotations

import re

from .loader import ConstInfo, Sym

FACETS = (
    "kind",  # grid|ds|da|nd|uxda|uxds|tree|dict|str|int|tuple|list|none
    "var",  # schema variable this value is (a view of)
    "unit",  # deg|rad
    "role",  # lon|lat|x|y|z
    "rng",  # norm180|raw360
    "axes",  # tuple of per-axis spaces ('node','edge','face','slot',None,'...')
    "vals",  # value space of an index array: node|edge|face
    "fill",  # may|no
    "origins",  # frozenset of ('param',name)|('glob',key)|('grid_ds',)|('cache',slot)|('fresh',)
    "const",  # folded literal (wrapped in ('c', value))
    "elts",  # tuple of AV for tuple/list displays and tuple returns
    "src",  # frozenset of source-dataset keys this value is derived from
    "dsof",  # for kind ds/da: 'grid' | 'param:<name>' | 'new'
    "conn",  # (dtype, fillstd, base) each 'std'|'src'|'other'|None
    "unitlen",  # True if xyz known unit length
    "count",  # for kind int: which element count ('node','edge','face','slot')
    "derived",  # derived-space tag for filtered axes, e.g. 'face\\am'
    "cls",  # ClassInfo for instances of repo classes
    "func",  # FuncInfo for function values
    "vars",  # frozenset of schema variables that may flow into this value unchanged (union at joins)
)


class AV:
    __slots__ = ("_d", "_h")

    def __init__(self, **kw):
        d = {k: v for k, v in kw.items() if v is not None}
        for k in d:
            if k not in FACETS:
                raise KeyError(k)
        object.__setattr__(self, "_d", d)
        object.__setattr__(self, "_h", None)

    def __getattr__(self, k):
        if k in FACETS:
            return self._d.get(k)
        raise AttributeError(k)

    def __setattr__(self, k, v):
        raise AttributeError("immutable")

    def with_(self, **kw):
        d = dict(self._d)
        for k, v in kw.items():
            if v is None:
                d.pop(k, None)
            else:
                d[k] = v
        return AV(**d)

    def only(self, *keys):
        return AV(**{k: v for k, v in self._d.items() if k in keys})

    def without(self, *keys):
        return AV(**{k: v for k, v in self._d.items() if k not in keys})

    def items(self):
        return self._d.items()

    def __eq__(self, o):
        return isinstance(o, AV) and o._d == self._d

    def __hash__(self):
        if self._h is None:
            try:
                h = hash(tuple(sorted((k, _hashable(v)) for k, v in self._d.items())))
            except TypeError:
                h = hash(tuple(sorted(self._d)))
            object.__setattr__(self, "_h", h)
        return self._h

    def __repr__(self):
        parts = []
        for k, v in self._d.items():
            if k in ("cls", "func"):
                v = getattr(v, "key", v)
            if k == "elts":
                v = f"<{len(v)} elts>"
            parts.append(f"{k}={v}")
        return "AV(" + ", ".join(parts) + ")"

    def brief(self):
        keys = ("kind", "var", "unit", "role", "rng", "axes", "vals", "fill", "derived", "src", "conn")
        return {k: (sorted(v) if isinstance(v, frozenset) else v) for k, v in self._d.items() if k in keys}


def _hashable(v):
    if isinstance(v, (list, tuple)):
        return tuple(_hashable(x) for x in v)
    if isinstance(v, dict):
        return tuple(sorted((k, _hashable(x)) for k, x in v.items()))
    if isinstance(v, set):
        return frozenset(v)
    return v


TOP = AV()
FRESH = frozenset({("fresh",)})


def join(a: AV, b: AV) -> AV:
    """Least upper bound: facets that disagree become unknown; origins/src union; fill may wins."""
    if a is b or a == b:
        return a
    if a is None:
        return b
    if b is None:
        return a
    d = {}
    for k in set(a._d) | set(b._d):
        va, vb = a._d.get(k), b._d.get(k)
        if k == "vars":
            d[k] = (va or frozenset()) | (vb or frozenset())
        elif k in ("origins", "src"):
            if va is None or vb is None:
                # unknown origin joined with known: keep the known ones (may-alias facts) for origins
                d[k] = va if vb is None else vb
                if k == "src":
                    d[k] = (va or frozenset()) | (vb or frozenset())
            else:
                d[k] = va | vb
        elif k == "fill":
            if va == "may" or vb == "may":
                d[k] = "may"
            elif va == vb:
                d[k] = va
        elif k == "unitlen":
            if va is True and vb is True:
                d[k] = True
        elif k == "elts":
            if va is not None and vb is not None and len(va) == len(vb):
                d[k] = tuple(join(x, y) for x, y in zip(va, vb))
        elif va == vb:
            d[k] = va
    return AV(**d)


def join_all(avs):
    out = None
    for a in avs:
        out = a if out is None else join(out, a)
    return out if out is not None else TOP


# ---------------------------------------------------------------------------- schema
KINDS = ("node", "edge", "face")
DIM_OF = {"n_node": "node", "n_edge": "edge", "n_face": "face"}
ELEMENT_STRINGS = {"nodes": "node", "face centers": "face", "edge centers": "edge"}

_CONN_RE = re.compile(r"^(node|edge|face)_(node|edge|face)_connectivity$")
_COORD_RE = re.compile(r"^(node|edge|face)_(lon|lat|x|y|z)$")
_SUB_RE = re.compile(r"^subgrid_(node|edge|face)_indices$")


def schema_av(name: str, dsof="grid") -> AV:
    return _schema_av(name, dsof).with_(vars=frozenset({name}))


def _schema_av(name: str, dsof="grid") -> AV:
    """Abstract value of the grid variable `name` as stored in Grid._ds (standard form)."""
    m = _CONN_RE.match(name)
    if m:
        row, val = m.groups()
        fill = "no" if name == "edge_node_connectivity" else "may"
        return AV(kind="da", var=name, axes=(row, "slot"), vals=val, fill=fill, dsof=dsof, conn=("std", "std", "std"))
    m = _COORD_RE.match(name)
    if m:
        k, r = m.groups()
        if r in ("lon", "lat"):
            return AV(kind="da", var=name, axes=(k,), unit="deg", role=r, dsof=dsof)
        return AV(kind="da", var=name, axes=(k,), role=r, dsof=dsof)
    m = _SUB_RE.match(name)
    if m:
        return AV(kind="da", var=name, axes=(m.group(1),), vals=m.group(1), fill="no", dsof=dsof)
    table = {
        "n_nodes_per_face": AV(kind="da", var=name, axes=("face",), count="slot", dsof=dsof),
        "face_areas": AV(kind="da", var=name, axes=("face",), dsof=dsof),
        "edge_node_distances": AV(kind="da", var=name, axes=("edge",), dsof=dsof),
        "edge_face_distances": AV(kind="da", var=name, axes=("edge",), dsof=dsof),
        "edge_node_z": AV(kind="da", var=name, axes=("edge", "slot"), role="z", dsof=dsof),
        "hole_edge_indices": AV(kind="da", var=name, axes=(None,), vals="edge", fill="no", dsof=dsof),
        "bounds": AV(kind="da", var=name, axes=("face", None, None), unit="rad", dsof=dsof),
        "antimeridian_face_indices": AV(kind="nd", var=name, axes=(None,), vals="face", fill="no"),
    }
    return table.get(name, AV(kind="da", dsof=dsof))


GRID_COUNTS = {
    "n_node": "node",
    "n_edge": "edge",
    "n_face": "face",
    "n_max_face_nodes": "slot",
    "n_max_face_edges": "slot",
}


def is_schema_var(name):
    return bool(_CONN_RE.match(name) or _COORD_RE.match(name) or _SUB_RE.match(name)) or name in (
        "n_nodes_per_face",
        "face_areas",
        "edge_node_distances",
        "edge_face_distances",
        "edge_node_z",
        "hole_edge_indices",
        "bounds",
    )
