"""CLI: python -m uxsa check C07 [--tier quick|thorough] | replay <path> | selfcheck | all"""

from __future__ import annotations

import argparse
import importlib
import json
import os
import sys
import traceback

from . import REPO, VERIF
from .loader import AnalysisIncomplete, load_program
from .report import Run

PROPS = [f"C{i:02d}" for i in range(1, 21)]


def run_check(prop, tier, out=print):
    seed = int(os.environ.get("VERIF_SEED", "0") or 0)
    program = None
    try:
        program = load_program(REPO)
        mod = importlib.import_module(f"uxsa.props.{prop.lower()}")
        run = Run(prop, tier, program, seed)
        try:
            mod.check(run)
        except AnalysisIncomplete as e:
            run.incomplete("engine/anchor", "anchor", "-", str(e))
        if tier == "thorough" and not os.environ.get("UXSA_NO_EVIDENCE"):
            from .mutants import validate

            cv = validate(prop)
            cv.pop("details", None)
            run.extra["checker_validation"] = cv
            from .mutants import validate_patches
            run.extra["checker_validation_patches"] = validate_patches(prop)
        return run.finish(out)
    except AnalysisIncomplete as e:
        out(f"ANALYSIS-INCOMPLETE property={prop} {e}")
        return 2
    except Exception:  # noqa
        out(f"ANALYSIS-ERROR property={prop}")
        traceback.print_exc()
        return 2


def main(argv=None):
    ap = argparse.ArgumentParser(prog="uxsa")
    sub = ap.add_subparsers(dest="cmd", required=True)
    c = sub.add_parser("check")
    c.add_argument("prop")
    c.add_argument("--tier", default=os.environ.get("VERIF_TIER", "quick") or "quick")
    r = sub.add_parser("replay")
    r.add_argument("path")
    sub.add_parser("selfcheck")
    mu = sub.add_parser("mutants")
    mu.add_argument("prop", nargs="?")
    a = sub.add_parser("all")
    a.add_argument("--tier", default="quick")
    args = ap.parse_args(argv)

    if args.cmd == "check":
        prop = args.prop.upper()
        if prop not in PROPS:
            print(f"unknown property {prop}")
            return 2
        tier = args.tier if args.tier in ("quick", "thorough") else "quick"
        return run_check(prop, tier)
    if args.cmd == "replay":
        with open(args.path) as f:
            rec = json.load(f)
        print(json.dumps(rec, indent=1))
        return run_check(rec["property"], "quick")
    if args.cmd == "all":
        worst = 0
        for p in PROPS:
            if not os.path.exists(os.path.join(VERIF, "uxsa", "props", p.lower() + ".py")):
                continue
            worst = max(worst, run_check(p, args.tier))
        return worst
    if args.cmd == "mutants":
        from .mutants import main as mmain

        return mmain([args.prop.upper()] if args.prop else [])
    if args.cmd == "selfcheck":
        from .selfcheck import selfcheck

        return selfcheck()
    return 2


if __name__ == "__main__":
    sys.exit(main())
