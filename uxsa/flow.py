"""Structured path enumeration and boolean abstraction over statement lists (no execution)."""

from __future__ import annotations

import ast
import itertools
from dataclasses import dataclass, field

from .astutil import norm
from .loader import AnalysisIncomplete


@dataclass
class Path:
    conds: list = field(default_factory=list)  # (test_node, truth)
    events: list = field(default_factory=list)  # simple statements in order
    exit: str = "fall"  # fall | return | raise | continue | break
    ret: ast.AST = None

    def copy(self):
        return Path(list(self.conds), list(self.events), self.exit, self.ret)

    def cond_facts(self):
        return {norm(t): v for t, v in self.conds}


class PathLimit(Exception):
    pass


def _split_test(test, truth):
    """Decompose a test with known truth into atomic facts where that is implied.

    (a and b)=True -> a=True,b=True ; (a or b)=False -> a=False,b=False ; not a -> a=!truth."""
    if isinstance(test, ast.UnaryOp) and isinstance(test.op, ast.Not):
        return _split_test(test.operand, not truth)
    if isinstance(test, ast.BoolOp):
        if isinstance(test.op, ast.And) and truth:
            out = []
            for v in test.values:
                out += _split_test(v, True)
            return out
        if isinstance(test.op, ast.Or) and not truth:
            out = []
            for v in test.values:
                out += _split_test(v, False)
            return out
    return [(test, truth)]


def enumerate_paths(body, max_paths=4000, loop_unroll=(0, 1), split_boolops=True):
    """All structured paths through a statement list.

    Loops: body taken 0 or 1 times (configurable).  Infeasible paths that assert the same
    atomic test both true and false are pruned.  BoolOp tests are case-split so that each path
    carries atomic facts."""

    def feasible(p: Path, test, truth):
        facts = p.cond_facts()
        for t, v in _split_test(test, truth):
            k = norm(t)
            if k in facts and facts[k] != v:
                return False
        return True

    def add_cond(p: Path, test, truth):
        q = p.copy()
        for t, v in _split_test(test, truth):
            q.conds.append((t, v))
        return q

    def branch_cases(test):
        """Yield (truth, [(atom, value), ...]) alternatives covering the test exhaustively."""
        if not split_boolops:
            return [(True, [(test, True)]), (False, [(test, False)])]
        atoms = []

        def collect(t):
            if isinstance(t, ast.UnaryOp) and isinstance(t.op, ast.Not):
                collect(t.operand)
            elif isinstance(t, ast.BoolOp):
                for v in t.values:
                    collect(v)
            else:
                if norm(t) not in [norm(a) for a in atoms]:
                    atoms.append(t)

        collect(test)
        if len(atoms) > 6:
            return [(True, [(test, True)]), (False, [(test, False)])]
        out = []
        for vals in itertools.product([True, False], repeat=len(atoms)):
            asg = {norm(a): v for a, v in zip(atoms, vals)}
            out.append((eval_bool(test, asg), list(zip(atoms, vals))))
        return out

    def run(stmts, paths):
        for st in stmts:
            live = [p for p in paths if p.exit == "fall"]
            done = [p for p in paths if p.exit != "fall"]
            if not live:
                return done
            new = []
            if isinstance(st, ast.If):
                for truth, facts in branch_cases(st.test):
                    for p in live:
                        q = p.copy()
                        ok = True
                        known = q.cond_facts()
                        for a, v in facts:
                            k = norm(a)
                            if k in known and known[k] != v:
                                ok = False
                                break
                        if not ok:
                            continue
                        for a, v in facts:
                            if norm(a) not in known:
                                q.conds.append((a, v))
                        new += run(st.body if truth else st.orelse, [q])
            elif isinstance(st, (ast.For, ast.While, ast.AsyncFor)):
                for p in live:
                    if 0 in loop_unroll:
                        new.append(p.copy())
                    if 1 in loop_unroll:
                        q = p.copy()
                        q.events.append(st)  # loop header event
                        res = run(st.body, [q])
                        for r in res:
                            if r.exit in ("continue", "break"):
                                r.exit = "fall"
                        new += res
                if st.orelse:
                    new = run(st.orelse, new)
            elif isinstance(st, ast.Try):
                res = run(st.body, [p.copy() for p in live])
                if st.orelse:
                    res = run(st.orelse, res)
                for h in st.handlers:
                    res += run(h.body, [p.copy() for p in live])
                if st.finalbody:
                    fall = [r for r in res if r.exit == "fall"]
                    other = [r for r in res if r.exit != "fall"]
                    res = run(st.finalbody, fall) + other
                new = res
            elif isinstance(st, (ast.With, ast.AsyncWith)):
                for p in live:
                    p.events.append(st)
                new = run(st.body, live)
            elif isinstance(st, ast.Return):
                for p in live:
                    p.events.append(st)
                    p.exit = "return"
                    p.ret = st.value
                new = live
            elif isinstance(st, ast.Raise):
                for p in live:
                    p.events.append(st)
                    p.exit = "raise"
                new = live
            elif isinstance(st, ast.Continue):
                for p in live:
                    p.exit = "continue"
                new = live
            elif isinstance(st, ast.Break):
                for p in live:
                    p.exit = "break"
                new = live
            elif isinstance(st, (ast.FunctionDef, ast.AsyncFunctionDef, ast.ClassDef)):
                new = live
            else:
                for p in live:
                    p.events.append(st)
                new = live
            paths = done + new
            if len(paths) > max_paths:
                raise PathLimit(f"more than {max_paths} paths")
        return paths

    return run(list(body), [Path()])


# ------------------------------------------------------------------ boolean abstraction
def bool_atoms(test):
    """Maximal non-boolean sub-expressions below not/and/or, in order, de-duplicated by text."""
    out = []

    def collect(t):
        if isinstance(t, ast.UnaryOp) and isinstance(t.op, ast.Not):
            collect(t.operand)
        elif isinstance(t, ast.BoolOp):
            for v in t.values:
                collect(v)
        elif isinstance(t, ast.Constant) and isinstance(t.value, bool):
            pass
        else:
            if norm(t) not in [norm(a) for a in out]:
                out.append(t)

    collect(test)
    return out


def eval_bool(test, asg):
    """Evaluate a boolean structure given truth values for its atoms (by normalised text)."""
    if isinstance(test, ast.Constant) and isinstance(test.value, bool):
        return test.value
    if isinstance(test, ast.UnaryOp) and isinstance(test.op, ast.Not):
        return not eval_bool(test.operand, asg)
    if isinstance(test, ast.BoolOp):
        vals = [eval_bool(v, asg) for v in test.values]
        return all(vals) if isinstance(test.op, ast.And) else any(vals)
    k = norm(test)
    if k not in asg:
        raise AnalysisIncomplete(f"atom without truth value: {k}")
    return asg[k]


def sequential_reads(fnode):
    """straight-line substitution of locals bound to attribute reads:  a = self.x; b = other.x; if not a.equals(b): ...   ->   if not self.x.equals(other.x): ...
    (each use sees the binding that textually precedes it in the same statement list or an enclosing one)"""
    import copy

    def go(stmts, env):
        env = dict(env)
        out = []
        for st in stmts:
            class T(ast.NodeTransformer):
                def visit_Name(self, n):
                    if isinstance(n.ctx, ast.Load) and n.id in env:
                        return copy.deepcopy(env[n.id])
                    return n
            if isinstance(st, ast.Assign) and len(st.targets) == 1 and isinstance(st.targets[0], ast.Name) and isinstance(st.value, (ast.Attribute, ast.Subscript)) \
                    and all(isinstance(x, (ast.Attribute, ast.Name, ast.Subscript, ast.Constant, ast.expr_context)) for x in ast.walk(st.value)):
                env[st.targets[0].id] = T().visit(copy.deepcopy(st.value))
                continue
            if isinstance(st, ast.If):
                st = ast.If(test=T().visit(copy.deepcopy(st.test)), body=go(st.body, env) or [ast.Pass()], orelse=go(st.orelse, env))
            elif isinstance(st, ast.Return) and st.value is not None:
                st = ast.Return(value=T().visit(copy.deepcopy(st.value)))
            elif isinstance(st, ast.Assign):
                st = ast.Assign(targets=st.targets, value=T().visit(copy.deepcopy(st.value)))
                for t in st.targets:
                    if isinstance(t, ast.Name):
                        env.pop(t.id, None)
            out.append(st)
        return out
    new = ast.FunctionDef(name=fnode.name, args=fnode.args, body=go(list(fnode.body), {}), decorator_list=[], lineno=fnode.lineno, col_offset=0)
    return ast.fix_missing_locations(new)



def inline_tail_calls(fnode, resolve, depth=2):
    """Copy of a predicate-like function in which every  `return h(<names>)`  whose callee `resolve(call)` yields (FunctionDef, {param: argument name}) is replaced
    by the callee's body with its parameters renamed (a tail call: the callee's returns are the caller's returns).  The callee's locals must not clash with the
    caller's names.  Used before decision_table so that a predicate split over helper methods is read as one."""
    import copy as _copy
    fnode = _copy.deepcopy(fnode)
    caller_names = {n.id for n in ast.walk(fnode) if isinstance(n, ast.Name)} | {a.arg for a in fnode.args.args}

    def expand(stmts, d):
        out = []
        for st in stmts:
            if isinstance(st, ast.Return) and isinstance(st.value, ast.Call) and d < depth:
                r = resolve(st.value)
                if r is not None:
                    h, binding = r
                    hl = {n.id for n in ast.walk(h) if isinstance(n, ast.Name) and isinstance(n.ctx, ast.Store)}
                    if not (hl & caller_names) and not (hl & set(binding)):
                        class T(ast.NodeTransformer):
                            def visit_Name(self, n):
                                if n.id in binding:
                                    return ast.copy_location(ast.Name(id=binding[n.id], ctx=n.ctx), n)
                                return n
                        body = [T().visit(_copy.deepcopy(x)) for x in h.body]
                        if body and isinstance(body[0], ast.Expr) and isinstance(body[0].value, ast.Constant):
                            body = body[1:]
                        out += expand(body, d + 1)
                        continue
            if isinstance(st, ast.If):
                st.body = expand(st.body, d)
                st.orelse = expand(st.orelse, d)
            out.append(st)
        return out
    fnode.body = expand(fnode.body, 0)
    return ast.fix_missing_locations(fnode)


def decision_table(fnode):
    """For a predicate-like function (assignments of boolean expressions to locals, if, return) return (atoms, table) where table maps each truth
    assignment (tuple of bools in atom order) to ("const", value).  The function body is INTERPRETED for every assignment: locals hold the boolean they were
    last assigned on the executed branch (result-variable style `ok = False; if a: ok = True; return ok` evaluates like early returns).
    Raises AnalysisIncomplete on statements outside that shape."""
    atoms = []
    # locals bound exactly once to something that is not a boolean structure (conn = self.x.values, ok = a.equals(b)) are plain abbreviations: substituted
    import copy as _copy
    counts, values = {}, {}
    for n in ast.walk(fnode):
        if isinstance(n, ast.Name) and isinstance(n.ctx, ast.Store):
            counts[n.id] = counts.get(n.id, 0) + 1
    for st in ast.walk(fnode):
        if isinstance(st, ast.Assign) and len(st.targets) == 1 and isinstance(st.targets[0], ast.Name):
            values[st.targets[0].id] = st.value
    abbrev = {k: v for k, v in values.items() if counts.get(k) == 1 and not isinstance(v, (ast.BoolOp, ast.Compare, ast.Constant))
              and not (isinstance(v, ast.UnaryOp) and isinstance(v.op, ast.Not))}

    class _Inline(ast.NodeTransformer):
        def visit_Name(self, node):
            if isinstance(node.ctx, ast.Load) and node.id in abbrev:
                return self.visit(_copy.deepcopy(abbrev[node.id]))
            return node

    def _strip(stmts):
        out = []
        for st in stmts:
            if isinstance(st, ast.Assign) and len(st.targets) == 1 and isinstance(st.targets[0], ast.Name) and st.targets[0].id in abbrev:
                continue
            if isinstance(st, ast.If):
                st = ast.If(test=_Inline().visit(_copy.deepcopy(st.test)), body=_strip(st.body) or [ast.Pass()], orelse=_strip(st.orelse))
            elif isinstance(st, ast.Return) and st.value is not None:
                st = ast.Return(value=_Inline().visit(_copy.deepcopy(st.value)))
            elif isinstance(st, ast.Assign):
                st = ast.Assign(targets=st.targets, value=_Inline().visit(_copy.deepcopy(st.value)))
            out.append(st)
        return out
    if abbrev:
        fnode = ast.fix_missing_locations(ast.FunctionDef(name=fnode.name, args=fnode.args, body=_strip(list(fnode.body)), decorator_list=[], lineno=fnode.lineno, col_offset=0))
    local_names = {k for k in counts if k not in abbrev}

    def add_atoms(expr):
        for a in bool_atoms(expr):
            if isinstance(a, ast.Name) and a.id in local_names:
                continue
            if any(isinstance(x, ast.Name) and x.id in local_names for x in ast.walk(a)):
                raise AnalysisIncomplete(f"comparison {norm(a)[:60]} reads a local that is assigned more than once (its value depends on the path)")
            if isinstance(a, ast.Constant) or (isinstance(a, ast.Name) and a.id == "NotImplemented"):
                continue
            if norm(a) not in [norm(x) for x in atoms]:
                atoms.append(a)

    def collect_atoms(stmts):
        for st in stmts:
            if isinstance(st, ast.If):
                add_atoms(st.test)
                collect_atoms(st.body)
                collect_atoms(st.orelse)
            elif isinstance(st, ast.Return):
                if st.value is not None and isinstance(st.value, (ast.BoolOp, ast.UnaryOp, ast.Compare, ast.Call)):
                    add_atoms(st.value)
            elif isinstance(st, ast.Assign) and len(st.targets) == 1 and isinstance(st.targets[0], ast.Name):
                if isinstance(st.value, (ast.BoolOp, ast.UnaryOp, ast.Compare, ast.Call)):
                    add_atoms(st.value)
                elif not isinstance(st.value, (ast.Constant, ast.Name)):
                    raise AnalysisIncomplete(f"assignment of a non-boolean expression: {norm(st)[:60]}")
            elif isinstance(st, ast.Expr) and isinstance(st.value, ast.Constant):
                continue
            elif isinstance(st, ast.Pass):
                continue
            else:
                raise AnalysisIncomplete(f"statement outside the assign/if/return shape: {norm(st)[:60]}")

    collect_atoms(fnode.body)
    if len(atoms) > 12:
        raise AnalysisIncomplete("too many atoms for a truth table")

    def ev(expr, asg, env):
        if isinstance(expr, ast.Constant):
            return expr.value
        if isinstance(expr, ast.Name) and expr.id == "NotImplemented":
            return NotImplemented
        if isinstance(expr, ast.Name) and expr.id in local_names:
            if expr.id not in env:
                raise AnalysisIncomplete(f"local {expr.id} read before assignment on some path")
            return env[expr.id]
        if isinstance(expr, ast.UnaryOp) and isinstance(expr.op, ast.Not):
            return not ev(expr.operand, asg, env)
        if isinstance(expr, ast.BoolOp):
            # Python semantics: and/or return an operand; all operands here are booleans, so the result is their conjunction / disjunction
            vals = [ev(v, asg, env) for v in expr.values]
            return all(vals) if isinstance(expr.op, ast.And) else any(vals)
        k = norm(expr)
        if k not in asg:
            raise AnalysisIncomplete(f"atom without truth value: {k}")
        return asg[k]

    def run(stmts, asg, env):
        for st in stmts:
            if isinstance(st, ast.If):
                r = run(st.body if ev(st.test, asg, env) else st.orelse, asg, env)
                if r is not None:
                    return r
            elif isinstance(st, ast.Assign):
                env[st.targets[0].id] = ev(st.value, asg, env)
            elif isinstance(st, ast.Return):
                if st.value is None:
                    return ("const", None)
                return ("const", ev(st.value, asg, env))
        return None

    table = {}
    for vals in itertools.product([True, False], repeat=len(atoms)):
        asg = {norm(a): v for a, v in zip(atoms, vals)}
        r = run(fnode.body, asg, {})
        table[vals] = r if r is not None else ("const", None)
    return atoms, table
