"""C02  Derived edges are exactly the boundary segments of the faces.

Decided: n_nodes_per_face and close_face_nodes take argmax of the first fill value over an array proven to contain a fill value in every row (one extra column);
the closing node is written at stride (n_max_face_nodes + 1); consecutive corners are paired by two slices of the closed array offset by exactly one;
pairs are put in canonical order before np.unique(axis=0); pairs containing the fill value are removed and exactly their inverse entries become the fill value, the remaining
inverse entries are renumbered by the number of removed pairs before them; shapes of edge_nodes / inverse_indices / face_edge_connectivity agree symbolically; outputs are INT_DTYPE;
lazy keys agree and no populate function overwrites an existing variable (recorded finding: supplied edge table renumbered).
Index- and count-valued variables are stored without a narrowing integer cast."""

import ast

from ..astutil import iter_stmts, norm, str_const, where
from ..loader import dotted
from ..rules import lazy
from ..rules import shape as S

CONN = "uxarray/grid/connectivity.py"
F_M1 = S.padd(S.P("n_max_face_nodes"), 1)


def _pname(f, i):
    return f.params()[i]


def check_closing(run, f, rule="IDX/row-has-fill"):
    """closed = FILL-filled (n_face, n_max+1); closed[:, :-1] = face_nodes; argmax(closed == FILL, axis=1).
    Returns the name of the closed array or None."""
    fn = f.node
    closed = None
    for st in iter_stmts(fn.body):
        if isinstance(st, ast.Assign) and isinstance(st.targets[0], ast.Name):
            info = S.alloc_info(st.value)
            if info and len(info[0]) == 2:
                closed = (st.targets[0].id, st, info)
                break
    c = f"{f.key}:closing"
    if closed is None:
        run.incomplete(rule, c, where(f), "allocation of the closed (padded) array not found")
        return None
    name, st, (sh, fill, dt) = closed
    params = f.params()
    subst_ok = sh[0] == S.P(params[1]) and sh[1] == S.padd(S.P(params[2]), 1)
    probs = []
    if not subst_ok:
        probs.append(f"shape is ({norm(st.value)[:60]}) — rows must have n_max_face_nodes + 1 columns so that every row, also a full one, contains a fill value")
    if not S.is_fill(fill):
        probs.append("the array is not initialised with INT_FILL_VALUE")
    if not S.is_intdtype(dt):
        probs.append("the array is not allocated with INT_DTYPE")
    # store of the face nodes into all but the last column
    stores = S.stores_into(fn, name)
    ok_store = False
    for s2 in stores:
        ax = S.subscript_axes(s2.targets[0])
        src = S.strip_copy(s2.value)
        if len(ax) == 2 and ax[0] == ("all",) and ax[1] == ("range", 0, -1) and isinstance(src, ast.Name) and src.id == params[0]:
            ok_store = True
    if not ok_store:
        probs.append(f"{params[0]} is not stored into columns [0, n_max_face_nodes) of {name} (expected {name}[:, :-1] = {params[0]})")
    # argmax of the first fill value along the corner axis
    am = None
    from ..astutil import Resolver as _Rz
    _rz = _Rz(fn)
    am_seen = False
    for n in ast.walk(fn):
        if isinstance(n, ast.Call) and (dotted(n.func) or [""])[-1] == "argmax" and n.args:
            am_seen = True
            t = S.fill_test(_rz.resolve(n.args[0]))      # a local standing for the mask is looked through
            axis = next((k.value for k in n.keywords if k.arg == "axis"), n.args[1] if len(n.args) > 1 else None)
            if t and t[0] == "eq" and isinstance(t[1], ast.Name) and t[1].id == name and isinstance(axis, ast.Constant) and axis.value == 1:
                am = n
    if am is None and am_seen and not probs:
        run.incomplete(rule, c, where(f, st), f"an argmax is taken, but its operand is not recognised as {name} == INT_FILL_VALUE along axis 1")
        return name
    if am is None:
        probs.append(f"np.argmax({name} == INT_FILL_VALUE, axis=1) not found")
    if probs:
        run.violation(rule, c, where(f, st), "; ".join(probs))
    else:
        run.holds(rule, c, where(f, st), f"{name}: (n_face, n_max_face_nodes + 1) of INT_FILL_VALUE, face nodes in columns [0, n_max), argmax of the first fill value along axis 1")
    return name


def check(run):
    P = run.program
    from ..rules import dtype as _dtw
    run.floor('F-DTYPE/index-width', _dtw.check_no_narrow_index_dtype(run, P, ('uxarray/grid/connectivity.py', 'uxarray/grid/grid.py')), 5)
    run.explanation = (
        "Symbolic shape/slice algebra over the edge builders of grid/connectivity.py (sizes as polynomials in n_face, n_max_face_nodes): "
        "the extra closing column, the stride of the flat index used to write the closing node, the offset-by-one pairing of consecutive corners, canonical pair order before "
        "np.unique(axis=0), removal of pairs containing the fill value together with exactly their inverse entries, the renumbering of the remaining inverse entries, the reshape to "
        "(n_face, n_max_face_nodes), and the dtype of every output are obligations; each is necessary for 'each unordered pair of consecutive corners exactly once' / 'face_edge[f, j] joins corners j and j+1'. "
        "That sort + unique + renumbering yields exactly the boundary segments for every mesh (values) and the Euler count are NOT decided."
    )
    run.rule_text = "IDX-4 row-has-fill, IDX-5 shape algebra, F-CONN dtype, F-LAZY"
    run.assumptions = ["np.unique(a, return_inverse=True, axis=0) returns sorted unique rows and, for every input row, the position of its unique row"]
    f1 = P.func(f"{CONN}:_build_n_nodes_per_face")
    check_closing(run, f1)
    rets = [r for r in ast.walk(f1.node) if isinstance(r, ast.Return)]
    f2 = P.func(f"{CONN}:close_face_nodes")
    closed = check_closing(run, f2)
    _closing_node(run, f2, closed)
    _pairing(run, P)
    _face_edges(run, P)
    keys = ["edge_node_connectivity", "face_edge_connectivity", "n_nodes_per_face"]
    n = lazy.check_getters(run, P, keys)
    run.floor("F-LAZY/getters", n, 3)
    lazy.check_no_overwrite(run, P, keys={"edge_node_connectivity", "face_edge_connectivity", "n_nodes_per_face"}, files=(CONN,))
    _counts(run, P)
    # the per-grid side tables (inverse_indices, fill_value_mask) must not be written into the module-level attribute template:
    # a later grid with a supplied edge table would inherit them and build face_edge_connectivity from a foreign table
    from ..rules.common import dataflow, emit
    R = dataflow(P, run.tier)
    emit(run, R, {"GLOBAL/write"}, files=[CONN])


def _closing_node(run, f, closed):
    """first node written at flat index  first_fill + (n_max+1) * row"""
    if closed is None:
        return
    params = f.params()
    c = f"{f.key}:closing-node"
    put = None
    for n in ast.walk(f.node):
        if isinstance(n, ast.Call) and (dotted(n.func) or [""])[-1] == "put" and len(n.args) >= 3:
            put = n
    if put is None:
        # second idiom: a two-dimensional fancy store   closed[np.arange(n_face), <argmax of the first fill value>] = face_nodes[:, 0]
        from ..astutil import LocalDefs
        defs = LocalDefs(f.node)
        fancy = [st for st in S.stores_into(f.node, closed) if isinstance(st.targets[0].slice, ast.Tuple) and len(st.targets[0].slice.elts) == 2
                 and not all(isinstance(e, ast.Slice) for e in st.targets[0].slice.elts)]
        if not fancy:
            run.incomplete("IDX/closing-node", c, where(f), "neither np.put(closed.ravel(), ...) nor a store closed[rows, columns] = first nodes found")
            return
        st = fancy[0]
        rows, cols = st.targets[0].slice.elts
        probs, unknown = [], []
        rn, _ = defs.closure(rows)
        row_ok = any(isinstance(n, ast.Call) and (dotted(n.func) or [""])[-1] == "arange" and n.args and S.poly(n.args[-1] if len(n.args) < 3 else n.args[1]) == S.P(params[1]) for e in rn for n in ast.walk(e))
        if not row_ok:
            unknown.append(f"row index {norm(rows)[:40]} is not np.arange(n_face)")
        cn, _ = defs.closure(cols)
        col_ok = False
        for e in cn:
            for n in ast.walk(e):
                if isinstance(n, ast.Call) and (dotted(n.func) or [""])[-1] == "argmax" and n.args:
                    t = S.fill_test(n.args[0])
                    axis = next((k.value for k in n.keywords if k.arg == "axis"), n.args[1] if len(n.args) > 1 else None)
                    if t and t[0] == "eq" and isinstance(t[1], ast.Name) and t[1].id == closed and isinstance(axis, ast.Constant) and axis.value == 1:
                        col_ok = True
        if not col_ok:
            (probs if isinstance(cols, ast.Constant) or (isinstance(cols, ast.UnaryOp)) else unknown).append(f"column index {norm(cols)[:50]} is not the position of the row's first fill value (argmax({closed} == INT_FILL_VALUE, axis=1))")
        val_nodes, _ = defs.closure(st.value)
        first_col = any(isinstance(n, ast.Subscript) and isinstance(S.strip_copy(n.value), ast.Name) and S.strip_copy(n.value).id == params[0]
                        and S.subscript_axes(n) == [("all",), ("idx", 0)] for e in val_nodes for n in ast.walk(e))
        if not first_col:
            probs.append("the value written after the last corner is not the face's first node (face_node_connectivity[:, 0])")
        if probs:
            run.violation("IDX/closing-node", c, where(f, st), "; ".join(probs))
        elif unknown:
            run.incomplete("IDX/closing-node", c, where(f, st), "; ".join(unknown))
        else:
            run.holds("IDX/closing-node", c, where(f, st), "first node written at [row, position of the row's first fill value]")
        rets = [r for r in ast.walk(f.node) if isinstance(r, ast.Return)]
        if not (rets and all(isinstance(r.value, ast.Name) and r.value.id == closed for r in rets)):
            run.violation("IDX/closing-node", f"{f.key}:returns-closed", where(f), "close_face_nodes does not return the closed array")
        return
    from ..astutil import LocalDefs
    defs = LocalDefs(f.node)
    tgt = S.strip_copy(put.args[0])
    probs = []
    if not (isinstance(tgt, ast.Name) and tgt.id == closed):
        probs.append(f"np.put writes into {norm(put.args[0])}, not into the closed array")
    # flat index = argmax + width * arange(n_face)
    idx_nodes, _ = defs.closure(put.args[1])
    stride = None
    for e in idx_nodes:
        for n in ast.walk(e):
            if isinstance(n, ast.BinOp) and isinstance(n.op, ast.Mult):
                for a, b in ((n.left, n.right), (n.right, n.left)):
                    if isinstance(b, ast.Call) and (dotted(b.func) or [""])[-1] == "arange":
                        stride = S.poly(a)
    if stride != S.padd(S.P(params[2]), 1):
        probs.append(f"row stride of the flat index is {stride}; the closed array has n_max_face_nodes + 1 columns")
    val_nodes, _ = defs.closure(put.args[2])
    first_col = any(isinstance(n, ast.Subscript) and isinstance(S.strip_copy(n.value), ast.Name) and S.strip_copy(n.value).id == params[0]
                    and S.subscript_axes(n) == [("all",), ("idx", 0)] for e in val_nodes for n in ast.walk(e))
    if not first_col:
        probs.append("the value written after the last corner is not the face's first node (face_node_connectivity[:, 0])")
    if probs:
        run.violation("IDX/closing-node", c, where(f, put), "; ".join(probs))
    else:
        run.holds("IDX/closing-node", c, where(f, put), "first node written at argmax-of-first-fill + (n_max_face_nodes + 1) * row")
    rets = [r for r in ast.walk(f.node) if isinstance(r, ast.Return)]
    if not (rets and all(isinstance(r.value, ast.Name) and r.value.id == closed for r in rets)):
        run.violation("IDX/closing-node", f"{f.key}:returns-closed", where(f), "close_face_nodes does not return the closed array")


def _pairing(run, P):
    f = P.func(f"{CONN}:_build_edge_node_connectivity")
    params = f.params()
    fn = f.node
    # closed array from close_face_nodes(face_nodes, n_face, n_max_face_nodes)
    padded = None
    for st in iter_stmts(fn.body):
        if isinstance(st, ast.Assign) and isinstance(st.targets[0], ast.Name) and isinstance(st.value, ast.Call) and (dotted(st.value.func) or [""])[-1] == "close_face_nodes":
            padded = (st.targets[0].id, st)
    c = f"{f.key}:closed-input"
    if padded is None:
        run.incomplete("IDX/pairing", c, where(f), "call of close_face_nodes not found")
        return
    if [norm(a) for a in padded[1].value.args] == params[:3]:
        run.holds("IDX/pairing", c, where(f, padded[1]), "pairs are taken from close_face_nodes(face_nodes, n_face, n_max_face_nodes)")
    else:
        run.violation("IDX/pairing", c, where(f, padded[1]), f"close_face_nodes called with {[norm(a) for a in padded[1].value.args]}")
    # edge_nodes allocation (n_face * n_max, 2) INT_DTYPE
    en = None
    for st in iter_stmts(fn.body):
        if isinstance(st, ast.Assign) and isinstance(st.targets[0], ast.Name):
            info = S.alloc_info(st.value)
            if info and len(info[0]) == 2 and info[0][1] == {(): 2}:
                en = (st.targets[0].id, st, info)
                break
    c = f"{f.key}:pair-table"
    if en is None:
        run.incomplete("IDX/pairing", c, where(f), "allocation of the (n_face*n_max_face_nodes, 2) pair table not found")
        return
    name, st, (sh, fill, dt) = en
    probs = []
    if sh[0] != S.P(params[1], params[2]):
        probs.append(f"pair table has {norm(st.value)[:60]} rows; one row per (face, corner slot) = n_face * n_max_face_nodes is required")
    if not S.is_intdtype(dt):
        probs.append("pair table is not INT_DTYPE")
    # the two columns: closed[:, :-1] and closed[:, 1:]
    cols = {}
    for s2 in S.stores_into(fn, name):
        ax = S.subscript_axes(s2.targets[0])
        if len(ax) == 2 and ax[0] == ("all",) and ax[1][0] == "idx":
            src = S.strip_copy(s2.value)
            roll = 0
            if isinstance(src, ast.Subscript) and isinstance(src.value, ast.Call) and (dotted(src.value.func) or [""])[-1] == "roll":
                # np.roll(closed, -1, axis=1)[:, :-1]
                rc = src.value
                sh_ = rc.args[1] if len(rc.args) > 1 else None
                if isinstance(S.strip_copy(rc.args[0]), ast.Name) and S.strip_copy(rc.args[0]).id == padded[0] and S.slice_desc(sh_) == ("idx", -1):
                    roll = 1
                    a2 = S.subscript_axes(src)
                    if len(a2) == 2 and a2[1] == ("range", 0, -1):
                        cols[ax[1][1]] = (1, None)
                continue
            if isinstance(src, ast.Subscript) and isinstance(src.value, ast.Name) and src.value.id == padded[0]:
                a2 = S.subscript_axes(src)
                if len(a2) == 2 and a2[0] == ("all",) and a2[1][0] == "range":
                    cols[ax[1][1]] = (a2[1][1], a2[1][2])
    if set(cols) != {0, 1}:
        probs.append(f"the two columns of the pair table are not both filled from slices of the closed array (found {cols})")
    else:
        (lo0, hi0), (lo1, hi1) = cols[0], cols[1]
        # lengths: width = n_max+1; slice [lo:hi] ; require both of length n_max and offset exactly one
        def length(lo, hi):
            hi_eff = hi if hi is not None else 0
            return (hi_eff if hi_eff <= 0 else None, lo)
        ok = (lo0, hi0) == (0, -1) and (lo1, hi1) == (1, None)
        if not ok:
            probs.append(f"corner j is paired through slices [{lo0}:{hi0}] and [{lo1}:{hi1}] of the closed array; consecutive corners are [0:-1] and [1:] (offset exactly one, both n_max_face_nodes long)")
    if probs:
        run.violation("IDX/pairing", c, where(f, st), "; ".join(probs))
    else:
        run.holds("IDX/pairing", c, where(f, st), "pair (j, j+1) for every corner slot: closed[:, :-1] with closed[:, 1:], n_face*n_max_face_nodes rows, INT_DTYPE")
    # canonical order before unique
    order = []
    for s2 in iter_stmts(fn.body):
        for n in ast.walk(s2):
            if isinstance(n, ast.Call):
                nm = (dotted(n.func) or [""])[-1]
                if nm == "sort" and isinstance(n.func, ast.Attribute) and norm(n.func.value) == name:
                    ax = next((k.value for k in n.keywords if k.arg == "axis"), n.args[0] if n.args else None)
                    order.append(("sort", ax.value if isinstance(ax, ast.Constant) else None, n))
                if nm == "sort" and not isinstance(n.func.value if isinstance(n.func, ast.Attribute) else None, ast.Name) and n.args and norm(n.args[0]) == name:
                    ax = next((k.value for k in n.keywords if k.arg == "axis"), None)
                    order.append(("sort", ax.value if isinstance(ax, ast.Constant) else None, n))
                if nm == "unique" and n.args and norm(n.args[0]) == name:
                    kw = {k.arg: k.value for k in n.keywords}
                    order.append(("unique", (isinstance(kw.get("axis"), ast.Constant) and kw["axis"].value == 0, isinstance(kw.get("return_inverse"), ast.Constant) and kw["return_inverse"].value is True), n))
    c = f"{f.key}:canonical-unique"
    kinds = [o[0] for o in order]
    if "unique" not in kinds:
        run.incomplete("IDX/pairing", c, where(f), "np.unique over the pair table not found")
    else:
        ui = kinds.index("unique")
        sorted_before = any(o[0] == "sort" and o[1] in (1, -1) for o in order[:ui])
        axis0, inv = order[ui][1]
        probs = []
        if not sorted_before:
            probs.append("pairs are not put in canonical (sorted) order along axis 1 before np.unique: (a, b) and (b, a) stay two different edges")
        if not axis0:
            probs.append("np.unique is not taken over rows (axis=0)")
        if not inv:
            probs.append("np.unique does not return the inverse indices")
        if probs:
            run.violation("IDX/pairing", c, where(f, order[ui][2]), "; ".join(probs))
        else:
            run.holds("IDX/pairing", c, where(f, order[ui][2]), "sort(axis=1) then np.unique(axis=0, return_inverse=True)")
    _fill_rows(run, f)


def _fill_rows(run, f):
    """pairs containing the fill value are removed from the unique table; exactly their inverse entries become FILL; the rest is renumbered"""
    fn = f.node
    from ..astutil import LocalDefs
    defs = LocalDefs(fn)
    # unpack of np.unique
    uniq = inv = None
    for st in S.tuple_assigns(fn):
        if isinstance(st.value, ast.Call) and (dotted(st.value.func) or [""])[-1] == "unique" and len(st.targets[0].elts) == 2:
            uniq, inv = st.targets[0].elts[0].id, st.targets[0].elts[1].id
    c = f"{f.key}:fill-pairs"
    if uniq is None:
        run.incomplete("IDX/fill-pairs", c, where(f), "np.unique unpack not found")
        return
    # mask = (uniq[:,0] == FILL) | (uniq[:,1] == FILL)
    mask = None
    for st in iter_stmts(fn.body):
        if isinstance(st, ast.Assign) and isinstance(st.targets[0], ast.Name) and isinstance(st.value, ast.Call) and (dotted(st.value.func) or [""])[-1] == "logical_or" and len(st.value.args) == 2:
            tests = [S.fill_test(a) for a in st.value.args]
            cols = set()
            for t in tests:
                if t and t[0] == "eq" and isinstance(t[1], ast.Subscript) and norm(t[1].value) == uniq:
                    ax = S.subscript_axes(t[1])
                    if len(ax) == 2 and ax[0] == ("all",) and ax[1][0] == "idx":
                        cols.add(ax[1][1])
            if cols == {0, 1}:
                mask = st.targets[0].id
        if isinstance(st, ast.Assign) and isinstance(st.targets[0], ast.Name) and isinstance(st.value, ast.Call) and isinstance(st.value.func, ast.Attribute) and st.value.func.attr == "any":
            t = S.fill_test(st.value.func.value)
            if t and t[0] == "eq" and norm(t[1]) == uniq:
                mask = st.targets[0].id
    probs = []      # definite counter-facts
    unknown = []    # constructs that exist but are written in an idiom this rule does not read
    if mask is None:
        any_fill_cmp = any(isinstance(n, ast.Compare) and any(S.is_fill(x) for x in [n.left] + n.comparators) and uniq in {m.id for m in ast.walk(n) if isinstance(m, ast.Name)} for n in ast.walk(fn))
        (unknown if any_fill_cmp else probs).append("no mask marking the unique pairs that contain INT_FILL_VALUE in either column")
    else:
        def negates_mask(sel_nodes):
            return any(isinstance(n, ast.Call) and (dotted(n.func) or [""])[-1] == "logical_not" and norm(n.args[0]) == mask for e in sel_nodes for n in ast.walk(e)) or \
                any(isinstance(n, ast.UnaryOp) and isinstance(n.op, ast.Invert) and norm(n.operand) == mask for e in sel_nodes for n in ast.walk(e))
        # uniq = uniq[~mask]
        keep = False
        restr = [st for st in S.assigns(fn, uniq) if isinstance(st.value, ast.Subscript) and norm(st.value.value) == uniq]
        for st in restr:
            sel_nodes, names = defs.closure(st.value.slice)
            if negates_mask(sel_nodes):
                keep = True
        if not keep:
            (unknown if restr else probs).append("the unique table is not restricted to the pairs without a fill value: padding slots appear as edges")
        # positions of the removed pairs:  np.where(mask)[0] | np.nonzero(mask)[0] | mask.nonzero()[0] | np.flatnonzero(mask)
        idx_removed = None
        for st in iter_stmts(fn.body):
            if not (isinstance(st, ast.Assign) and isinstance(st.targets[0], ast.Name)):
                continue
            v = st.value
            if isinstance(v, ast.Subscript) and isinstance(v.slice, ast.Constant) and v.slice.value == 0 and isinstance(v.value, ast.Call):
                cl = v.value
                nm = (dotted(cl.func) or [""])[-1]
                if nm in ("where", "nonzero") and len(cl.args) == 1 and norm(cl.args[0]) == mask:
                    idx_removed = st.targets[0].id
                if nm == "nonzero" and not cl.args and isinstance(cl.func, ast.Attribute) and norm(cl.func.value) == mask:
                    idx_removed = st.targets[0].id
            if isinstance(v, ast.Call) and (dotted(v.func) or [""])[-1] == "flatnonzero" and len(v.args) == 1 and norm(v.args[0]) == mask:
                idx_removed = st.targets[0].id
        def renumbering(fn_, inv_, idx_removed_, mask_, defs_):
            """(probs, unknown) for the two in-place steps on the inverse indices, in function fn_ with the given local names"""
            probs, unknown = [], []
            # inverse[isin(inverse, removed)] = FILL   |   inverse[mask[inverse]] = FILL
            set_fill = False
            fill_stores = [st for st in S.stores_into(fn_, inv_) if S.is_fill(st.value)]
            for st in fill_stores:
                sel_nodes, names = defs_.closure(st.targets[0].slice)
                if idx_removed_ and any(isinstance(n, ast.Call) and (dotted(n.func) or [""])[-1] == "isin" and [norm(a) for a in n.args[:2]] == [inv_, idx_removed_] for e in sel_nodes for n in ast.walk(e)):
                    set_fill = True
                if any(isinstance(n, ast.Subscript) and mask_ is not None and norm(n.value) == mask_ and norm(n.slice) == inv_ for e in sel_nodes for n in ast.walk(e)):
                    set_fill = True
            if not set_fill:
                (unknown if fill_stores else probs).append("the inverse entries that point at removed (fill) pairs are not replaced by INT_FILL_VALUE")
            # renumbering: inverse[sel] -= searchsorted(removed, inverse, side='right')[sel]  for the non-fill entries
            ren = False
            updates = [st for st in iter_stmts(fn_.body) if isinstance(st, ast.AugAssign) and ((isinstance(st.target, ast.Subscript) and norm(st.target.value) == inv_) or norm(st.target) == inv_)]
            updates += [st for st in S.assigns(fn_, inv_) if isinstance(st.value, (ast.BinOp, ast.Call)) and inv_ in {m.id for m in ast.walk(st.value) if isinstance(m, ast.Name)}
                        and not (isinstance(st.value, ast.Call) and (dotted(st.value.func) or [""])[-1] == "unique")]
            for st in updates:
                if not (isinstance(st, ast.AugAssign) and isinstance(st.op, ast.Sub) and isinstance(st.target, ast.Subscript)):
                    continue
                nodes, _ = defs_.closure(st.value)
                ss = [n for e in nodes for n in ast.walk(e) if isinstance(n, ast.Call) and (dotted(n.func) or [""])[-1] == "searchsorted"]
                for s_ in ss:
                    side = next((k.value for k in s_.keywords if k.arg == "side"), None)
                    if idx_removed_ and [norm(a) for a in s_.args[:2]] == [idx_removed_, inv_]:
                        if str_const(side) == "right":
                            ren = True
                        else:
                            side_txt = norm(side) if side is not None else "left (the default)"
                            probs.append(f"renumbering uses searchsorted(..., side={side_txt}): an entry equal to a removed position is not counted")
            if not ren and not any("renumbering uses" in p_ for p_ in probs):
                (unknown if updates else probs).append("remaining inverse entries are not shifted down by the number of removed pairs that precede them (searchsorted(removed, inverse, side='right'))")
            return probs, unknown
        p1, u1 = renumbering(fn, inv, idx_removed, mask, defs)
        if p1 and not u1:
            # nothing of the kind in the builder itself: the steps may have been moved into a procedure of the module that receives the inverse indices
            from ..loader import FuncInfo
            from ..astutil import LocalDefs as _LD
            for st in iter_stmts(fn.body):
                if isinstance(st, ast.Expr) and isinstance(st.value, ast.Call) and any(isinstance(a_, ast.Name) and a_.id == inv for a_ in st.value.args):
                    h = run.program.resolve_expr(f.module, st.value.func, f)
                    if isinstance(h, FuncInfo) and h.cls is None:
                        hp = h.params()
                        amap = {a_.id: hp[i] for i, a_ in enumerate(st.value.args) if isinstance(a_, ast.Name) and i < len(hp)}
                        if inv in amap:
                            p1, u1 = renumbering(h.node, amap[inv], amap.get(idx_removed), None, _LD(h.node))
                            break
        probs += p1
        unknown += u1
    if probs:
        run.violation("IDX/fill-pairs", c, where(f), "; ".join(probs))
    elif unknown:
        run.incomplete("IDX/fill-pairs", c, where(f), "idiom not recognised: " + "; ".join(unknown))
    else:
        run.holds("IDX/fill-pairs", c, where(f), "pairs with a fill value removed; their inverse entries -> INT_FILL_VALUE; the rest renumbered by the count of removed pairs before them")
    rets = [r for r in ast.walk(fn) if isinstance(r, ast.Return)]
    c = f"{f.key}:returns"
    if rets and all(isinstance(r.value, ast.Tuple) and [norm(e) for e in r.value.elts[:2]] == [uniq, inv] for r in rets):
        run.holds("IDX/fill-pairs", c, where(f, rets[0]), "returns (unique pairs, inverse indices, ...)")
    else:
        run.violation("IDX/fill-pairs", c, where(f), "the builder does not return (unique pairs, inverse indices, ...) in that order")


def _face_edges(run, P):
    f = P.func(f"{CONN}:_build_face_edge_connectivity")
    params = f.params()
    c = f"{f.key}:reshape"
    rs = [n for n in ast.walk(f.node) if isinstance(n, ast.Call) and isinstance(n.func, ast.Attribute) and n.func.attr == "reshape"]
    if not rs:
        run.incomplete("IDX/face-edge-shape", c, where(f), "reshape not found")
    else:
        args = rs[0].args[0].elts if rs[0].args and isinstance(rs[0].args[0], (ast.Tuple, ast.List)) else rs[0].args
        sh = [S.poly(a) for a in args]
        if norm(rs[0].func.value) == params[0] and sh == [S.P(params[1]), S.P(params[2])]:
            run.holds("IDX/face-edge-shape", c, where(f, rs[0]), "inverse indices (length n_face*n_max_face_nodes) reshaped to (n_face, n_max_face_nodes): entry (f, j) is the edge of corners j, j+1")
        else:
            run.violation("IDX/face-edge-shape", c, where(f, rs[0]), f"inverse indices reshaped to {[norm(a) for a in args]}; one entry per (face, corner slot) means (n_face, n_max_face_nodes)")
    g = P.func(f"{CONN}:_populate_face_edge_connectivity")
    call = [n for n in ast.walk(g.node) if isinstance(n, ast.Call) and (dotted(n.func) or [""])[-1] == "_build_face_edge_connectivity"]
    c = f"{g.key}:call(_build_face_edge_connectivity)"
    if call:
        # arguments by the builder's parameter order, positional or by keyword; locals looked through
        from ..astutil import Resolver
        RZg = Resolver(g.node)
        bound = dict(zip(params, call[0].args))
        bound.update({k.arg: k.value for k in call[0].keywords if k.arg})
        a = [bound.get(p_) for p_ in params[:3]]
        ok = all(x is not None for x in a) and "inverse_indices" in RZg.norm(a[0]) and RZg.norm(a[1]).endswith("n_face") and RZg.norm(a[2]).endswith("n_max_face_nodes")
        if ok:
            run.holds("IDX/face-edge-shape", c, where(g, call[0]), "called with (inverse_indices, n_face, n_max_face_nodes)")
        elif any(x is None for x in a):
            run.incomplete("IDX/face-edge-shape", c, where(g, call[0]), f"not every parameter of {params[:3]} is bound at the call")
        else:
            run.violation("IDX/face-edge-shape", c, where(g, call[0]), f"called with {[norm(x) for x in a]}")
    else:
        run.incomplete("IDX/face-edge-shape", c, where(g), "call not found")
    # edge builder is called with (face_node_connectivity, n_face, n_max_face_nodes)
    g = P.func(f"{CONN}:_populate_edge_node_connectivity")
    call = [n for n in ast.walk(g.node) if isinstance(n, ast.Call) and (dotted(n.func) or [""])[-1] == "_build_edge_node_connectivity"]
    c = f"{g.key}:call(_build_edge_node_connectivity)"
    if call and len(call[0].args) == 3 and "face_node_connectivity" in norm(call[0].args[0]) and norm(call[0].args[1]).endswith("n_face") and norm(call[0].args[2]).endswith("n_max_face_nodes"):
        run.holds("IDX/pairing", c, where(g, call[0]), "called with (face_node_connectivity, n_face, n_max_face_nodes)")
    else:
        run.violation("IDX/pairing", c, where(g), "edge builder not called with (face_node_connectivity, n_face, n_max_face_nodes)")
    # unpack order matches the builder's return order and the stores
    tu = [st for st in S.tuple_assigns(g.node) if isinstance(st.value, ast.Call) and (dotted(st.value.func) or [""])[-1] == "_build_edge_node_connectivity"]
    c = f"{g.key}:unpack"
    if tu:
        names = [e.id for e in tu[0].targets[0].elts if isinstance(e, ast.Name)]
        store = [st for st in iter_stmts(g.node.body) if isinstance(st, ast.Assign) and isinstance(st.targets[0], ast.Subscript) and str_const(st.targets[0].slice) == "edge_node_connectivity"]
        data = inv = None
        if store and isinstance(store[0].value, ast.Call):
            v = store[0].value
            data = next((k.value for k in v.keywords if k.arg == "data"), v.args[0] if v.args else None)
            attrs = next((k.value for k in v.keywords if k.arg == "attrs"), None)
            # the side table: a key of a literal attrs dict, or an item store into the attrs dict built beforehand
            if isinstance(attrs, ast.Dict):
                inv = next((vv for kk, vv in zip(attrs.keys, attrs.values) if kk is not None and str_const(kk) == "inverse_indices"), None)
            elif isinstance(attrs, ast.Name):
                inv_store = [st for st in iter_stmts(g.node.body) if isinstance(st, ast.Assign) and isinstance(st.targets[0], ast.Subscript) and str_const(st.targets[0].slice) == "inverse_indices"
                             and norm(st.targets[0].value) == attrs.id]
                inv = inv_store[0].value if inv_store else None
                if inv is None:
                    for st in iter_stmts(g.node.body):
                        if isinstance(st, ast.Assign) and norm(st.targets[0]) == attrs.id and isinstance(st.value, ast.Dict):
                            inv = next((vv for kk, vv in zip(st.value.keys, st.value.values) if kk is not None and str_const(kk) == "inverse_indices"), inv)
        if len(names) == 3 and data is not None and inv is not None:
            if norm(data) == names[0] and norm(inv) == names[1]:
                run.holds("IDX/pairing", c, where(g, tu[0]), "first result stored as edge_node_connectivity, second as its inverse_indices")
            else:
                run.violation("IDX/pairing", c, where(g, tu[0]), f"results of the edge builder are not stored as (edge_node_connectivity, inverse_indices): data={norm(data)[:30]}, inverse_indices={norm(inv)[:30]} "
                              f"for builder results {names}")
        else:
            run.incomplete("IDX/pairing", c, where(g, tu[0]), "how the builder's results are stored (data / inverse_indices side table) is not recognised")
    else:
        run.incomplete("IDX/pairing", c, where(g), "unpack of the edge builder not found")


def _counts(run, P):
    """n_edge / n_max_face_edges: every return is the size of the derived table itself (never a quantity that merely should equal it),
    and the per-grid side tables of the edge table are written only together with the table they describe."""
    G = "uxarray/grid/grid.py"
    spec = {
        "n_edge": ("edge_node_connectivity", ('self._ds.sizes["n_edge"]', "self._ds.sizes['n_edge']", "self.edge_node_connectivity.shape[0]", "self._ds['edge_node_connectivity'].shape[0]")),
        "n_max_face_edges": ("face_edge_connectivity", ("self.face_edge_connectivity.shape[1]", "self._ds.sizes['n_max_face_edges']", 'self._ds.sizes["n_max_face_edges"]')),
    }
    for prop, (var, accepted) in spec.items():
        f = P.try_func(f"{G}:Grid.{prop}")
        c = f"Grid.{prop}:source"
        if f is None:
            run.incomplete("F-LAZY/counts", c, "-", "property not found")
            continue
        rets = [r for r in ast.walk(f.node) if isinstance(r, ast.Return)]
        bad = [r for r in rets if norm(r.value).replace('"', "'") not in {a.replace('"', "'") for a in accepted}]
        if rets and not bad:
            run.holds("F-LAZY/counts", c, where(f, rets[0]), f"{prop} is read off {var} on all {len(rets)} return(s)")
        else:
            run.violation("F-LAZY/counts", c, where(f, bad[0]) if bad else where(f), f"{prop} returns {norm(bad[0].value)[:70] if bad else 'nothing'}: it must be the size of {var} itself - "
                          "a stand-in (e.g. the widest face) differs whenever the face table is padded wider than its widest face, and the answer then changes once the table is built")
    # side tables of the edge table
    for g in P.all_functions():
        for st in iter_stmts(g.node.body):
            if isinstance(st, ast.Assign) and isinstance(st.targets[0], ast.Subscript) and str_const(st.targets[0].slice) in ("inverse_indices", "fill_value_mask"):
                key = str_const(st.targets[0].slice)
                c = f"{g.key}:writes[{key}]"
                if g.name == "_populate_edge_node_connectivity":
                    run.holds("IDX/pairing", c, where(g, st), f"{key} written together with the edge table it was derived with")
                else:
                    run.violation("IDX/pairing", c, where(g, st), f"{key} is written in {g.qualname}, apart from the edge table: inverse_indices number the edges in np.unique order of THIS build, "
                                  "attached to an edge table with another numbering (supplied by the source, sliced from a parent) face_edge_connectivity points at the wrong edges")
