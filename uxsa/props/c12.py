"""C12  Remapping picks true nearest sources and never invents values.

Decided: the element kind of the source data comes from its dimension name on every path that starts from a UxDataArray (size-based inference only as the fallback for plain arrays, and nowhere else);
the kind tables (remap_to -> destination coordinates in both coordinate systems, remap_to -> destination dimension, source kind -> tree) agree;
the gathered indices come from a query of a tree built over the SOURCE grid's elements of the data's kind at the DESTINATION coordinates, requested with reconstruct=True;
the gather indexes the last data axis; IDW weights are non-negative, divided by their own sum along the neighbour axis, and the result is the weighted sum along that axis;
the result's last dimension is the destination's and it is attached to the destination grid.
every return of the four accessor methods is the remap implementation's result (an identity shortcut only for the very same Grid object, not for grids that compare equal); inverse-distance results keep their float dtype in the wrappers too.
Dimension names beat lengths when data variables are mapped onto the grid (_map_dims_to_ugrid)."""

import ast

from ..astutil import LocalDefs, iter_stmts, norm, str_const, where
from ..loader import dotted
from ..rules import kind

U = "uxarray/remap/utils.py"
NN = "uxarray/remap/nearest_neighbor.py"
IDW = "uxarray/remap/inverse_distance_weighted.py"
UT = "uxarray/remap/utils.py"
ELEMENT = {"nodes": ("node", "n_node"), "face centers": ("face", "n_face"), "edge centers": ("edge", "n_edge")}


def check(run):
    P = run.program
    from ..rules import consts as _consts
    _consts.check(run, P)
    run.explanation = (
        "Structural reading of remap/utils.py and the two remap implementations. F-KIND: every comparison of a data length with a grid element count is located; it is accepted only inside the "
        "`source_data_mapping is None` fallback of _remap_grid_parse, and both UxDataArray wrappers must pass source_data_mapping derived from the array's dims. F-TABLE: the literal tables are extracted from the if-chains and compared with the element table. "
        "Provenance by def-use: tree <- source_grid.get_ball_tree(coordinates=<source kind>, reconstruct=True); indices <- tree.query(<destination coordinates>, k); gather source_data[..., indices]. "
        "IDW: the weight expression is 1/(d**p + eps) (non-negative for d >= 0), normalised by np.sum(weights, axis=1, keepdims=True), applied by a sum over axis -1. "
        "That the tree returns the nearest element (sklearn) and monotonicity of the weights for every power are NOT decided."
    )
    run.rule_text = "F-KIND + F-TABLE + IDX provenance + SIGN/normalisation of IDW weights"
    run.assumptions = ["BallTree.query returns, per query point, the positions of the k nearest tree points (C11)", "tree points are in the order of the grid's elements of that kind"]
    _kind(run, P)
    _tables(run, P)
    _provenance(run, P)
    _idw(run, P)
    _query_dependence(run, P)
    # the inverse-distance result is a float-weighted sum: it must not be squeezed into the source data's dtype (nearest neighbour keeps the dtype by construction)
    from ..rules import dtype as _dt
    _dt.check_float_results(run, P, [f"{IDW}:_inverse_distance_weighted_remap", f"{IDW}:_inverse_distance_weighted_remap_uxda", f"{IDW}:_inverse_distance_weighted_remap_uxds"])
    _results(run, P)
    _accessors_pass_through(run, P)
    _dims_by_name_first(run, P)


def _kind(run, P):
    f = P.func(f"{U}:_remap_grid_parse")
    sizes = kind.size_dispatch_sites(f)
    # accepted only under  `if source_data_mapping is None:`
    guard = None
    for st in iter_stmts(f.node.body):
        if isinstance(st, ast.If) and isinstance(st.test, ast.Compare) and isinstance(st.test.ops[0], ast.Is) and norm(st.test.left) == "source_data_mapping" and isinstance(st.test.comparators[0], ast.Constant) and st.test.comparators[0].value is None:
            guard = st
    c = f"{f.key}:size-inference-only-as-fallback"
    inside = set()
    if guard is not None:
        inside = {id(n) for s in guard.body for n in ast.walk(s)}
    outside = [s for s in sizes if id(s[1]) not in inside]
    if "source_data_mapping" not in f.params():
        run.violation("F-KIND/dims-not-sizes", c, where(f), "the element kind of the source data can only be inferred from the length of its last axis (no parameter carries the kind): when two element counts coincide the wrong source elements are used")
    elif outside:
        run.violation("F-KIND/dims-not-sizes", c, where(f, outside[0][1]), f"element kind chosen by {norm(outside[0][1])} outside the plain-array fallback")
    else:
        run.holds("F-KIND/dims-not-sizes", c, where(f, guard) if guard is not None else where(f), "size-based inference only when no kind is supplied (plain arrays)")
    # both wrappers pass the kind from dims
    for key, callee in ((f"{NN}:_nearest_neighbor_uxda", "_nearest_neighbor"), (f"{IDW}:_inverse_distance_weighted_remap_uxda", "_inverse_distance_weighted_remap")):
        g = P.func(key)
        call = next((n for n in ast.walk(g.node) if isinstance(n, ast.Call) and (dotted(n.func) or [""])[-1] == callee), None)
        c = f"{g.key}:kind-from-dims"
        if call is None:
            run.incomplete("F-KIND/dims-not-sizes", c, where(g), f"call of {callee} not found")
            continue
        kw = next((k.value for k in call.keywords if k.arg == "source_data_mapping"), None)
        if kw is None:
            hp_ = P.func(f"{g.module.relpath}:{callee}").params()
            if "source_data_mapping" in hp_ and len(call.args) > hp_.index("source_data_mapping"):
                kw = call.args[hp_.index("source_data_mapping")]
        gd_ = LocalDefs(g.node)
        n_ = 0
        while isinstance(kw, ast.Name) and n_ < 4 and len(gd_.defs.get(kw.id, [])) == 1 and gd_.defs[kw.id][0][1] is None and not gd_.defs[kw.id][0][2]:
            kw = gd_.defs[kw.id][0][0]       # a local bound once to the kind
            n_ += 1
        ok = kw is not None and isinstance(kw, ast.Call) and (dotted(kw.func) or [""])[-1] == "_source_data_mapping_from_dims" and kw.args and norm(kw.args[0]) == f"{g.params()[0]}.dims"
        if ok:
            run.holds("F-KIND/dims-not-sizes", c, where(g, call), "source kind passed from the data array's dimension names")
        else:
            run.violation("F-KIND/dims-not-sizes", c, where(g, call), f"{callee} is called without the element kind of {g.params()[0]} (source_data_mapping from its dims): the kind falls back to the length of the last axis")
        # and the low-level function forwards it
        h = P.func(f"{g.module.relpath}:{callee}")
        fw = next((n for n in ast.walk(h.node) if isinstance(n, ast.Call) and (dotted(n.func) or [""])[-1] == "_remap_grid_parse"), None)
        c = f"{h.key}:forwards-kind"
        if fw is not None and any(k.arg == "source_data_mapping" and norm(k.value) == "source_data_mapping" for k in fw.keywords):
            run.holds("F-KIND/dims-not-sizes", c, where(h, fw), "kind forwarded to _remap_grid_parse")
        else:
            run.violation("F-KIND/dims-not-sizes", c, where(h), "the supplied element kind is not forwarded to _remap_grid_parse")
        # no other length-based decision in the implementation (e.g. an identity shortcut keyed on the length)
        for hh in (g, h):
            for st, cmp_, cnt in kind.size_dispatch_sites(hh):
                run.violation("F-KIND/dims-not-sizes", f"{hh.key}:size-dispatch", where(hh, cmp_), f"{norm(cmp_)}: a data length compared with an element count decides what is returned; lengths of different element kinds can coincide")
            for n in ast.walk(hh.node):
                if isinstance(n, ast.Compare) and len(n.ops) == 1 and isinstance(n.ops[0], (ast.Eq, ast.NotEq)):
                    sides = [n.left, n.comparators[0]]
                    if any(kind._is_size_expr(s) for s in sides) and not any(isinstance(s, ast.Constant) for s in sides) and not kind.size_dispatch_sites(hh):
                        defs = LocalDefs(hh.node)
                        other = [s for s in sides if not kind._is_size_expr(s)][0]
                        nodes, _ = defs.closure(other)
                        if any(kind._is_count(x) for e in nodes for x in ast.walk(e)):
                            run.violation("F-KIND/dims-not-sizes", f"{hh.key}:size-dispatch", where(hh, n), f"{norm(n)}: a data length compared with an element count decides what is returned; lengths of different element kinds can coincide")
    # the dim->kind table
    m = P.module("uxarray.remap.utils")
    ci = m.defs.get("_ELEMENT_KIND_OF_DIM")
    c = f"{U}:_ELEMENT_KIND_OF_DIM"
    tab = P.const_value(ci) if ci is not None else None
    want = {v[1]: k for k, v in ELEMENT.items()}
    if tab == want:
        run.holds("F-TABLE/remap-kinds", c, f"{U}:{ci.node.lineno}", "n_node/n_face/n_edge -> nodes/face centers/edge centers")
    else:
        run.violation("F-TABLE/remap-kinds", c, U, f"dimension -> element kind table is {tab}")
    g = P.func(f"{U}:_source_data_mapping_from_dims")
    uses_last = any(isinstance(n, ast.Subscript) and norm(n.value) == g.params()[0] and norm(n.slice) == "-1" for n in ast.walk(g.node))
    c = f"{g.key}:last-dim"
    if uses_last:
        run.holds("F-TABLE/remap-kinds", c, where(g), "kind read from the last dimension (the axis the gather indexes)")
    else:
        run.violation("F-TABLE/remap-kinds", c, where(g), "kind is not read from the last dimension, which is the axis the remap gathers along")


def _chain(node):
    """[(test, body)] of an if/elif chain + else body"""
    out = []
    st = node
    while st is not None:
        out.append((st.test, st.body))
        if len(st.orelse) == 1 and isinstance(st.orelse[0], ast.If):
            st = st.orelse[0]
        else:
            out.append((None, st.orelse))
            st = None
    return out


def _tables(run, P):
    f = P.func(f"{U}:_remap_grid_parse")
    # per coord_type branch: remap_to literal -> coordinate attributes of destination_grid
    n = 0
    for st in iter_stmts(f.node.body):
        if isinstance(st, ast.If) and isinstance(st.test, ast.Compare) and norm(st.test.left) == "coord_type":
            for ctest, cbody in _chain(st):
                ctype = str_const(ctest.comparators[0]) if ctest is not None else None
                if ctype is None:
                    continue
                inner = next((s for s in cbody if isinstance(s, ast.If) and norm(s.test.left) == "remap_to"), None) if cbody else None
                if inner is None:
                    run.incomplete("F-TABLE/remap-kinds", f"{f.key}:{ctype}:chain", where(f, st), "remap_to chain not found")
                    continue
                roles = ("lon", "lat") if ctype == "spherical" else ("x", "y", "z")
                for rtest, rbody in _chain(inner):
                    lit = str_const(rtest.comparators[0]) if rtest is not None else None
                    if lit is None:
                        c = f"{f.key}:{ctype}:else-raises"
                        if rbody and any(isinstance(s, ast.Raise) for s in rbody):
                            run.holds("F-TABLE/remap-kinds", c, where(f, inner), "unknown remap_to raises")
                        else:
                            run.violation("F-TABLE/remap-kinds", c, where(f, inner), "unknown remap_to does not raise")
                        continue
                    n += 1
                    c = f"{f.key}:{ctype}:dest-coords[{lit}]"
                    attrs = [x.attr for s in rbody for x in ast.walk(s) if isinstance(x, ast.Attribute) and isinstance(x.value, ast.Name) and x.value.id == "destination_grid"]
                    kind_ = ELEMENT.get(lit, (None,))[0]
                    want = [f"{kind_}_{r}" for r in roles]
                    # order matters: (lon, lat) / (x, y, z)
                    if attrs == want:
                        run.holds("F-TABLE/remap-kinds", c, where(f, rtest), f'"{lit}" -> destination_grid.{", ".join(want)}')
                    else:
                        run.violation("F-TABLE/remap-kinds", c, where(f, rtest), f'remap_to="{lit}" reads destination_grid.{attrs}; the destination points of that kind are {want} in this order')
                # stacked in role order
                for s in cbody:
                    for x in ast.walk(s):
                        if isinstance(x, ast.Call) and (dotted(x.func) or [""])[-1] in ("vstack", "column_stack") and x.args and isinstance(x.args[0], (ast.List, ast.Tuple)):
                            c = f"{f.key}:{ctype}:stack-order"
                            got = [norm(e) for e in x.args[0].elts]
                            if got == list(roles):
                                run.holds("F-TABLE/remap-kinds", c, where(f, x), f"query points stacked as {got}")
                            else:
                                run.violation("F-TABLE/remap-kinds", c, where(f, x), f"query points stacked as {got}, the tree expects {list(roles)}")
    run.floor("F-TABLE/remap-kinds", n, 6)
    # wrappers: remap_to -> destination dimension
    for key in (f"{NN}:_nearest_neighbor_uxda", f"{IDW}:_inverse_distance_weighted_remap_uxda"):
        g = P.func(key)
        chain = next((s for s in g.node.body if isinstance(s, ast.If) and isinstance(s.test, ast.Compare) and norm(s.test.left) == "remap_to" and any(isinstance(x, ast.Assign) and norm(x.targets[0]) == "destination_dim" for x in s.body)), None)
        if chain is None:
            run.incomplete("F-TABLE/remap-kinds", f"{g.key}:destination-dim", where(g), "remap_to -> destination_dim chain not found")
            continue
        seen = {}
        for t, body in _chain(chain):
            val = next((str_const(x.value) for x in body if isinstance(x, ast.Assign) and norm(x.targets[0]) == "destination_dim"), None) if body else None
            lit = str_const(t.comparators[0]) if t is not None else "<else>"
            seen[lit] = val
        rest = set(ELEMENT) - {k for k in seen if k != "<else>"}
        for lit, (kd, dim) in ELEMENT.items():
            c = f"{g.key}:destination-dim[{lit}]"
            got = seen.get(lit, seen.get("<else>") if rest == {lit} else None)
            if got == dim:
                run.holds("F-TABLE/remap-kinds", c, where(g, chain), f'"{lit}" -> {dim}')
            else:
                run.violation("F-TABLE/remap-kinds", c, where(g, chain), f'remap_to="{lit}" labels the result {got}; the destination elements are counted by {dim}')


def _provenance(run, P):
    f = P.func(f"{U}:_remap_grid_parse")
    trees = [n for n in ast.walk(f.node) if isinstance(n, ast.Call) and isinstance(n.func, ast.Attribute) and n.func.attr in ("get_ball_tree", "get_kd_tree")]
    c0 = f"{f.key}:tree"
    if not trees:
        run.incomplete("IDX/remap-provenance", c0, where(f), "tree request not found")
    import copy as _copy
    fdefs = LocalDefs(f.node)
    expanded = []
    for t in trees:
        # get_ball_tree(**kw) with kw chosen per branch (kw = {...} in every arm): one variant of the call per dict literal; anything else is not understood
        splat = [k for k in t.keywords if k.arg is None]
        if not splat:
            expanded.append((t, None))
            continue
        if len(splat) == 1 and isinstance(splat[0].value, ast.Name):
            binds = [v for v, _i, _l in fdefs.defs.get(splat[0].value.id, [])]
            if binds and all(isinstance(v, ast.Dict) and all(kk is not None and str_const(kk) for kk in v.keys) for v in binds) and not fdefs.stores.get(splat[0].value.id):
                for v in binds:
                    t2 = _copy.copy(t)
                    t2.keywords = [k for k in t.keywords if k.arg is not None] + [ast.keyword(arg=str_const(kk), value=vv) for kk, vv in zip(v.keys, v.values)]
                    expanded.append((t2, t))
                continue
        expanded.append((None, t))
    for i, (t, orig) in enumerate(expanded):
        c = f"{f.key}:tree#{i}"
        if t is None:
            run.incomplete("IDX/remap-provenance", c, where(f, orig), f"the tree is requested with `{norm(orig)[:60]}`: keyword arguments passed through ** are not a dict literal bound in every branch")
            continue
        probs = []
        if norm(t.func.value) != "source_grid":
            probs.append(f"tree requested from {norm(t.func.value)}: neighbours must be searched among the SOURCE grid's elements")
        coords = next((k.value for k in t.keywords if k.arg == "coordinates"), t.args[0] if t.args else None)
        if coords is None or norm(coords) != "source_data_mapping":
            probs.append(f"tree built over {norm(coords) if coords is not None else 'the default elements'}, not over the element kind the data live on")
        rec = next((k.value for k in t.keywords if k.arg == "reconstruct"), None)
        if not (isinstance(rec, ast.Constant) and rec.value is True):
            probs.append("tree not requested with reconstruct=True (a cached tree over another element kind or metric may be reused)")
        if probs:
            run.violation("IDX/remap-provenance", c, where(f, orig or t), "; ".join(probs))
        else:
            run.holds("IDX/remap-provenance", c, where(f, orig or t), "source_grid tree over the data's element kind, rebuilt")
    qs = [n for n in ast.walk(f.node) if isinstance(n, ast.Call) and isinstance(n.func, ast.Attribute) and n.func.attr == "query"]
    for i, q in enumerate(qs):
        c = f"{f.key}:query#{i}"
        ok = q.args and norm(q.args[0]) == "dest_coords" and any(k.arg == "k" and norm(k.value) == "k" for k in q.keywords)
        if ok:
            run.holds("IDX/remap-provenance", c, where(f, q), "the tree is queried at the destination coordinates with the caller's k")
        else:
            run.violation("IDX/remap-provenance", c, where(f, q), f"query is {norm(q)[:80]}: expected the destination coordinates and k")
    # unpack order (distances, indices) and return order
    for st in iter_stmts(f.node.body):
        if isinstance(st, ast.Assign) and isinstance(st.targets[0], ast.Tuple) and isinstance(st.value, ast.Call) and isinstance(st.value.func, ast.Attribute) and st.value.func.attr == "query":
            names = [norm(e) for e in st.targets[0].elts]
            c = f"{f.key}:query-unpack"
            if names == ["distances", "nearest_neighbor_indices"]:
                run.holds("IDX/remap-provenance", c, where(f, st), "query result unpacked as (distances, indices)")
            else:
                run.violation("IDX/remap-provenance", c, where(f, st), f"query result unpacked as {names}")
    rets = [r for r in ast.walk(f.node) if isinstance(r, ast.Return) and isinstance(r.value, ast.Tuple)]
    c = f"{f.key}:return-order"
    if rets and all([norm(e) for e in r.value.elts] == ["dest_coords", "distances", "nearest_neighbor_indices"] for r in rets):
        run.holds("IDX/remap-provenance", c, where(f, rets[0]), "returns (dest_coords, distances, indices)")
    else:
        run.violation("IDX/remap-provenance", c, where(f), "return order is not (dest_coords, distances, indices)")
    # the gather in both implementations
    for key in (f"{NN}:_nearest_neighbor", f"{IDW}:_inverse_distance_weighted_remap"):
        g = P.func(key)
        un = next((st for st in iter_stmts(g.node.body) if isinstance(st, ast.Assign) and isinstance(st.targets[0], ast.Tuple) and isinstance(st.value, ast.Call) and (dotted(st.value.func) or [""])[-1] == "_remap_grid_parse"), None)
        c = f"{g.key}:gather"
        if un is None:
            run.incomplete("IDX/remap-provenance", c, where(g), "unpack of _remap_grid_parse not found")
            continue
        idx_name = norm(un.targets[0].elts[2])
        parse = P.func(f"{UT}:_remap_grid_parse")
        pp = parse.params()
        bound = dict(zip(pp, un.value.args))
        bound.update({k.arg: k.value for k in un.value.keywords if k.arg})
        want5 = ["source_data", "source_grid", "destination_grid", "coord_type", "remap_to"]
        args = [norm(bound[p_]) if p_ in bound else None for p_ in want5]
        probs = []
        if args != want5:
            probs.append(f"_remap_grid_parse called with {dict(zip(want5, args))}")
        gdefs = LocalDefs(g.node)

        def uses_idx(e):
            nodes_, names_ = gdefs.closure(e)
            return idx_name in names_ or any(isinstance(x, ast.Name) and x.id == idx_name for x in ast.walk(e))
        gathers = [n for n in ast.walk(g.node) if isinstance(n, ast.Subscript) and isinstance(n.ctx, ast.Load) and norm(symx_strip(n.value)) == "source_data"]
        good = [n for n in gathers if isinstance(n.slice, ast.Tuple) and len(n.slice.elts) == 2 and isinstance(n.slice.elts[0], ast.Constant) and n.slice.elts[0].value is Ellipsis and uses_idx(n.slice.elts[1])]
        wrong_axis = [n for n in gathers if n not in good and uses_idx(n.slice)]
        unknown_gather = False
        if wrong_axis:
            probs.append(f"the source values are gathered as {norm(wrong_axis[0])[:60]}: the neighbour indices select along the LAST axis (source_data[..., {idx_name}]); leading dimensions are left untouched")
        elif not good:
            unknown_gather = True
        # every return is the gathered data (or its weighted sum) - no path returns the source data itself
        for r in ast.walk(g.node):
            if isinstance(r, ast.Return) and r.value is not None:
                defs = LocalDefs(g.node)
                nodes, names = defs.closure(r.value)
                if idx_name not in names and not any(norm(x) == idx_name for e in nodes for x in ast.walk(e)):
                    probs.append(f"a return path ({norm(r)[:50]}) does not depend on the nearest-neighbour indices")
        if probs:
            run.violation("IDX/remap-provenance", c, where(g, un), "; ".join(probs))
        elif unknown_gather:
            run.incomplete("IDX/remap-provenance", c, where(g, un), f"no gather source_data[..., <{idx_name}>] recognised (the source values may be gathered in an idiom this rule does not read)")
        else:
            run.holds("IDX/remap-provenance", c, where(g, un), f"source_data[..., {idx_name}] with indices from the source tree queried at the destination points")


def symx_strip(e):
    from .. import symx
    return symx.strip_neutral(e)


def _query_dependence(run, P):
    """_remap_grid_parse: the points that are looked up must vary with the DESTINATION kind (remap_to) and the destination grid, the tree they are looked up in with the
    SOURCE kind (source_data_mapping) and the source grid - by data or by control dependence.  A query point set that does not depend on remap_to at all is the same
    whatever the caller asks for: results labelled with the destination dimension then have another element kind's length."""
    from ..astutil import dependence
    f = P.func(f"{UT}:_remap_grid_parse")
    dep = dependence(f.node)
    ps = f.params()
    c = f"{f.key}:query-depends-on-kinds"
    queries = [n for n in ast.walk(f.node) if isinstance(n, ast.Call) and isinstance(n.func, ast.Attribute) and n.func.attr == "query" and n.args]
    if not queries:
        run.incomplete("F-TABLE/remap-kinds", c, where(f), "no tree query found")
        return

    def deps_of(e):
        out = set()
        for n in ast.walk(e):
            if isinstance(n, ast.Name):
                out.add(n.id)
                out |= dep.get(n.id, set())
        return out
    probs = []
    for q in queries:
        pts = deps_of(q.args[0])
        tree = deps_of(q.func.value)
        if "remap_to" in ps and "remap_to" not in pts:
            probs.append(f"the queried points {norm(q.args[0])[:30]} do not depend on remap_to (they depend on {sorted(pts & set(ps))})")
        if "destination_grid" in ps and "destination_grid" not in pts:
            probs.append(f"the queried points {norm(q.args[0])[:30]} do not depend on destination_grid")
        if "source_grid" in ps and "source_grid" not in tree:
            probs.append("the tree that is queried does not depend on source_grid")
        if "source_data_mapping" in ps and "source_data_mapping" not in tree:
            probs.append("the tree that is queried does not depend on source_data_mapping (the kind of element the source data sit on)")
    if probs:
        run.violation("F-TABLE/remap-kinds", c, where(f, queries[0]), "; ".join(sorted(set(probs))))
    else:
        run.holds("F-TABLE/remap-kinds", c, where(f, queries[0]), "queried points vary with (destination_grid, remap_to); the tree with (source_grid, source_data_mapping)")


def _idw(run, P):
    """The value returned by _inverse_distance_weighted_remap, expanded into one expression over its parameters (uxsa/symx: locals substituted, single-path package
    helpers looked through), must read
        sum( S[..., I] * W, axis=-1 )      W = W0 / sum(W0, axis=1|-1, keepdims=True)      W0 = c / (D ** power + eps),  c, eps > 0
    with (_, D, I) the second and third results of _remap_grid_parse(...).  A piece that is recognised and wrong is a violation; a shape that is not
    recognised is reported as not understood."""
    from .. import symx
    g = P.func(f"{IDW}:_inverse_distance_weighted_remap")
    X = symx.Expander(P)
    rets = X.returns(g)
    R = "SIGN/idw-weights"
    cw, cn, cs, ck = (f"{g.key}:{x}" for x in ("weights", "normalised", "weighted-sum", "k-bounds"))
    if not rets:
        for c in (cw, cn, cs):
            run.incomplete(R, c, where(g), "no returning path found")
    for path, r, _env in rets[:1] if len({norm(r_) for _p, r_, _e in rets}) == 1 else rets:
        at = where(g, path.events[-1]) if path.events else where(g)
        # ---- weighted sum over the last axis
        if not (isinstance(r, ast.Call) and symx.call_name(r) == "sum" and (r.args or isinstance(r.func, ast.Attribute))):
            run.incomplete(R, cs, at, f"returned value {norm(r)[:90]} is not a sum(...)")
            run.incomplete(R, cw, at, "weights not located (the returned value is not a weighted sum)")
            run.incomplete(R, cn, at, "weights not located (the returned value is not a weighted sum)")
            continue
        prod = r.args[0] if r.args and not (isinstance(r.func, ast.Attribute) and not (isinstance(r.func.value, ast.Name) and r.func.value.id in ("np", "numpy"))) else r.func.value
        axis = symx.kw(r, "axis") or (r.args[1] if len(r.args) > 1 else None)
        fs = symx.factors(prod)
        gathers = [x for x in fs if isinstance(x, ast.Subscript) and isinstance(x.slice, ast.Tuple) and len(x.slice.elts) == 2 and isinstance(x.slice.elts[0], ast.Constant) and x.slice.elts[0].value is Ellipsis]
        others = [x for x in fs if x not in gathers]
        if len(fs) != 2 or len(gathers) != 1:
            run.incomplete(R, cs, at, f"summand {norm(prod)[:90]} is not (gathered source values) * (weights)")
            run.incomplete(R, cw, at, "weights not located")
            run.incomplete(R, cn, at, "weights not located")
            continue
        gath, W = gathers[0], others[0]
        src = symx.strip_neutral(gath.value)
        idx = gath.slice.elts[1]
        probs = []
        if not (isinstance(src, ast.Name) and src.id == "source_data"):
            probs.append(f"values are gathered from {norm(src)[:40]}, not from source_data")
        parse_idx = isinstance(idx, ast.Subscript) and symx.call_name(idx.value) == "_remap_grid_parse" and isinstance(idx.slice, ast.Constant)
        if not parse_idx:
            run.incomplete(R, cs, at, f"gather index {norm(idx)[:60]} is not a result of _remap_grid_parse")
        else:
            if idx.slice.value != 2:
                probs.append(f"source values are gathered with result #{idx.slice.value} of _remap_grid_parse (the neighbour indices are result #2)")
            if axis is None or norm(axis) != "-1":
                probs.append(f"weighted values summed along axis {norm(axis) if axis is not None else 'None (all)'}; the neighbour axis is the last one")
            if probs:
                run.violation(R, cs, at, "; ".join(probs))
            else:
                run.holds(R, cs, at, "result = sum(source_data[..., neighbour indices] * weights, axis=-1)")
        # ---- normalisation
        def w0_form(e):
            """c / (D ** p + eps) -> (c, D, p, eps) or None"""
            if isinstance(e, ast.BinOp) and isinstance(e.op, ast.Div) and isinstance(e.right, ast.BinOp) and isinstance(e.right.op, ast.Add):
                for a_, b_ in ((e.right.left, e.right.right), (e.right.right, e.right.left)):
                    if isinstance(a_, ast.BinOp) and isinstance(a_.op, ast.Pow):
                        return e.left, a_.left, a_.right, b_
            if isinstance(e, ast.BinOp) and isinstance(e.op, ast.Pow) and symx.is_const(e.right, lambda v: v == -1):
                return w0_form(ast.BinOp(left=ast.Constant(value=1), op=ast.Div(), right=e.left))
            return None
        W0 = None
        if isinstance(W, ast.BinOp) and isinstance(W.op, ast.Div) and isinstance(W.right, ast.Call) and symx.call_name(W.right) == "sum":
            sm = W.right
            summed = sm.args[0] if sm.args and not (isinstance(sm.func, ast.Attribute) and not (isinstance(sm.func.value, ast.Name) and sm.func.value.id in ("np", "numpy"))) else sm.func.value
            ax = symx.kw(sm, "axis") or (sm.args[1] if len(sm.args) > 1 else None)
            keep = symx.kw(sm, "keepdims")
            W0 = W.left
            bad = []
            if not symx.same(summed, W0):
                bad.append(f"weights are divided by the sum of {norm(summed)[:50]}, not by their own sum")
            if ax is None or norm(ax) not in ("1", "-1"):
                bad.append(f"the normalising sum runs over axis {norm(ax) if ax is not None else 'None (all destinations together)'}; each destination's weights must be divided by their own sum (axis=1)")
            if not (isinstance(keep, ast.Constant) and keep.value is True):
                bad.append("keepdims=True missing: the sums are broadcast along the wrong axis")
            if bad:
                run.violation(R, cn, at, "; ".join(bad))
            else:
                run.holds(R, cn, at, "weights divided by their sum over the neighbour axis (keepdims)")
        elif w0_form(W) is not None:
            W0 = W
            run.violation(R, cn, at, "weights are never divided by their sum: the result is not a convex combination")
        else:
            run.incomplete(R, cn, at, f"weights {norm(W)[:90]} are not of the form W0 / sum(W0, axis=1, keepdims=True)")
        # ---- raw weights
        form = w0_form(W0) if W0 is not None else None
        if form is None:
            run.incomplete(R, cw, at, f"raw weights {norm(W0)[:90] if W0 is not None else '?'} are not of the form c / (distances ** power + eps)")
        else:
            cst, D, pw, eps = form
            bad = []
            if not symx.is_const(cst, lambda v: v > 0):
                bad.append(f"numerator {norm(cst)} is not a positive constant")
            if not symx.is_const(eps, lambda v: v > 0):
                bad.append(f"regulariser {norm(eps)} is not a positive constant (division by zero at coinciding points, or negative weights)")
            if not (isinstance(pw, ast.Name) and pw.id == "power"):
                bad.append(f"exponent is {norm(pw)}, not the power parameter")
            is_d = isinstance(D, ast.Subscript) and symx.call_name(D.value) == "_remap_grid_parse" and isinstance(D.slice, ast.Constant)
            if is_d and D.slice.value != 1:
                bad.append(f"weights are computed from result #{D.slice.value} of _remap_grid_parse (the distances are result #1)")
            if bad:
                run.violation(R, cw, at, f"weights = {norm(W0)[:80]}: " + "; ".join(bad))
            elif not is_d:
                run.incomplete(R, cw, at, f"distance operand {norm(D)[:60]} is not a result of _remap_grid_parse")
            else:
                run.holds(R, cw, at, "weights = positive / (distances**power + positive): positive and non-increasing in the distance for power >= 0")
    # ---- k bounds: inadmissible k raises before any query (in the function or in a procedure it calls with k)
    guards = X.raising_guards(g)
    lo = hi = None
    for t, st in guards:
        if isinstance(t, ast.Compare) and len(t.ops) == 1 and isinstance(t.left, ast.Name) and t.left.id == "k":
            rhs = t.comparators[0]
            if isinstance(t.ops[0], (ast.LtE, ast.Lt)) and symx.is_const(rhs):
                lo = (t, st)
            if isinstance(t.ops[0], (ast.Gt, ast.GtE)) and not symx.is_const(rhs):
                hi = (t, st)
    if lo and hi:
        lt, _ = lo
        v = lt.comparators[0].value
        if (isinstance(lt.ops[0], ast.LtE) and v >= 0) or (isinstance(lt.ops[0], ast.Lt) and v >= 1):
            run.holds(R, ck, where(g, lo[1]), f"inadmissible k raises ({norm(lo[0])}; {norm(hi[0])})")
        else:
            run.violation(R, ck, where(g, lo[1]), f"lower guard {norm(lt)} admits k <= 0")
    elif any("k" in {x.id for x in ast.walk(t) if isinstance(x, ast.Name)} for t, _ in guards):
        run.incomplete(R, ck, where(g), f"guards on k not recognised: {[norm(t)[:40] for t, _ in guards]}")
    else:
        run.violation(R, ck, where(g), "k outside (1, n] is not rejected")
    run.stats.setdefault("symx_inlined", sorted(set(X.inlined)))


def _results(run, P):
    for key in (f"{NN}:_nearest_neighbor_uxda", f"{IDW}:_inverse_distance_weighted_remap_uxda"):
        g = P.func(key)
        c = f"{g.key}:result"
        cons = [n for n in ast.walk(g.node) if isinstance(n, ast.Call) and (dotted(n.func) or [""])[-1] == "UxDataArray"]
        probs, unknown = [], []
        from ..astutil import InterDefs, dependence
        I = InterDefs(P, g)
        src = g.params()[0]

        def varies_with_remap_to(h, e):
            """the expression (in function h of the scope) depends, by data or control, on the caller's remap_to"""
            dep = dependence(h.node)
            names_ = {x.id for x in ast.walk(e) if isinstance(x, ast.Name)}
            reach = set(names_)
            for nm in names_:
                reach |= dep.get(nm, set())
            if h.node is g.node:
                return "remap_to" in reach
            # in a helper: one of the parameters it depends on receives something that depends on remap_to at the call sites
            for prm in [p_ for p_ in h.params() if p_ in reach]:
                for hh, ee in I.closure(h, ast.Name(id=prm, ctx=ast.Load())):
                    if hh.node is g.node and any(isinstance(x, ast.Name) and x.id == "remap_to" for x in ast.walk(ee)):
                        return True
            return False
        if not cons:
            from ..loader import FuncInfo
            via = [x for r in ast.walk(g.node) if isinstance(r, ast.Return) and r.value is not None for x in ast.walk(r.value) if isinstance(x, ast.Call) and isinstance(P.resolve_expr(g.module, x.func, g), FuncInfo)]
            (unknown if via else probs).append("no UxDataArray constructed in this function" + (f" (the result is built by {norm(via[0].func)})" if via else ""))
        else:
            kwd = {k.arg: k.value for k in cons[0].keywords}
            kw = {k_: norm(v_) for k_, v_ in kwd.items()}
            if kw.get("uxgrid") != "destination_grid":
                probs.append(f"result attached to {kw.get('uxgrid')}, not to the destination grid")
            if kw.get("name") != f"{src}.name":
                probs.append("name not carried over")
            dims_e = kwd.get("dims")
            if dims_e is None:
                probs.append("result dims not passed")
            else:
                behind = I.closure(g, dims_e)
                from_src = any(isinstance(x, ast.Attribute) and x.attr == "dims" and isinstance(x.value, ast.Name) and x.value.id == src for _h, e in behind for x in ast.walk(e))
                names_behind = {(h.key, x.id) for h, e in behind for x in ast.walk(e) if isinstance(x, ast.Name)}
                last_stores = [(h, st) for h, st in I.stmts() if isinstance(st, ast.Assign) and isinstance(st.targets[0], ast.Subscript) and norm(st.targets[0].slice) == "-1"
                               and isinstance(st.targets[0].value, ast.Name) and (h.key, st.targets[0].value.id) in names_behind]
                if not from_src:
                    (unknown if any(isinstance(x, ast.Call) for _h, e in behind for x in ast.walk(e)) else probs).append("result dims are not the source's dims")
                if not last_stores:
                    if norm(dims_e) in (f"{src}.dims", f"list({src}.dims)"):
                        probs.append("the last dimension of the result is not renamed to the destination dimension")
                    else:
                        unknown.append("no replacement of the last dimension found behind the dims argument")
                elif not any(varies_with_remap_to(h, st.value) for h, st in last_stores):
                    probs.append(f"the last dimension is set to {norm(last_stores[0][1].value)[:40]}, which does not depend on remap_to")
        # every return hands back the array computed by the low-level remap (no shortcut path returning the source data)
        low = "_nearest_neighbor" if key.startswith(NN) else "_inverse_distance_weighted_remap"
        defs = LocalDefs(g.node)
        rets = [r for r in ast.walk(g.node) if isinstance(r, ast.Return)]
        for r in rets:
            nodes, _names = defs.closure(r.value) if r.value is not None else ([], set())
            if not any(isinstance(x, ast.Call) and (dotted(x.func) or [""])[-1] == low for e in nodes for x in ast.walk(e)):
                probs.append(f"a return path ({norm(r)[:60]}) does not go through {low}: the data are handed back without consulting the nearest-neighbour search (e.g. an identity shortcut that trusts grid equality, which ignores edge order and supplied centres)")
        if len(cons) > 1:
            probs.append(f"{len(cons)} result constructions: expected one, fed by {low}")
        if probs:
            run.violation("IDX/remap-result", c, where(g), "; ".join(probs))
        elif unknown:
            run.incomplete("IDX/remap-result", c, where(g), "; ".join(unknown))
        else:
            run.holds("IDX/remap-result", c, where(g, cons[0]) if cons else where(g), "dims = source dims with the last replaced by the destination dimension; attached to the destination grid; every return fed by the low-level remap")
    for key in (f"{NN}:_nearest_neighbor_uxds", f"{IDW}:_inverse_distance_weighted_remap_uxds"):
        g = P.try_func(key)
        if g is None:
            continue
        cons = [n for n in ast.walk(g.node) if isinstance(n, ast.Call) and (dotted(n.func) or [""])[-1] == "UxDataset"]
        c = f"{g.key}:result"
        if cons and any(k.arg == "uxgrid" and norm(k.value) == "destination_grid" for k in cons[0].keywords):
            run.holds("IDX/remap-result", c, where(g, cons[0]), "dataset attached to the destination grid")
        else:
            run.violation("IDX/remap-result", c, where(g), "remapped dataset is not attached to the destination grid")


def _accessors_pass_through(run, P):
    """Every value returned by the four remap accessor methods is the result of the remap implementation of that method.  A shortcut that returns something else
    is decided by its guard: `destination_grid is <source grid>` is the identity case the property itself names; a guard that compares the two grids with ==/!= is
    NOT (Grid.__eq__ looks at node coordinates and face-node connectivity only: two grids that compare equal may number their edges differently or carry different
    stored centres, so element j of one is not element j of the other); anything else is not understood."""
    from ..flow import enumerate_paths
    table = [
        ("uxarray/remap/dataarray_accessor.py:UxDataArrayRemapAccessor.nearest_neighbor", "_nearest_neighbor_uxda"),
        ("uxarray/remap/dataarray_accessor.py:UxDataArrayRemapAccessor.inverse_distance_weighted", "_inverse_distance_weighted_remap_uxda"),
        ("uxarray/remap/dataset_accessor.py:UxDatasetRemapAccessor.nearest_neighbor", "_nearest_neighbor_uxds"),
        ("uxarray/remap/dataset_accessor.py:UxDatasetRemapAccessor.inverse_distance_weighted", "_inverse_distance_weighted_remap_uxds"),
    ]
    for key, impl in table:
        f = P.func(key)
        defs = LocalDefs(f.node)
        c = f"{f.key}:returns-the-remap"
        rets = [r for r in ast.walk(f.node) if isinstance(r, ast.Return)]
        bad = []
        for r in rets:
            nodes, _ = defs.closure(r.value) if r.value is not None else ([], set())
            if any(isinstance(n, ast.Call) and (dotted(n.func) or [""])[-1] == impl for e in nodes for n in ast.walk(e)):
                continue
            bad.append(r)
        if not rets:
            run.incomplete("F-PATH/remap-pass-through", c, where(f), "no return statement")
            continue
        if not bad:
            run.holds("F-PATH/remap-pass-through", c, where(f), f"all {len(rets)} return(s) hand back {impl}(...)")
            continue
        for r in bad:
            # the guards under which this return is reached
            guards = []
            for p_ in enumerate_paths(f.node.body):
                if p_.exit == "return" and p_.events and any(r is e or any(r is x for x in ast.walk(e)) for e in p_.events[-1:]):
                    guards = [t for t, _truth in getattr(p_, "conds", [])]
                    break
            if not guards:
                # fall back: the tests of the enclosing ifs
                def enclosing(stmts, acc):
                    for st in stmts:
                        if st is r:
                            return acc
                        if isinstance(st, ast.If):
                            got = enclosing(st.body, acc + [st.test]) or enclosing(st.orelse, acc + [st.test])
                            if got is not None:
                                return got
                    return None
                guards = enclosing(f.node.body, []) or []
            cmps = [n for g in guards for n in ast.walk(g) if isinstance(n, ast.Compare) and len(n.ops) == 1 and any("grid" in norm(x).lower() for x in (n.left, n.comparators[0]))]
            if any(isinstance(n.ops[0], (ast.Eq, ast.NotEq)) for n in cmps):
                run.violation("F-PATH/remap-pass-through", c, where(f, r),
                              f"a shortcut returns {norm(r.value)[:50] if r.value is not None else None} without remapping when the two grids compare EQUAL: Grid.__eq__ ignores edge numbering and stored "
                              "edge/face centres, so the j-th source element need not be the element nearest to the j-th destination element")
            elif cmps and all(isinstance(n.ops[0], (ast.Is, ast.IsNot)) for n in cmps):
                run.holds("F-PATH/remap-pass-through", c, where(f, r), "identity shortcut for the very same Grid object")
            else:
                run.incomplete("F-PATH/remap-pass-through", c, where(f, r), f"a return that does not come from {impl}(...) under a guard this rule does not evaluate")


def _dims_by_name_first(run, P):
    """core/utils._map_dims_to_ugrid: a dimension the grid file names (source_dims_dict) keeps the element kind its NAME gives it; the length-based guess
    (ds.sizes[dim] == grid.n_face -> n_face, ...) applies only to dimensions that are not named.  If the guess runs over every dimension it overrides the names, and on a
    grid where two element counts coincide (n_node == n_face) node data are relabelled as face data - which the remapping then takes for its element kind."""
    f = P.try_func("uxarray/core/utils.py:_map_dims_to_ugrid")
    c = "uxarray/core/utils.py:_map_dims_to_ugrid:size-guess-only-for-unnamed-dims"
    if f is None:
        run.incomplete("F-KIND/dims-not-sizes", c, "-", "function not found")
        return
    dct = f.params()[1] if len(f.params()) > 1 else "_source_dims_dict"
    found = 0
    for loop in [x for x in ast.walk(f.node) if isinstance(x, ast.For)]:
        stores = [st for st in ast.walk(loop) if isinstance(st, ast.Assign) and isinstance(st.targets[0], ast.Subscript) and norm(st.targets[0].value) == dct and str_const(st.value) in ("n_face", "n_node", "n_edge")]
        if not stores:
            continue
        found += 1
        it = loop.iter
        excl = any(isinstance(x, ast.BinOp) and isinstance(x.op, (ast.BitXor, ast.Sub)) and dct in norm(x.right) for x in ast.walk(it)) or any(isinstance(x, ast.Call) and isinstance(x.func, ast.Attribute) and x.func.attr in ("difference", "symmetric_difference") and x.args and dct in norm(x.args[0]) for x in ast.walk(it))
        var = norm(loop.target)
        guarded = any(isinstance(g, ast.If) and isinstance(g.test, ast.Compare) and len(g.test.ops) == 1 and norm(g.test.left) == var and dct in norm(g.test.comparators[0])
                      and ((isinstance(g.test.ops[0], ast.In) and any(isinstance(y, ast.Continue) for y in g.body)) or (isinstance(g.test.ops[0], ast.NotIn) and any(st_ in list(ast.walk(g)) for st_ in stores))) for g in ast.walk(loop))
        if excl or guarded:
            run.holds("F-KIND/dims-not-sizes", c, where(f, loop), "the length-based guess runs over the dimensions the grid file does not name")
        elif norm(it) in (f"{f.params()[0]}.dims", f"{f.params()[0]}.sizes", f"list({f.params()[0]}.dims)", f"{f.params()[0]}.dims.keys()"):
            run.violation("F-KIND/dims-not-sizes", c, where(f, loop), f"the length-based guess runs over every dimension ({norm(it)}) and overwrites the kind the grid file's dimension names give: with coinciding element counts "
                          "node data become face data")
        else:
            run.incomplete("F-KIND/dims-not-sizes", c, where(f, loop), f"iteration domain {norm(it)[:50]} of the length-based guess not recognised")
    if not found:
        run.incomplete("F-KIND/dims-not-sizes", c, where(f), "no length-based assignment of an element dimension found")

