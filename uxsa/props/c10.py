"""C10  xarray operations keep a UxDataArray attached to a consistent grid.

Decided: overriding signatures accept xarray's positional parameters in order (F-SIG, against the installed xarray's sources);
every overridden funnel (_replace, _copy, _construct_dataarray, __getitem__, to_array, to_dataset, _calculate_binary_op) attaches the grid to the object it returns on every path, under no other condition than the result's class;
every construction of UxDataArray/UxDataset inside uxarray passes uxgrid= (named exceptions: the grid-less classmethods); deep copies obtain an independent grid; isel routes grid dimensions through the sliced grid;
where uxarray relabels grid dimensions without moving data (get_dual) the relabelling is by name through an involution; and (funnel coverage) the methods of the installed xarray.DataArray whose result is
built by apply_ufunc - which constructs DataArray literally - are overridden or recorded as findings. Duplicate-node search (the node count of merged grids): equality between neighbours of a sorted order is tested only on fields the sort key contains (SORT/partial-key-adjacency, contradiction rule over the whole package)."""

import ast
import glob
import os
import warnings

from ..astutil import iter_stmts, norm, str_const, where
from ..flow import enumerate_paths
from ..loader import dotted
from ..rules import sig
from ..rules.common import dataflow, emit

DA = "uxarray/core/dataarray.py"
DS = "uxarray/core/dataset.py"
GRIDLESS_OK = {"_construct_direct", "from_dataframe", "from_dict"}
FUNNELS = [
    (f"{DA}:UxDataArray._replace", "UxDataArray"),
    (f"{DA}:UxDataArray._copy", "UxDataArray"),
    (f"{DA}:UxDataArray.to_dataset", "UxDataset"),
    (f"{DS}:UxDataset._replace", "UxDataset"),
    (f"{DS}:UxDataset._copy", "UxDataset"),
    (f"{DS}:UxDataset._calculate_binary_op", "UxDataset"),
    (f"{DS}:UxDataset._construct_dataarray", "UxDataArray"),
    (f"{DS}:UxDataset.__getitem__", None),
    (f"{DS}:UxDataset.to_array", "UxDataArray"),
]


def _grid_expr(node):
    """True for self.uxgrid / self.uxgrid.copy() / self._uxgrid"""
    t = norm(node)
    return t in ("self.uxgrid", "self._uxgrid", "self.uxgrid.copy()", "copy.deepcopy(self.uxgrid)")


def _is_class_test(test):
    """isinstance(<x>, <Class>) tests (possibly negated) and tests on the `deep` flag of _copy are the only conditions a funnel may branch on"""
    if isinstance(test, ast.UnaryOp) and isinstance(test.op, ast.Not):
        return _is_class_test(test.operand)
    if isinstance(test, ast.Call) and isinstance(test.func, ast.Name) and test.func.id == "isinstance":
        return True
    if isinstance(test, ast.Name) and test.id == "deep":
        return True
    return False


def check_funnel(run, f, rule="F-PATH/funnel-attaches-grid"):
    fn = f.node
    paths = [p for p in enumerate_paths(fn.body) if p.exit == "return"]
    c = f"{f.key}:grid-on-every-return"
    if not paths:
        run.incomplete(rule, c, where(f), "no return path")
        return
    bad = []
    for p in paths:
        ret = p.ret
        attached = set()  # local names known to carry the grid on this path
        wrapped_only_if_class = True
        for e in p.events:
            if isinstance(e, ast.Assign) and len(e.targets) == 1:
                t, v = e.targets[0], e.value
                if isinstance(t, ast.Attribute) and t.attr in ("uxgrid", "_uxgrid") and isinstance(t.value, ast.Name) and _grid_expr(v):
                    attached.add(t.value.id)
                if isinstance(t, ast.Name):
                    if isinstance(v, ast.Call) and (dotted(v.func) or [""])[-1] in ("UxDataArray", "UxDataset") and any(k.arg == "uxgrid" and _grid_expr(k.value) for k in v.keywords):
                        attached.add(t.id)
                    elif t.id in attached:
                        attached.discard(t.id)  # rebound to something else
        ok = False
        if isinstance(ret, ast.Name) and ret.id in attached:
            ok = True
        if isinstance(ret, ast.Call) and (dotted(ret.func) or [""])[-1] in ("UxDataArray", "UxDataset") and any(k.arg == "uxgrid" and _grid_expr(k.value) for k in ret.keywords):
            ok = True
        # __getitem__: a value that is neither DataArray nor Dataset (a scalar) needs no grid: path facts say both isinstance tests are false
        if not ok and f.name == "__getitem__":
            facts = p.cond_facts()
            if facts and all(v is False for k, v in facts.items() if k.startswith("isinstance(")) and sum(1 for k in facts if k.startswith("isinstance(")) >= 2:
                ok = True
        other_conds = [norm(t) for t, v in p.conds if not _is_class_test(t)]
        if not ok:
            bad.append((p, f"a return path hands back {norm(ret) if ret is not None else 'None'} without the grid (conditions: {[norm(t) + '=' + str(v) for t, v in p.conds]})"))
        elif other_conds:
            # the grid is attached on this path, but whether this path is taken depends on something other than the class of the result
            pass
    # conditions other than class tests guarding an attachment: the complementary path must attach too (covered by `bad`)
    if bad:
        run.violation(rule, c, where(f, bad[0][0].events[-1] if bad[0][0].events else None), f"{len(bad)} of {len(paths)} return path(s): " + bad[0][1])
    else:
        run.holds(rule, c, where(f), f"the grid is attached on all {len(paths)} return paths")


def check(run):
    P = run.program
    run.explanation = (
        "F-SIG parses the installed xarray (site-packages, never imported) and compares every overriding method's positional parameters with the overridden one. "
        "Funnel rule: path enumeration of each overridden funnel; on every returning path the returned object is either constructed with uxgrid=self.uxgrid or had .uxgrid assigned from self.uxgrid "
        "(deep copy: self.uxgrid.copy()). Construction rule: every UxDataArray(...)/UxDataset(...) call in the package passes uxgrid=. Funnel coverage: apply_dataarray_vfunc of the installed xarray is parsed; "
        "if it builds DataArray(...) literally, every DataArray method whose returned value is the result of apply_ufunc (return-flow closure over xarray/core and xarray/computation, an under-approximation) "
        "loses the subclass unless UxDataArray overrides it. Value equality with plain xarray and the space of operation compositions are NOT decided."
    )
    run.rule_text = "F-SIG + F-PATH funnels + construction sites + ALIAS deep copy + xarray funnel coverage"
    run.assumptions = [
        "xarray builds results of most operations through _replace/_copy/_construct_direct of the receiving object (design of xarray's subclass support)",
        "the installed xarray under /venv is the one uxarray runs against",
    ]
    n = sig.check_overrides(run, P, f"{DA}:UxDataArray", "DataArray")
    n += sig.check_overrides(run, P, f"{DS}:UxDataset", "Dataset")
    run.floor("F-SIG/override-positional", n, 8)
    for key, _cls in FUNNELS:
        f = P.try_func(key)
        if f is None:
            run.incomplete("F-PATH/funnel-attaches-grid", f"{key}:present", "-", "overridden funnel not found: results built through it lose the grid")
            continue
        check_funnel(run, f)
    _constructions(run, P)
    _isel(run, P)
    _get_dual_dims(run, P)
    from ..rules import idxlint
    idxlint.check_sort_adjacency(run, P, ("uxarray/",))
    R = dataflow(P, run.tier)
    emit(run, R, {"ALIAS/internal-ds-shared"}, files=["uxarray/grid/grid.py"])
    _deep_copy(run, P)
    _funnel_coverage(run, P)


def _constructions(run, P):
    n = 0
    for f in P.all_functions():
        for c in ast.walk(f.node):
            if isinstance(c, ast.Call) and (dotted(c.func) or [""])[-1] in ("UxDataArray", "UxDataset"):
                n += 1
                key = f"{f.key}:construct:{(dotted(c.func) or [''])[-1]}@{norm(c)[:40]}"
                has = any(k.arg == "uxgrid" for k in c.keywords)
                if has:
                    gv = next(k.value for k in c.keywords if k.arg == "uxgrid")
                    if isinstance(gv, ast.Constant) and gv.value is None:
                        run.violation("F-PATH/constructed-with-grid", key, where(f, c), "constructed with uxgrid=None")
                    else:
                        run.holds("F-PATH/constructed-with-grid", key, where(f, c), f"uxgrid={norm(gv)}")
                elif f.name in GRIDLESS_OK:
                    run.holds("F-PATH/constructed-with-grid", key, where(f, c), "grid-less classmethod (named exception)", nontrivial=False)
                else:
                    run.violation("F-PATH/constructed-with-grid", key, where(f, c), f"{norm(c)[:70]} is built without uxgrid=: the result is detached from any grid")
    run.floor("F-PATH/constructed-with-grid", n, 18)
    # `cls(...)` in the grid-less constructors is fine; in any other method it would drop the grid
    for key in (f"{DA}:UxDataArray", f"{DS}:UxDataset"):
        ci = P.cls(key)
        for name, f in ci.methods.items():
            for c in ast.walk(f.node):
                if isinstance(c, ast.Call) and isinstance(c.func, ast.Name) and c.func.id == "cls" and name not in GRIDLESS_OK:
                    if not any(k.arg == "uxgrid" for k in c.keywords):
                        run.violation("F-PATH/constructed-with-grid", f"{f.key}:cls()", where(f, c), "cls(...) without uxgrid= outside the grid-less constructors")


def _isel(run, P):
    f = P.func(f"{DA}:UxDataArray.isel")
    c = f"{f.key}:grid-dim-routing"
    src = f.node
    routes = {}
    generic = False      # self.uxgrid.isel(**{d: kwargs[d]}) : dimension and indexer are the same expression, whatever d is
    unknown = []
    probs = []
    for n in ast.walk(src):
        if isinstance(n, ast.Call) and isinstance(n.func, ast.Attribute) and n.func.attr == "isel" and norm(n.func.value) == "self.uxgrid":
            for k in n.keywords:
                if k.arg is not None:
                    keys = [x.value for x in ast.walk(k.value) if isinstance(x, ast.Constant) and isinstance(x.value, str)]
                    routes[k.arg] = keys
                elif isinstance(k.value, ast.Dict) and len(k.value.keys) == 1 and k.value.keys[0] is not None:
                    dk, dv = k.value.keys[0], k.value.values[0]
                    if isinstance(dv, ast.Subscript) and norm(dv.value) == "kwargs" and norm(dv.slice) == norm(dk):
                        if isinstance(dk, ast.Constant):
                            routes[dk.value] = [dk.value]
                        else:
                            generic = True
                    elif isinstance(dk, ast.Constant) and isinstance(dv, ast.Subscript) and isinstance(dv.slice, ast.Constant):
                        routes[dk.value] = [dv.slice.value]
                    else:
                        unknown.append(norm(n)[:70])
                else:
                    unknown.append(norm(n)[:70])
            if n.args:
                unknown.append(norm(n)[:70])
    for d in ("n_node", "n_edge", "n_face"):
        if d in routes and routes[d] != [d]:
            probs.append(f"{d} is sliced on the grid with the indexer of {routes.get(d)}")
        elif d not in routes and not generic:
            (unknown if unknown else probs).append(f"no slicing of the grid along {d} found")
    uses = any(isinstance(n, ast.Call) and isinstance(n.func, ast.Attribute) and n.func.attr == "_slice_from_grid" for n in ast.walk(src))
    if not uses:
        probs.append("the data are not sliced from the sliced grid (_slice_from_grid)")
    # positional indexers merged with keyword indexers before the grid test
    merged = any(isinstance(n, ast.Call) and (dotted(n.func) or [""])[-1] == "either_dict_or_kwargs" for n in ast.walk(src))
    if not merged:
        probs.append("positional `indexers` are not merged with the keyword indexers: isel({'n_face': ...}) bypasses the grid")
    if probs:
        run.violation("F-PATH/isel-grid-dims", c, where(f), "; ".join(probs))
    elif unknown:
        run.incomplete("F-PATH/isel-grid-dims", c, where(f), "idiom not recognised: " + "; ".join(unknown))
    else:
        run.holds("F-PATH/isel-grid-dims", c, where(f), "indexers (positional or keyword) over a grid dimension slice the grid of that dimension and the data from the sliced grid")


def _get_dual_dims(run, P, partial_rule=True):
    for key in (f"{DA}:UxDataArray.get_dual", f"{DS}:UxDataset.get_dual"):
        f = P.func(key)
        c = f"{f.key}:dims-by-name"
        dm = None
        for st in iter_stmts(f.node.body):
            if isinstance(st, ast.Assign) and isinstance(st.targets[0], ast.Name) and isinstance(st.value, ast.Dict):
                try:
                    d = {k.value: v.value for k, v in zip(st.value.keys, st.value.values)}
                except AttributeError:
                    continue
                dm = (st.targets[0].id, d, st)
        positional = [st for st in iter_stmts(f.node.body) if isinstance(st, ast.Assign) and isinstance(st.targets[0], ast.Subscript) and norm(st.targets[0].value) == "dims"]
        if positional:
            run.violation("IDX/dual-dims", c, where(f, positional[0]), f"{norm(positional[0])}: the data are not moved, so the grid dimension must be renamed where it is (by name); assigning by position mislabels arrays whose grid dimension is not last")
            continue
        if dm is None:
            run.incomplete("IDX/dual-dims", c, where(f), "dimension map not found")
            continue
        name, d, st = dm
        invol = set(d) == {"n_face", "n_node"} and all(d.get(d[k]) == k for k in d) and d["n_face"] == "n_node"
        applied = any(isinstance(n, ast.ListComp) and any(isinstance(x, ast.Call) and isinstance(x.func, ast.Attribute) and x.func.attr == "get" and (norm(x.func.value) == name or norm(x.func.value) == norm(st.value)) for x in ast.walk(n)) for n in ast.walk(f.node))
        if invol and applied:
            run.holds("IDX/dual-dims", c, where(f, st), "every dimension renamed through the involution n_face <-> n_node")
        else:
            run.violation("IDX/dual-dims", c, where(f, st), f"dimension map {d} (applied by name: {applied}) is not the involution n_face <-> n_node")
        # partial grids: the dual has a face only for nodes with >= 3 faces, so node-centred data cannot be relabelled wholesale
        cp = f"{f.key}:partial-grid-node-data"
        part = [st2 for st2 in iter_stmts(f.node.body) if isinstance(st2, ast.If) and "hole_edge_indices" in norm(st2.test)]
        if not partial_rule:
            pass  # C18 promises the relabelling for closed grids only
        elif part:
            handled = any(isinstance(x, ast.Raise) for x in part[0].body) or any("n_node" in norm(x) and isinstance(x, (ast.If, ast.Assign)) for x in part[0].body)
            if handled:
                run.holds("IDX/dual-dims", cp, where(f, part[0]), "partial grids are rejected or their node-centred data restricted to the nodes that get a dual face")
            else:
                run.violation("IDX/dual-dims", cp, where(f, part[0]),
                              "on a partial grid (hole_edge_indices non-empty) the method only warns and then relabels ALL node values as n_face, while the dual grid has a face only for nodes with at least three faces: "
                              "the n_face dimension of the result differs from its grid's n_face")
        else:
            run.incomplete("IDX/dual-dims", cp, where(f), "partial-grid test (hole_edge_indices) not found")
        # the dual data array is attached to the dual grid
        cons = [n for n in ast.walk(f.node) if isinstance(n, ast.Call) and (dotted(n.func) or [""])[-1] == "UxDataArray"]
        c2 = f"{f.key}:dual-grid-attached"
        if cons and all(any(k.arg == "uxgrid" and norm(k.value) == "dual" for k in n.keywords) for n in cons):
            run.holds("IDX/dual-dims", c2, where(f, cons[0]), "relabelled data attached to the dual grid")
        else:
            run.violation("IDX/dual-dims", c2, where(f), "relabelled data are not attached to the dual grid")


def _deep_copy(run, P):
    for key in (f"{DA}:UxDataArray._copy", f"{DS}:UxDataset._copy"):
        f = P.func(key)
        c = f"{f.key}:deep-copy-grid"
        deep_branch = None
        negated = False

        def _deep_test(t):
            """(is a test of the deep flag, negated)"""
            if isinstance(t, ast.UnaryOp) and isinstance(t.op, ast.Not):
                ok_, neg_ = _deep_test(t.operand)
                return ok_, not neg_
            if isinstance(t, ast.Name) and t.id == "deep":
                return True, False
            if isinstance(t, ast.Call) and isinstance(t.func, ast.Attribute) and t.func.attr == "get" and t.args and str_const(t.args[0]) == "deep" and (len(t.args) == 1 or norm(t.args[1]) in ("None", "False")):
                return True, False
            return False, False
        for st in iter_stmts(f.node.body):
            if isinstance(st, ast.If):
                ok_, neg_ = _deep_test(st.test)
                if ok_:
                    deep_branch, negated = st, neg_
        if deep_branch is None:
            run.incomplete("ALIAS/deep-copy", c, where(f), "branch on `deep` not found")
            continue
        got = [norm(s.value) for s in (deep_branch.orelse if negated else deep_branch.body) if isinstance(s, ast.Assign)]
        if any(g in ("self.uxgrid.copy()", "copy.deepcopy(self.uxgrid)") for g in got):
            run.holds("ALIAS/deep-copy", c, where(f, deep_branch), "a deep copy receives a copy of the grid")
        else:
            run.violation("ALIAS/deep-copy", c, where(f, deep_branch), f"deep copy assigns {got}: the copy shares its grid with the original")


# ---------------------------------------------------------------------------------------------------------------- funnel coverage
def _parse(fn):
    with warnings.catch_warnings():
        warnings.simplefilter("ignore")
        return ast.parse(open(fn, encoding="utf-8").read())


def xarray_methods_returning_apply_ufunc():
    """(literal_dataarray: bool, {method: class}) for the installed xarray."""
    X = sig.find_xarray_dir()
    if X is None:
        return None
    mods = {}
    for fn in glob.glob(X + "/core/*.py") + glob.glob(X + "/computation/*.py"):
        try:
            mods[fn] = _parse(fn)
        except SyntaxError:
            continue
    funcs, classes = {}, {}
    for fn, t in mods.items():
        for st in t.body:
            if isinstance(st, ast.FunctionDef):
                funcs.setdefault(st.name, []).append(st)
            elif isinstance(st, ast.ClassDef):
                classes[st.name] = st
    if "DataArray" not in classes or "apply_dataarray_vfunc" not in funcs:
        return None
    literal = any(isinstance(n, ast.Call) and isinstance(n.func, ast.Name) and n.func.id == "DataArray" for n in ast.walk(funcs["apply_dataarray_vfunc"][0]))

    def mro(c, seen=None):
        seen = seen if seen is not None else []
        if c in seen or c not in classes:
            return seen
        seen.append(c)
        for b in classes[c].bases:
            n = b.id if isinstance(b, ast.Name) else b.attr if isinstance(b, ast.Attribute) else None
            if n:
                mro(n, seen)
        return seen
    order = mro("DataArray")
    methods = {}
    for cname in reversed(order):
        for st in classes[cname].body:
            if isinstance(st, ast.FunctionDef):
                methods[st.name] = (cname, st)

    def ret_calls(st):
        loc = {}
        for n in ast.walk(st):
            if isinstance(n, ast.Assign) and len(n.targets) == 1 and isinstance(n.targets[0], ast.Name) and isinstance(n.value, ast.Call):
                loc.setdefault(n.targets[0].id, []).append(n.value)
        out = set()
        for n in ast.walk(st):
            if isinstance(n, ast.Return) and n.value is not None:
                vals = [n.value]
                if isinstance(n.value, ast.Name):
                    vals = loc.get(n.value.id, [])
                for v in vals:
                    if isinstance(v, ast.Call):
                        fu = v.func
                        if isinstance(fu, ast.Name):
                            out.add(("f", fu.id))
                        elif isinstance(fu, ast.Attribute) and isinstance(fu.value, ast.Name):
                            out.add(("m" if fu.value.id == "self" else "f", fu.attr))
        return out
    RF, RM = {"apply_ufunc"}, {}
    changed = True
    while changed:
        changed = False
        for name, lst in funcs.items():
            if name not in RF and any(k == "f" and v in RF for st in lst for k, v in ret_calls(st)):
                RF.add(name)
                changed = True
        for name, (cname, st) in methods.items():
            if name not in RM and any((k == "f" and v in RF) or (k == "m" and v in RM) for k, v in ret_calls(st)):
                RM[name] = cname
                changed = True
    return literal, RM


def _funnel_coverage(run, P):
    res = xarray_methods_returning_apply_ufunc()
    if res is None:
        run.note("F-FUNNEL/apply-ufunc", "xarray:sources", "-", "installed xarray sources / apply_dataarray_vfunc not found: funnel coverage skipped")
        return
    literal, RM = res
    run.stats["xarray_methods_returning_apply_ufunc"] = sorted(RM)
    run.stats["apply_dataarray_vfunc_constructs_DataArray_literally"] = literal
    ci = P.cls(f"{DA}:UxDataArray")
    if not literal:
        run.holds("F-FUNNEL/apply-ufunc", "xarray:apply_dataarray_vfunc", "-", "apply_dataarray_vfunc does not construct DataArray literally")
        return
    for m, cname in sorted(RM.items()):
        c = f"xarray.DataArray.{m}"
        if m in ci.methods:
            run.holds("F-FUNNEL/apply-ufunc", c, where(ci.methods[m]), f"UxDataArray overrides {m}")
        else:
            run.violation("F-FUNNEL/apply-ufunc", c, f"{DA}:{ci.node.lineno}",
                          f"xarray.{cname}.{m} returns the result of apply_ufunc, whose apply_dataarray_vfunc constructs DataArray(...) literally; UxDataArray does not override {m}: "
                          "the result is a plain DataArray without a grid")
