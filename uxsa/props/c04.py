"""C04  Spherical and Cartesian coordinates always denote the same points.

Decided: no degree value reaches a radian sink (and vice versa) on any provenance branch of the coordinate
populators; lon/lat/x/y/z roles preserved through constructors and stores; derived longitudes stored under *_lon are
wrapped to [-180,180]; centres pass through normalisation and normalize=False conversions only receive unit-length input;
normalisation checks examine the coordinate family their guard names; lazy keys of the 15 coordinate getters.
ERROR_TOLERANCE (the pole-snap window) and MACHINE_EPSILON keep the pinned values (constants folded statically)."""

import ast

from ..astutil import iter_stmts, norm, where
from ..loader import dotted
from ..rules import guard, lazy
from ..rules.common import dataflow, emit

FILES = ["uxarray/grid/coordinates.py", "uxarray/grid/grid.py", "uxarray/grid/validation.py"]
COORDS = [f"{k}_{r}" for k in ("node", "edge", "face") for r in ("lon", "lat", "x", "y", "z")]


def _following_calls(body, call_node, name):
    """True if, in the statement list containing call_node, a later statement calls `name`."""
    def search(stmts):
        for i, st in enumerate(stmts):
            if any(n is call_node for n in ast.walk(st)):
                # directly in this list?  (not nested in a compound statement of this list)
                direct = not isinstance(st, (ast.If, ast.For, ast.While, ast.Try, ast.With)) or any(n is call_node for n in ast.walk(getattr(st, "test", ast.Pass())))
                if direct:
                    for later in stmts[i + 1:]:
                        for c in ast.walk(later):
                            if isinstance(c, ast.Call) and (dotted(c.func) or [""])[-1] == name:
                                return True
                    return False
                for fld in ("body", "orelse", "finalbody"):
                    sub = getattr(st, fld, None)
                    if sub:
                        r = search(sub)
                        if r is not None:
                            return r
        return None
    return bool(search(body))


def _accept_wrap_by_callers(run, P):
    from ..loader import FuncInfo
    from ..report import HOLDS, VIOLATION
    for o in run.obs:
        if o.rule != "RANGE/store-lon" or o.verdict != VIOLATION:
            continue
        fkey = o.construct.split(":store[")[0]
        target = P.try_func(fkey)
        if target is None:
            continue
        sites = []
        for f in P.all_functions():
            for c in ast.walk(f.node):
                if isinstance(c, ast.Call):
                    r = P.resolve_expr(f.module, c.func, f)
                    if isinstance(r, FuncInfo) and r.node is target.node:
                        sites.append((f, c))
        bad = [(f, c) for f, c in sites if not _following_calls(f.node.body, c, "_set_desired_longitude_range")]
        if sites and not bad:
            o.verdict = HOLDS
            o.detail = f"{target.qualname} stores the raw [0,360) longitude, but all {len(sites)} call sites wrap it with _set_desired_longitude_range right after populating"
        elif bad:
            o.detail += f"; and {bad[0][0].qualname} ({where(bad[0][0], bad[0][1])}) does not wrap the range after populating"


def check(run):
    P = run.program
    from ..rules import consts as _consts
    _consts.check(run, P)
    run.explanation = (
        "Abstract interpretation with unit (deg/rad), role (lon/lat/x/y/z), longitude-range and unit-length facets over "
        "coordinates.py/grid.py/validation.py and everything they call: Grid lon/lat variables are degrees by the schema, "
        "arctan2/arcsin and the *_rad helpers yield radians, deg2rad/rad2deg convert; a degree value reaching np.sin/cos/tan "
        "(directly or inside _lonlat_rad_to_xyz), a radian value stored under *_lon/*_lat, a value with role lat stored under "
        "*_lon (or x under *_y ...), a longitude that is the result of a modulo by a full turn stored under *_lon without the "
        "[-180,180] wrap, and a stored (possibly non-unit) *_x passed to a normalize=False conversion are definite violations. "
        "Numerical agreement to rounding and the 1e-8 pole snap are NOT decided."
    )
    run.rule_text = "F-UNIT (unit/role/range/unit-length) + F-PATH(normalise) + F-GUARD + F-LAZY"
    run.assumptions = [
        "Grid.<kind>_lon/_lat and _ds['<kind>_lon|lat'] hold degrees (schema attrs degrees_east/north)",
        "_normalize_xyz/_lonlat_rad_to_xyz return unit-length vectors (confirmed by reading)",
    ]
    R = dataflow(P, run.tier)
    rules = {"UNIT/deg->trig", "UNIT/double-conversion", "UNIT/store", "ROLE/store", "ROLE/unpack", "RANGE/store-lon", "UNIT/unit-length", "IDX/store-space"}
    ok, bad = emit(run, R, rules, files=FILES)
    run.floor("F-UNIT", ok + bad, 20)
    # a populate function may store the raw [0,360) longitude if EVERY caller wraps it right after populating
    _accept_wrap_by_callers(run, P)
    _same_value_two_units(run, P)
    _derived_from_existing(run, P)
    _mean_over_real_corners(run, P)
    _xyz_helpers(run, P)
    _repopulate_rewrites_both(run, P)
    # centres pass through _normalize_xyz on every return
    for fn in ("_construct_face_centroids", "_construct_edge_centroids"):
        f = P.func(f"uxarray/grid/coordinates.py:{fn}")
        rets = [r for r in ast.walk(f.node) if isinstance(r, ast.Return)]
        for i, r in enumerate(rets):
            c = f"{f.key}:return#{i}:normalised"
            v = r.value
            if isinstance(v, ast.Call) and (dotted(v.func) or [""])[-1] in ("_normalize_xyz",):
                args = [norm(a) for a in v.args]
                roles = [("x" in a.split("_")[-1], "y" in a.split("_")[-1], "z" in a.split("_")[-1]) for a in args]
                order_ok = len(args) == 3 and roles[0][0] and roles[1][1] and roles[2][2]
                if order_ok:
                    run.holds("F-PATH/centre-normalised", c, where(f, r), f"returns _normalize_xyz({', '.join(args)})")
                else:
                    run.violation("F-PATH/centre-normalised", c, where(f, r), f"_normalize_xyz called with {args}: x/y/z order not preserved")
            else:
                run.violation("F-PATH/centre-normalised", c, where(f, r), f"{fn} returns {norm(v)[:60]} without normalising: derived centres are not on the unit sphere")
        if not rets:
            run.incomplete("F-PATH/centre-normalised", f"{f.key}:return", where(f), "no return")
    n = guard.check_coordinate_family_guards(run, P, ["uxarray/grid/validation.py:_check_normalization", "uxarray/grid/grid.py:Grid.normalize_cartesian_coordinates"])
    run.floor("F-GUARD/coordinate-family", n, 6)
    n = lazy.check_getters(run, P, COORDS)
    run.floor("F-LAZY/getters", n, 15)
    lazy.check_no_overwrite(run, P, keys=set(COORDS), files=("uxarray/grid/coordinates.py",))
    _lon_normalisation(run, P)


RAD_SINKS = {"_lonlat_rad_to_xyz": (0, 1), "sin": (0,), "cos": (0,), "tan": (0,)}
CONVERTERS = {"deg2rad", "rad2deg", "radians", "degrees"}


def _same_value_two_units(run, P):
    """Belief contradiction that needs no unit inference: one local value is stored under a degree-valued schema
    variable (*_lon/*_lat) AND handed unconverted to a radian sink.  One of the two uses is wrong whatever the unit is."""
    from ..astutil import LocalDefs, str_const
    n = 0
    for f in P.all_functions():
        if f.module.relpath not in ("uxarray/grid/coordinates.py",):
            continue
        defs = LocalDefs(f.node)
        stored = {}  # local name -> store stmt (as data of a *_lon/*_lat variable)
        to_rad = {}
        for st in iter_stmts(f.node.body):
            if isinstance(st, ast.Assign) and isinstance(st.targets[0], ast.Subscript):
                key = str_const(st.targets[0].slice)
                if key and key.endswith(("_lon", "_lat")) and isinstance(st.value, ast.Call) and (dotted(st.value.func) or [""])[-1] == "DataArray":
                    data = st.value.args[0] if st.value.args else next((k.value for k in st.value.keywords if k.arg == "data"), None)
                    if isinstance(data, ast.Name):
                        stored[data.id] = (st, key)
            for c in ast.walk(st):
                if isinstance(c, ast.Call):
                    nm = (dotted(c.func) or [""])[-1]
                    if nm in RAD_SINKS:
                        for i in RAD_SINKS[nm]:
                            if i < len(c.args) and isinstance(c.args[i], ast.Name):
                                to_rad.setdefault(c.args[i].id, (c, nm))
        for name in sorted(set(stored) & set(to_rad)):
            converted = any(isinstance(c, ast.Call) and (dotted(c.func) or [""])[-1] in CONVERTERS for v, _i, _l in defs.defs.get(name, []) for c in ast.walk(v))
            if converted:
                continue
            n += 1
            st, key = stored[name]
            call, sink = to_rad[name]
            run.violation("UNIT/one-value-two-units", f"{f.key}:value[{name}]", where(f, call),
                          f"'{name}' is stored under {key} (degrees by the schema) and is also passed unconverted to {sink}(...) (radians): one of the two uses has the wrong unit")
    run.stats["one_value_two_units_candidates"] = n


def _tokens(expr, env):
    """coordinate variables an expression depends on (through locals of the path)"""
    import re
    out = set()
    for n in ast.walk(expr):
        if isinstance(n, ast.Attribute) and re.match(r"^(node|edge|face)_(lon|lat|x|y|z)$", n.attr):
            out.add(n.attr)
        elif isinstance(n, ast.Constant) and isinstance(n.value, str) and re.match(r"^(node|edge|face)_(lon|lat|x|y|z)$", n.value):
            out.add(n.value)
        elif isinstance(n, ast.Name) and n.id in env:
            out |= env[n.id]
    return out


def _stores_delegated(P, f):
    """names of package helpers called from f (as statements) that store into a grid's _ds themselves: the path rules below read the stores of f only"""
    from ..loader import FuncInfo
    from ..rules.lazy import all_ds_stores
    out = []
    for st in iter_stmts(f.node.body):
        if isinstance(st, ast.Expr) and isinstance(st.value, ast.Call):
            t = P.resolve_expr(f.module, st.value.func, f)
            if isinstance(t, FuncInfo) and t.node is not f.node and all_ds_stores(P, t, depth=1):
                out.append(t.name)
    return out


def _derived_from_existing(run, P):
    """When one representation of an element centre is already stored (e.g. face_lon/face_lat supplied by the file) and the
    other is being populated, the new one must be computed FROM the stored one: on every path where "<k>_lon" is present,
    "<k>_x" absent and repopulate is false, the value stored under <k>_x depends on <k>_lon (and vice versa)."""
    from ..astutil import assigned_names, str_const
    from ..flow import enumerate_paths
    n = 0
    for fname, kind_ in (("_populate_face_centroids", "face"), ("_populate_edge_centroids", "edge"), ("_populate_face_centerpoints", "face")):
        f = P.try_func(f"uxarray/grid/coordinates.py:{fname}")
        if f is None:
            run.incomplete("F-PATH/derived-from-stored", f"{fname}:present", "-", "populate function not found")
            continue
        # interprocedural constant: if every call site passes repopulate=True the 'keep what is stored' paths do not exist
        sites = [c_ for g in P.all_functions() for c_ in ast.walk(g.node) if isinstance(c_, ast.Call) and (dotted(c_.func) or [""])[-1] == fname]
        def _rep(c_):
            v = next((k.value for k in c_.keywords if k.arg == "repopulate"), c_.args[1] if len(c_.args) > 1 else None)
            return isinstance(v, ast.Constant) and v.value is True
        if sites and all(_rep(c_) for c_ in sites):
            run.note("F-PATH/derived-from-stored", f"{f.key}:always-repopulate", where(f), f"all {len(sites)} call site(s) pass repopulate=True: both representations are always rewritten together")
            continue
        lon_absent = f"'{kind_}_lon' not in grid._ds"
        x_absent = f"'{kind_}_x' not in grid._ds"
        for have, want, have_absent, want_absent in ((f"{kind_}_lon", f"{kind_}_x", lon_absent, x_absent), (f"{kind_}_x", f"{kind_}_lon", x_absent, lon_absent)):
            paths = enumerate_paths(f.node.body)
            rel = []
            for p in paths:
                facts = p.cond_facts()
                if facts.get(have_absent) is False and facts.get(want_absent) is True and facts.get("repopulate", False) is False:
                    rel.append(p)
            c = f"{f.key}:{want}-from-{have}"
            if not rel:
                # the function may not branch on this combination at all
                continue
            n += 1
            bad = None
            for p in rel:
                env = {}
                stored = None
                for e in p.events:
                    if isinstance(e, ast.Assign) and len(e.targets) == 1:
                        t = e.targets[0]
                        toks = _tokens(e.value, env)
                        if isinstance(t, ast.Subscript) and str_const(t.slice) == want:
                            stored = (toks, e)
                        for nm in assigned_names(t):
                            env[nm] = toks
                if stored is None:
                    bad = (p, f"{want} is not stored on a path where it is absent")
                    break
                if have not in stored[0] and not any(tk.startswith(kind_ + "_") and tk.split("_")[1] in (("lon", "lat") if have.endswith("lon") else ("x", "y", "z")) for tk in stored[0]):
                    bad = (p, f"with {have} already stored (e.g. supplied by the source file) and {want} absent, the value stored under {want} is computed from {sorted(stored[0])}, not from the stored {have}: the two representations of the same centre disagree")
                    break
            if bad and "is not stored on a path" in bad[1] and _stores_delegated(P, f):
                run.incomplete("F-PATH/derived-from-stored", c, where(f), f"{want} is stored by {_stores_delegated(P, f)}, a helper this path rule does not follow")
            elif bad:
                run.violation("F-PATH/derived-from-stored", c, where(f), bad[1])
            else:
                run.holds("F-PATH/derived-from-stored", c, where(f), f"on all {len(rel)} path(s) with {have} present and {want} absent, {want} is derived from {have}")
    run.floor("F-PATH/derived-from-stored", n, 3)


def _mean_over_real_corners(run, P):
    """A derived face centre is the normalised mean of the face's REAL corner vectors: every reduction over the corner
    axis must see exactly face_nodes[f, 0:n_nodes_per_face[f]] - not the padded row, nor a row whose padding was
    replaced by a repeated node (that biases the mean towards the repeated corner)."""
    from ..astutil import LocalDefs
    for fname in ("_construct_face_centroids", "_construct_face_centerpoints"):
        f = P.func(f"uxarray/grid/coordinates.py:{fname}")
        params = f.params()
        fn_param = next((p for p in params if p == "face_nodes"), None)
        cnt_param = next((p for p in params if p == "n_nodes_per_face"), None)
        c = f"{f.key}:corner-set"
        if fn_param is None or cnt_param is None:
            run.incomplete("IDX/real-corners", c, where(f), "parameters face_nodes / n_nodes_per_face not found")
            continue
        defs = LocalDefs(f.node)
        for n in ast.walk(f.node):
            if isinstance(n, ast.comprehension):
                defs._bind(n.target, n.iter, loop=True)
        # loop variables bound to the per-face count:  for f, n in enumerate(cnt)   |   group loops  for n in np.unique(cnt)  (rows selected by cnt == n)
        count_vars, group_vars = set(), set()
        for n in ast.walk(f.node):
            it = tg = None
            if isinstance(n, ast.For):
                it, tg = n.iter, n.target
            elif isinstance(n, ast.comprehension):
                it, tg = n.iter, n.target
            if it is not None and isinstance(it, ast.Call) and (dotted(it.func) or [""])[-1] == "enumerate" and it.args and norm(it.args[0]) == cnt_param and isinstance(tg, ast.Tuple) and len(tg.elts) == 2 and isinstance(tg.elts[1], ast.Name):
                count_vars.add(tg.elts[1].id)
            if it is not None and isinstance(it, ast.Call) and (dotted(it.func) or [""])[-1] == "unique" and len(it.args) == 1 and not it.keywords and norm(it.args[0]) == cnt_param and isinstance(tg, ast.Name):
                group_vars.add(tg.id)

        def rows_of_group(rowsel, gv):
            """the row selector is (derived from)  cnt == gv"""
            nodes, _ = defs.closure(rowsel)
            return any(isinstance(x, ast.Compare) and len(x.ops) == 1 and isinstance(x.ops[0], ast.Eq) and {norm(x.left), norm(x.comparators[0])} == {cnt_param, gv} for e in nodes for x in ast.walk(e))

        def classify(g_):
            """good | skip | open  for one read of the corner table"""
            if isinstance(g_, ast.Name):
                return "open"
            sl = g_.slice
            elts = sl.elts if isinstance(sl, ast.Tuple) else [sl]
            if len(elts) == 2 and isinstance(elts[1], ast.Slice) and elts[1].upper is not None and elts[1].step is None and (elts[1].lower is None or norm(elts[1].lower) == "0"):
                up = norm(elts[1].upper)
                if up in count_vars or up.startswith(cnt_param + "["):
                    return "good"
                if up in group_vars and rows_of_group(elts[0], up):
                    return "good"
            if isinstance(sl, ast.Constant):
                return "skip"
            return "open"

        gathers = [n for n in ast.walk(f.node) if isinstance(n, ast.Subscript) and isinstance(n.value, ast.Name) and n.value.id == fn_param and isinstance(n.ctx, ast.Load)]
        sub_ids = {id(g_.value) for g_ in gathers}
        shape_ids = {id(n.value) for n in ast.walk(f.node) if isinstance(n, ast.Attribute) and n.attr in ("shape", "dtype", "ndim") and isinstance(n.value, ast.Name)}
        bare = [n for n in ast.walk(f.node) if isinstance(n, ast.Name) and n.id == fn_param and isinstance(n.ctx, ast.Load) and id(n) not in sub_ids and id(n) not in shape_ids]
        reads = {id(g_): (g_, classify(g_)) for g_ in gathers + bare}
        good = sum(1 for _g, k in reads.values() if k == "good")
        opens = [g_ for g_, k in reads.values() if k == "open"]

        def filtered(v):
            """a value that keeps only the real entries of a row:  row[row != INT_FILL_VALUE]  /  row[:count]"""
            if isinstance(v, ast.Subscript):
                for x in ast.walk(v.slice):
                    if isinstance(x, ast.Compare) and isinstance(x.ops[0], ast.NotEq) and any(norm(y).endswith("INT_FILL_VALUE") for y in [x.left] + x.comparators):
                        return True
                # row[:count] where row is one row of the table
                if isinstance(v.slice, ast.Slice) and v.slice.upper is not None and v.slice.step is None and (v.slice.lower is None or norm(v.slice.lower) == "0") \
                        and (norm(v.slice.upper) in count_vars or norm(v.slice.upper).startswith(cnt_param + "[")) and isinstance(v.value, ast.Name):
                    rows = [d for (d, _i, _l) in defs.defs.get(v.value.id, [])]
                    if rows and all(isinstance(d, ast.Subscript) and norm(d.value) == fn_param and not isinstance(d.slice, (ast.Tuple, ast.Slice)) for d in rows):
                        return True
            return False

        def open_reads_behind(expr):
            """open reads of the corner table in the backward slice of expr, not looking through assignments that filter the real entries"""
            seen, out_, work = set(), [], [expr]

            def nodes_outside_filters(e):
                if filtered(e):
                    return
                yield e
                for ch in ast.iter_child_nodes(e):
                    yield from nodes_outside_filters(ch)
            while work:
                e = work.pop()
                for x in nodes_outside_filters(e):
                    if id(x) in reads and reads[id(x)][1] == "open":
                        out_.append(x)
                    if isinstance(x, ast.Name) and x.id not in seen:
                        seen.add(x.id)
                        work += [v for (v, _i, _l) in defs.defs.get(x.id, [])]
            return out_

        # definite counter-fact: a plain mean (np.mean / .mean() without where=) divides by the number of gathered entries; if the entries were gathered
        # through rows that are not restricted to the real corners, padding / repeated nodes are averaged in.  For the centre-point routine the consumer
        # is the enclosing-circle helper: every point handed to it counts.
        definite = None
        for n in ast.walk(f.node):
            if not isinstance(n, ast.Call):
                continue
            nm = (dotted(n.func) or [""])[-1]
            if nm == "mean" and not any(k.arg == "where" for k in n.keywords):
                arg = n.args[0] if (n.args and isinstance(n.func, ast.Attribute) and isinstance(n.func.value, ast.Name) and n.func.value.id == "np") else (n.func.value if isinstance(n.func, ast.Attribute) else None)
                if arg is not None:
                    o = open_reads_behind(arg)
                    if o:
                        definite = (o[0], f"np.mean over {norm(arg)[:50]}")
                        break
            elif nm.startswith("_") and nm not in ("_normalize_xyz",) and isinstance(n.func, ast.Name):
                for a_ in n.args:
                    o = open_reads_behind(a_)
                    if o:
                        definite = (o[0], f"{nm}({norm(a_)[:40]}...)")
                        break
                if definite:
                    break
        if definite:
            w, how = definite
            run.violation("IDX/real-corners", c, where(f, w), f"the corner table is read as {norm(w)[:60]} (not restricted to the first n_nodes_per_face[f] entries of the row) and reaches {how}: the centre of a face with fewer corners than the row width is computed over padding or repeated nodes")
        if not definite and opens:
            # a whole row bound to a local that is only ever used through a real-entries filter is as good as a restricted gather
            parent = {}
            for x in ast.walk(f.node):
                for ch in ast.iter_child_nodes(x):
                    parent[id(ch)] = x
            def under_filter(x):
                while id(x) in parent:
                    x = parent[id(x)]
                    if filtered(x):
                        return True
                return False
            still = []
            for g_ in opens:
                st_ = parent.get(id(g_))
                if isinstance(st_, ast.Assign) and st_.value is g_ and len(st_.targets) == 1 and isinstance(st_.targets[0], ast.Name):
                    r = st_.targets[0].id
                    uses = [x for x in ast.walk(f.node) if isinstance(x, ast.Name) and x.id == r and isinstance(x.ctx, ast.Load)]
                    if uses and all(under_filter(x) for x in uses) and len(defs.defs.get(r, [])) == 1:
                        good += 1
                        continue
                still.append(g_)
            opens = still
        if definite:
            pass
        elif opens:
            run.incomplete("IDX/real-corners", c, where(f, opens[0]), f"read of the corner table {norm(opens[0])[:60]} is neither restricted to the real corners nor seen to reach a plain mean: idiom not recognised")
        elif good:
            run.holds("IDX/real-corners", c, where(f, gathers[0]), f"corners gathered as {fn_param}[f, 0:n_nodes_per_face[f]] ({good} gather(s))")
        else:
            run.incomplete("IDX/real-corners", c, where(f), "no gather from the corner table recognised")


def _live_defs(P, relpath, prefix):
    """the live (last) definition of every module-level function whose name starts with prefix"""
    m = next(mm for mm in P.modules.values() if mm.relpath == relpath)
    return [f for f in m.all_funcs if f.name.startswith(prefix) and m.defs.get(f.name) is f]


def _divides_by_length(P, f, call, depth=0, seen=None):
    """the call is _normalize_xyz* / sqrt / norm, or a call of a package function that makes such a call on every... (any) path, two levels deep"""
    from ..loader import FuncInfo
    nm = (dotted(call.func) or [""])[-1]
    if nm.startswith("_normalize_xyz") or nm in ("sqrt", "norm"):
        return True
    if depth >= 2:
        return False
    t = P.resolve_expr(f.module, call.func, f)
    seen = seen or set()
    if isinstance(t, FuncInfo) and t.key not in seen:
        seen.add(t.key)
        return any(isinstance(n, ast.Call) and _divides_by_length(P, t, n, depth + 1, seen) for n in ast.walk(t.node))
    return False


def _xyz_helpers(run, P):
    """_xyz_to_lonlat_rad*: (1) when `normalize` is requested the components reach arcsin/arctan2 only after a division by the vector's
    LENGTH (_normalize_xyz*, or / sqrt(x*x+y*y+z*z)) - a division by the squared length alone is exact for unit input and wrong otherwise;
    (2) the pole snap is the absolute window |z| > 1 - ERROR_TOLERANCE: an isclose() without rtol=0 widens it to atol + 1e-5*|1| (0.26 degrees)."""
    from ..astutil import LocalDefs
    from ..flow import enumerate_paths
    for f in _live_defs(P, "uxarray/grid/coordinates.py", "_xyz_to_lonlat_rad"):
        has_norm_param = "normalize" in f.params()
        # ---- (1)
        if has_norm_param:
            c = f"{f.key}:normalised-by-length"
            paths = [p for p in enumerate_paths(f.node.body) if p.exit == "return"]
            bad = 0
            n_rel = 0
            for p in paths:
                if p.cond_facts().get("normalize") is not True:
                    continue
                n_rel += 1
                ok = False
                for e in p.events:
                    for n in ast.walk(e):
                        if isinstance(n, ast.Call) and _divides_by_length(P, f, n):
                            ok = True
                if not ok:
                    bad += 1
            if n_rel == 0:
                run.incomplete("F-PATH/normalise-by-length", c, where(f), "no path with normalize=True found")
            elif bad:
                run.violation("F-PATH/normalise-by-length", c, where(f), f"on {bad} path(s) with normalize=True the components are not divided by the vector's length (no _normalize_xyz*, no sqrt/norm): for input of length r != 1 the latitude becomes asin(z / r**2)")
            else:
                run.holds("F-PATH/normalise-by-length", c, where(f), f"normalize=True divides by the length on all {n_rel} path(s)")
        # ---- (2)
        c = f"{f.key}:pole-snap-window"
        mask = None
        from ..astutil import InterDefs
        host = f
        for g in InterDefs(P, f, depth=2).scope:
            for st in iter_stmts(g.node.body):
                if isinstance(st, ast.Assign) and isinstance(st.targets[0], ast.Name) and any(isinstance(n, ast.Call) and (dotted(n.func) or [""])[-1] in ("abs", "absolute", "fabs") for n in ast.walk(st.value)):
                    uses = [s2 for s2 in iter_stmts(g.node.body) if isinstance(s2, ast.Assign) and isinstance(s2.value, ast.Call) and (dotted(s2.value.func) or [""])[-1] == "where" and s2.value.args and norm(s2.value.args[0]) == st.targets[0].id]
                    if uses and mask is None:
                        mask = st
                        host = g
        if mask is None:
            run.incomplete("F-PATH/pole-snap", c, where(f), "pole mask not found")
            continue
        f_report, f = f, host
        v = mask.value
        ok = isinstance(v, ast.Compare) and len(v.ops) == 1 and isinstance(v.ops[0], (ast.Gt, ast.GtE)) and isinstance(v.comparators[0], ast.BinOp) and isinstance(v.comparators[0].op, ast.Sub) \
            and norm(v.comparators[0].left) in ("1.0", "1") and norm(v.comparators[0].right) in ("ERROR_TOLERANCE",)
        if ok:
            run.holds("F-PATH/pole-snap", c, where(f, mask), "pole snap only for |z| > 1 - ERROR_TOLERANCE (absolute window of 1e-8)")
        else:
            wide = any(isinstance(n, ast.Call) and (dotted(n.func) or [""])[-1] in ("isclose", "allclose") and not any(k.arg == "rtol" for k in n.keywords) for n in ast.walk(v))
            run.violation("F-PATH/pole-snap", c, where(f, mask), f"pole snap condition is {norm(v)[:80]}" + (": isclose without rtol adds the default relative tolerance 1e-5, so every point within 0.26 degrees of a pole is moved onto it" if wide else ": expected |z| > 1 - ERROR_TOLERANCE"))


def _repopulate_rewrites_both(run, P):
    """populate functions with a `repopulate` flag: when it is set, BOTH representations of the centre are rewritten on every path
    (otherwise the recomputed lon/lat and the stale x/y/z describe different points)"""
    from ..astutil import str_const
    from ..flow import enumerate_paths
    for fname, kind_ in (("_populate_face_centroids", "face"), ("_populate_edge_centroids", "edge"), ("_populate_face_centerpoints", "face")):
        f = P.try_func(f"uxarray/grid/coordinates.py:{fname}")
        if f is None or "repopulate" not in f.params():
            continue
        want = {f"{kind_}_{r}" for r in ("lon", "lat", "x", "y", "z")}
        paths = [p for p in enumerate_paths(f.node.body) if p.exit != "raise" and p.cond_facts().get("repopulate") is True]
        c = f"{f.key}:repopulate-rewrites-both"
        if not paths:
            run.incomplete("F-PATH/repopulate-both", c, where(f), "no path with repopulate=True")
            continue
        missing = None
        for p in paths:
            stored = {str_const(e.targets[0].slice) for e in p.events if isinstance(e, ast.Assign) and isinstance(e.targets[0], ast.Subscript) and str_const(e.targets[0].slice)}
            if not want <= stored:
                missing = sorted(want - stored)
                break
        if missing and _stores_delegated(P, f):
            run.incomplete("F-PATH/repopulate-both", c, where(f), f"{missing} are not stored by the function itself; stores are made by {_stores_delegated(P, f)}, which this path rule does not follow")
        elif missing:
            run.violation("F-PATH/repopulate-both", c, where(f), f"with repopulate=True a path rewrites only part of the centre: {missing} keep their old values while the other representation is recomputed")
        else:
            run.holds("F-PATH/repopulate-both", c, where(f), f"repopulate=True rewrites lon, lat, x, y, z on all {len(paths)} paths")


def _lon_normalisation(run, P):
    from ..flow import enumerate_paths
    # Grid.__init__ passes through the longitude normalisation on every non-raising path
    init = P.func("uxarray/grid/grid.py:Grid.__init__")
    paths = enumerate_paths(init.node.body)
    bad_paths = 0
    for p in paths:
        if p.exit == "raise":
            continue
        called = any(isinstance(c, ast.Call) and (dotted(c.func) or [""])[-1] == "_set_desired_longitude_range" for e in p.events for c in ast.walk(e))
        if not called:
            bad_paths += 1
    c = "Grid.__init__:must-pass:_set_desired_longitude_range"
    if bad_paths:
        run.violation("F-PATH/lon-normalised-at-construction", c, where(init), f"{bad_paths} non-raising path(s) through Grid.__init__ skip _set_desired_longitude_range: source longitudes in [0,360) are reported unwrapped")
    else:
        run.holds("F-PATH/lon-normalised-at-construction", c, where(init), f"all {len(paths)} paths call _set_desired_longitude_range")
    # the wrap itself: every *_lon variable is rewritten with (v+180)%360-180
    w = P.func("uxarray/grid/coordinates.py:_set_desired_longitude_range")
    names = set()
    wrap = False
    for n_ in ast.walk(w.node):
        if isinstance(n_, ast.Constant) and isinstance(n_.value, str) and n_.value.endswith("_lon"):
            names.add(n_.value)
        if isinstance(n_, ast.BinOp) and isinstance(n_.op, ast.Sub) and norm(n_.right) in ("180", "180.0") and isinstance(n_.left, ast.BinOp) and isinstance(n_.left.op, ast.Mod) and norm(n_.left.right) in ("360", "360.0"):
            wrap = True
    c = f"{w.key}:covers-all-lon"
    if {"node_lon", "edge_lon", "face_lon"} <= names and wrap:
        run.holds("F-PATH/lon-wrap", c, where(w), "node_lon, edge_lon, face_lon wrapped by (v+180)%360-180")
    elif any(isinstance(x, (ast.For, ast.While, ast.Call)) and not (isinstance(x, ast.Call) and isinstance(x.func, ast.Attribute)) for x in ast.walk(w.node)) and not ({"node_lon", "edge_lon", "face_lon"} <= names and not wrap and any(isinstance(x, ast.BinOp) and isinstance(x.op, ast.Mod) for x in ast.walk(w.node))):
        # names taken from a table the normaliser could not unroll, or the arithmetic done by a helper it could not inline
        run.incomplete("F-PATH/lon-wrap", c, where(w), f"longitude wrap: names found {sorted(names)}, wrap expression found: {wrap}; the function still contains a loop or a helper call that was not resolved")
    else:
        run.violation("F-PATH/lon-wrap", c, where(w), f"longitude wrap covers {sorted(names)} (wrap expression found: {wrap}); every *_lon variable must be wrapped to [-180,180]")
    # ... on EVERY path: a normally ending path must, for each of the three variables, either have found it absent, have found it within range, or have rewritten it.
    # (The loop over the three names is unrolled by the normaliser; locals standing for ds[name] are substituted.)
    from ..flow import sequential_reads
    c = f"{w.key}:each-lon-examined-on-every-path"
    try:
        body = sequential_reads(w.node)
        wpaths = [p for p in enumerate_paths(body.body) if p.exit in ("fall", "return")]
    except Exception as e:  # noqa: BLE001
        wpaths = None
        run.incomplete("F-PATH/lon-wrap", c, where(w), f"paths not enumerable: {e}")
    if wpaths is not None:
        dsn = w.params()[0]
        missing = None
        undecided = None
        for p in wpaths:
            for L in ("node_lon", "edge_lon", "face_lon"):
                key_txt = (f"'{L}'", f'"{L}"')
                absent = any((("not in" in norm(t)) == v) and any(k in norm(t) for k in key_txt) and f" in {dsn}" in norm(t) for t, v in p.conds)
                in_range = any(any(k in norm(t) for k in key_txt) and ("max" in norm(t) or "min" in norm(t) or ">" in norm(t) or "<" in norm(t)) and "in " + dsn not in norm(t) for t, v in p.conds)
                rewritten = any(isinstance(e, ast.Assign) and any(k in norm(e.targets[0]) for k in key_txt) and "% 360" in norm(e.value) for e in p.events)
                mentioned = any(any(k in norm(t) for k in key_txt) for t, _v in p.conds) or any(any(k in norm(e) for k in key_txt) for e in p.events if isinstance(e, ast.AST))
                if not (absent or in_range or rewritten):
                    if mentioned:
                        undecided = undecided or (p, L)
                    else:
                        missing = missing or (p, L)
        if missing:
            p, L = missing
            conds = [f"{norm(t)[:50]} is {v}" for t, v in p.conds][:4]
            run.violation("F-PATH/lon-wrap", c, where(w), f"a path ends without ever looking at {L} (taken when {conds}): an early exit for one variable skips the others, so a grid whose "
                          f"node longitudes are within range keeps {L} in [0, 360)")
        elif undecided:
            run.incomplete("F-PATH/lon-wrap", c, where(w), f"how {undecided[1]} is handled on some path is not understood")
        else:
            run.holds("F-PATH/lon-wrap", c, where(w), f"on all {len(wpaths)} paths each of node_lon, edge_lon, face_lon is found absent, found within range, or rewritten")

