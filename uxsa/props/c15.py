"""C15  Exported polygons and lines correspond one-to-one with faces.

Decided: memo keys and atomic side tables of the three conversions (F-CACHE); every return of to_polycollection/to_linecollection hands out a copy of whatever is (or was just) stored in the cache;
UxDataArray conversions add their data to a copy; the NaN filter is reduced over all trailing axes in both sibling builders and its indices - which run over 'faces without the antimeridian faces' - are only
applied to arrays over that same derived space; polygons, face-index maps and data are filtered by the same index sequences per periodic_elements option; the antimeridian predicate is |dlon| >= 180 between
consecutive vertices of the UNPROJECTED shells; both shell builds of a conversion receive the same longitude shift; shells are closed and padded before gathering.
no any()/all() on an array of element indices (index 0 is not "none"); the GeoDataFrame path lets antimeridian.fix_polygon repair the winding.
n_nodes_per_face (where the shells are closed) is stored without a narrowing cast.
no hand-written period wrap that handles one side only is applied to a sum/difference of angles, e.g. longitude minus central longitude (WRAP/one-sided-period, contradiction rule over the whole package)."""

import ast

from ..astutil import LocalDefs, iter_stmts, norm, str_const, where
from ..loader import dotted
from ..rules import cache

GEO = "uxarray/grid/geometry.py"
GRID = "uxarray/grid/grid.py"
DA = "uxarray/core/dataarray.py"
SLOTS = {"_gdf_cached_parameters", "_poly_collection_cached_parameters", "_line_collection_cached_parameters"}


def check(run):
    P = run.program
    run.explanation = (
        "F-CACHE as in C08 for the three conversions. ALIAS: in Grid.to_polycollection/to_linecollection every returned expression that is the cache slot's primary value, or a local that is stored into that slot, "
        "must be wrapped in copy.deepcopy (also on the build path: the object just cached must not be handed out). Derived index spaces: non_nan_polygon_indices is np.where(mask)[0] with the mask taken over "
        "np.delete(shells, antimeridian_face_indices, axis=0), i.e. over 'faces minus antimeridian faces'; a subscript with these indices is accepted only on an array that is itself such an np.delete result (def-use on the path) "
        "or under periodic_elements == 'exclude'. Sibling agreement: reduction axes of the NaN mask, keyword arguments of the two _build_polygon_shells calls, filtering of shells / face map / data. "
        "Polygon vertex values, the antimeridian package's split coverage and projections are NOT decided."
    )
    run.rule_text = "F-CACHE + ALIAS-3 + IDX derived spaces + sibling cross-checks"
    run.assumptions = ["np.delete(X, idx, axis=0) removes rows idx; np.where(mask)[0] over a 1-D mask lists positions in the masked array's own numbering"]
    cache.check_collection_memo(run, P, "to_geodataframe", "_gdf_cached_parameters", "gdf", "_grid_to_polygon_geodataframe")
    cache.check_collection_memo(run, P, "to_polycollection", "_poly_collection_cached_parameters", "poly_collection", "_grid_to_matplotlib_polycollection")
    cache.check_collection_memo(run, P, "to_linecollection", "_line_collection_cached_parameters", "line_collection", "_grid_to_matplotlib_linecollection")
    cache.check_side_tables(run, P, SLOTS)
    cache.check_slot_readers(run, P)
    cache.check_side_tables_total(run, P, SLOTS)
    _copies(run, P)
    _nan_filter(run, P)
    _antimeridian(run, P)
    from ..rules import idxlint
    idxlint.check(run, P, ("uxarray/grid/", "uxarray/core/", "uxarray/subset/", "uxarray/cross_sections/", "uxarray/remap/", "uxarray/plot/", "uxarray/io/"))
    from ..rules import wrap
    wrap.check(run, P, ("uxarray/",))
    _winding(run, P)
    # shells are closed at column n_nodes_per_face[i]: the counts must not be stored in a narrow integer type
    from ..rules import dtype as _dtw
    _dtw.check_no_narrow_index_dtype(run, P, ("uxarray/grid/connectivity.py",))
    _shell_builds(run, P)
    _data_paths(run, P)


# ---------------------------------------------------------------------------------------------------------------- copies
def _copies(run, P):
    for method, slot, primary in (("to_polycollection", "_poly_collection_cached_parameters", "poly_collection"), ("to_linecollection", "_line_collection_cached_parameters", "line_collection")):
        f = P.func(f"{GRID}:Grid.{method}")
        stored_locals = set()
        for st in iter_stmts(f.node.body):
            if isinstance(st, ast.Assign) and isinstance(st.targets[0], ast.Subscript) and isinstance(st.targets[0].value, ast.Attribute) and st.targets[0].value.attr == slot and str_const(st.targets[0].slice) == primary and isinstance(st.value, ast.Name):
                stored_locals.add(st.value.id)
        n = 0
        for r in ast.walk(f.node):
            if not isinstance(r, ast.Return) or r.value is None:
                continue
            elems = r.value.elts if isinstance(r.value, ast.Tuple) else [r.value]
            first = elems[0]
            n += 1
            c = f"Grid.{method}:return#{n}:copy"
            def is_cached(e):
                if isinstance(e, ast.Name) and e.id in stored_locals:
                    return True
                return isinstance(e, ast.Subscript) and isinstance(e.value, ast.Attribute) and e.value.attr == slot and str_const(e.slice) == primary
            if is_cached(first):
                run.violation("ALIAS/cache-returned", c, where(f, r), f"{norm(first)[:70]} is (or has just been stored as) the cached {primary} and is returned without a copy: the caller's set_array/styling changes what later conversions return")
            elif isinstance(first, ast.Call) and (dotted(first.func) or [""])[-1] in ("deepcopy", "copy") and first.args and is_cached(first.args[0]):
                run.holds("ALIAS/cache-returned", c, where(f, r), "a copy of the cached object is returned")
            else:
                run.holds("ALIAS/cache-returned", c, where(f, r), f"returns {norm(first)[:50]}", nontrivial=False)
        run.floor(f"ALIAS/cache-returned@{method}", n, 2)
    # data conversions write into a copy
    f = P.func(f"{DA}:UxDataArray.to_geodataframe")
    c = f"{f.key}:column-added-to-copy"
    assigns = [st for st in iter_stmts(f.node.body) if isinstance(st, ast.Assign) and isinstance(st.targets[0], ast.Subscript) and norm(st.targets[0].value) == "gdf"]
    if not assigns:
        run.incomplete("ALIAS/cache-mutated", c, where(f), "data column assignment not found")
    else:
        copied = False
        for st in iter_stmts(f.node.body):
            if st is assigns[0]:
                break
            if isinstance(st, ast.Assign) and norm(st.targets[0]) == "gdf" and isinstance(st.value, ast.Call) and isinstance(st.value.func, ast.Attribute) and st.value.func.attr in ("copy",) and norm(st.value.func.value) == "gdf":
                # must be unconditional (same statement list as the column store)
                copied = True
        from .c03 import _guards_of
        if copied:
            g_copy = None
            for st in iter_stmts(f.node.body):
                if isinstance(st, ast.Assign) and norm(st.targets[0]) == "gdf" and isinstance(st.value, ast.Call) and isinstance(st.value.func, ast.Attribute) and st.value.func.attr == "copy":
                    g_copy = _guards_of(f.node.body, st)
            g_store = _guards_of(f.node.body, assigns[0])
            if g_copy is not None and g_store is not None and len(g_copy) > len(g_store):
                copied = False
        if copied:
            run.holds("ALIAS/cache-mutated", c, where(f, assigns[0]), "the data column is added to a copy of the grid's GeoDataFrame")
        else:
            run.violation("ALIAS/cache-mutated", c, where(f, assigns[0]), "the data column is written into the GeoDataFrame handed out by the grid, which may be its cached object (whatever the `cache` flag of this call): every other conversion then shows the column")


# ---------------------------------------------------------------------------------------------------------------- NaN filter
def _nan_filter(run, P):
    info = {}
    for fname in ("_grid_to_polygon_geodataframe", "_grid_to_matplotlib_polycollection"):
        f = P.func(f"{GEO}:{fname}")
        defs = LocalDefs(f.node)
        # mask reduction
        red = None
        for n in ast.walk(f.node):
            if isinstance(n, ast.Call) and isinstance(n.func, ast.Attribute) and n.func.attr == "any" and isinstance(n.func.value, ast.Call) and (dotted(n.func.value.func) or [""])[-1] == "isnan":
                axis = next((k.value for k in n.keywords if k.arg == "axis"), None)
                red = (n, norm(axis) if axis is not None else None, norm(n.func.value.args[0]))
        c = f"{f.key}:nan-mask-axes"
        if red is None:
            run.incomplete("IDX/nan-filter", c, where(f), "NaN mask not found")
            continue
        n, axis, arr = red
        info[fname] = axis
        if axis in ("(1, 2)", "(-2, -1)", "(2, 1)"):
            run.holds("IDX/nan-filter", c, where(f, n), f"a polygon is dropped when any coordinate of any vertex is NaN (axis={axis}): one boolean per polygon")
        else:
            run.violation("IDX/nan-filter", c, where(f, n), f"NaN mask reduced with axis={axis} over the rank-3 shell array: the mask keeps a trailing axis, np.where(mask)[0] then repeats polygon indices")
        # the masked array is np.delete(projected shells, antimeridian_face_indices, axis=0)
        c = f"{f.key}:nan-mask-space"
        srcs = defs.defs.get(arr, [])
        ok = any(isinstance(v, ast.Call) and (dotted(v.func) or [""])[-1] == "delete" and len(v.args) >= 2 and norm(v.args[1]) == "antimeridian_face_indices" for v, _i, _l in srcs)
        if ok:
            run.holds("IDX/nan-filter", c, where(f, n), "mask taken over the projected shells without the antimeridian faces")
        else:
            run.incomplete("IDX/nan-filter", c, where(f, n), f"space of the masked array {arr} not recognised")
        # uses of the indices as a subscript inside the builder
        for sub in ast.walk(f.node):
            if isinstance(sub, ast.Subscript) and norm(sub.slice) == "non_nan_polygon_indices" and isinstance(sub.ctx, ast.Load):
                base = norm(sub.value)
                cu = f"{f.key}:non-nan-applied-to[{base}]"
                bsrc = defs.defs.get(base, [])
                derived = any(isinstance(v, ast.Call) and (dotted(v.func) or [""])[-1] == "delete" and len(v.args) >= 2 and norm(v.args[1]) == "antimeridian_face_indices" for v, _i, _l in bsrc)
                if derived:
                    run.holds("IDX/nan-filter", cu, where(f, sub), f"{base} runs over the faces without the antimeridian faces, like the indices")
                else:
                    run.violation("IDX/nan-filter", cu, where(f, sub), f"{base} is indexed with non_nan_polygon_indices, which number the faces WITHOUT the antimeridian faces, but {base} is not such an array")
    if len(set(info.values())) > 1:
        run.violation("IDX/nan-filter", "siblings:nan-mask-axes", GEO, f"the GeoDataFrame and PolyCollection builders reduce the NaN mask differently: {info}")
    # PolyCollection 'exclude': polygons and the face-index map are filtered alike
    f = P.func(f"{GEO}:_grid_to_matplotlib_polycollection")
    c = f"{f.key}:face-map-follows-polygons"
    br = None
    for st in iter_stmts(f.node.body):
        if isinstance(st, ast.If) and isinstance(st.test, ast.Compare) and norm(st.test.left) == "periodic_elements" and str_const(st.test.comparators[0]) == "exclude":
            br = st
    if br is None:
        run.incomplete("IDX/nan-filter", c, where(f), "'exclude' branch not found")
    else:
        shells_f = any(isinstance(n, ast.Subscript) and norm(n.slice) == "non_nan_polygon_indices" and "shell" in norm(n.value) for s in br.body for n in ast.walk(s))
        map_f = any(isinstance(n, ast.Subscript) and norm(n.slice) == "non_nan_polygon_indices" and norm(n.value) == "corrected_to_original_faces" for s in br.body for n in ast.walk(s))
        if shells_f and not map_f:
            run.violation("IDX/nan-filter", c, where(f, br), "the polygons are filtered by non_nan_polygon_indices but corrected_to_original_faces is not: polygon i no longer corresponds to entry i of the face map")
        elif shells_f and map_f:
            run.holds("IDX/nan-filter", c, where(f, br), "polygons and face map filtered by the same indices")
        else:
            run.holds("IDX/nan-filter", c, where(f, br), "no NaN filter applied in this branch", nontrivial=False)
    # Grid.to_geodataframe: the filter is applied to the frame returned for ANY periodic_elements
    f = P.func(f"{GRID}:Grid.to_geodataframe")
    from .c03 import _guards_of
    for sub in ast.walk(f.node):
        if isinstance(sub, ast.Subscript) and norm(sub.slice) == "non_nan_polygon_indices" and isinstance(sub.ctx, ast.Load):
            st = [s for s in iter_stmts(f.node.body) if any(n is sub for n in ast.walk(s))][-1]
            g = _guards_of(f.node.body, st) or []
            under_exclude = any(t and isinstance(te, ast.Compare) and norm(te.left) == "periodic_elements" and str_const(te.comparators[0]) == "exclude" for te, t in g) or \
                any(t and any(isinstance(x, ast.Compare) and norm(x.left) == "periodic_elements" and str_const(x.comparators[0]) == "exclude" for x in ast.walk(te)) for te, t in g)
            c = f"{f.key}:non-nan-applied-to[{norm(sub.value)}]"
            if under_exclude:
                run.holds("IDX/nan-filter", c, where(f, sub), "filter applied only for periodic_elements='exclude', where the frame runs over the faces without the antimeridian faces")
            else:
                run.violation("IDX/nan-filter", c, where(f, sub), f"{norm(sub)[:70]}: the indices number the faces WITHOUT the antimeridian faces, but for periodic_elements='ignore' the frame has one row per face and for 'split' one per piece: "
                              "rows of the wrong faces are kept whenever a projection hides faces and an antimeridian face precedes them")


# ---------------------------------------------------------------------------------------------------------------- antimeridian predicate
def _antimeridian(run, P):
    f = P.func(f"{GEO}:_build_antimeridian_face_indices")
    p0 = f.params()[0]
    defs = LocalDefs(f.node)
    c = f"{f.key}:predicate"
    cmp_ = None
    for n in ast.walk(f.node):
        if isinstance(n, ast.Compare) and len(n.ops) == 1 and isinstance(n.comparators[0], ast.Constant) and n.comparators[0].value in (180, 180.0):
            cmp_ = n
    if cmp_ is None:
        run.violation("IDX/antimeridian-predicate", c, where(f), "no comparison with 180 degrees found")
    else:
        nodes, _ = defs.closure(cmp_.left)
        has_abs = any(isinstance(n, ast.Call) and (dotted(n.func) or [""])[-1] in ("abs", "absolute") for e in nodes for n in ast.walk(e))
        has_diff = any(isinstance(n, ast.Call) and (dotted(n.func) or [""])[-1] == "diff" and norm(n.args[0]) == p0 for e in nodes for n in ast.walk(e))
        ge = isinstance(cmp_.ops[0], ast.GtE)
        if has_abs and has_diff and ge:
            run.holds("IDX/antimeridian-predicate", c, where(f, cmp_), "|difference of consecutive shell longitudes| >= 180")
        else:
            run.violation("IDX/antimeridian-predicate", c, where(f, cmp_), f"antimeridian faces are those with an edge spanning AT LEAST 180 degrees: abs={has_abs}, consecutive difference={has_diff}, operator >= : {ge}")
    # callers pass the longitude column of the UNPROJECTED shells
    for fname in ("_grid_to_polygon_geodataframe", "_grid_to_matplotlib_polycollection"):
        g = P.func(f"{GEO}:{fname}")
        call = next((n for n in ast.walk(g.node) if isinstance(n, ast.Call) and (dotted(n.func) or [""])[-1] == "_build_antimeridian_face_indices"), None)
        c = f"{g.key}:antimeridian-on-unprojected"
        if call is None:
            run.incomplete("IDX/antimeridian-predicate", c, where(g), "call not found")
            continue
        a = call.args[0]
        from ..rules.shape import subscript_axes
        ok = isinstance(a, ast.Subscript) and norm(a.value) == "polygon_shells" and subscript_axes(a) == [("all",), ("all",), ("idx", 0)]
        if ok:
            run.holds("IDX/antimeridian-predicate", c, where(g, call), "predicate evaluated on the longitudes (column 0) of the unprojected shells")
        else:
            run.violation("IDX/antimeridian-predicate", c, where(g, call), f"predicate evaluated on {norm(a)}: it must see the longitudes of the unprojected shells (polygon_shells[:, :, 0])")


def _winding(run, P):
    """The GeoDataFrame path corrects only the faces flagged as crossing; for those antimeridian.fix_polygon must be allowed to repair the winding: with
    fix_winding=False a clockwise face is read as the COMPLEMENT of the face ("a counterclockwise polygon from (-180,-90) to (180,90) is added", antimeridian's
    documentation), so a piece spanning the whole map is returned for a clockwise face.  (The PolyCollection path passes every face through fix_polygon and
    deliberately keeps fix_winding=False; it is not subject to this rule.)"""
    from ..loader import FuncInfo
    f = P.func(f"{GEO}:_build_corrected_shapely_polygons")
    c = f"{f.key}:fix_polygon:winding"
    # calls of fix_polygon in f or in module-level helpers it calls, with the bindings of the helper's parameters at the call site
    found = []

    def scan(g, bind, depth):
        for n in ast.walk(g.node):
            if not isinstance(n, ast.Call):
                continue
            if (dotted(n.func) or [""])[-1] == "fix_polygon":
                found.append((g, n, bind))
            elif depth < 2:
                r = P.resolve_expr(g.module, n.func, g)
                if isinstance(r, FuncInfo) and r.module is f.module and r.cls is None and r is not g:
                    a_ = r.node.args
                    prm = [x.arg for x in a_.posonlyargs + a_.args]
                    b = dict(zip(prm, n.args))
                    b.update({k.arg: k.value for k in n.keywords if k.arg})
                    dflt = dict(zip(prm[len(prm) - len(a_.defaults):], a_.defaults))
                    dflt.update({x.arg: d for x, d in zip(a_.kwonlyargs, a_.kw_defaults) if d is not None})
                    for k_, v_ in dflt.items():
                        b.setdefault(k_, v_)
                    scan(r, b, depth + 1)
    scan(f, {}, 0)
    if not found:
        run.incomplete("F-ARGS/fix-winding", c, where(f), "no call of antimeridian.fix_polygon reached from _build_corrected_shapely_polygons: how crossing faces are split is not recognised")
        return
    for g, call, bind in found:
        kwv = next((k.value for k in call.keywords if k.arg == "fix_winding"), None)
        if any(k.arg is None for k in call.keywords):
            run.incomplete("F-ARGS/fix-winding", c, where(g, call), "fix_polygon called with **kwargs: fix_winding not decided")
            continue
        seen = 0
        while isinstance(kwv, ast.Name) and kwv.id in bind and seen < 3:
            kwv = bind[kwv.id]
            seen += 1
        if kwv is None or (isinstance(kwv, ast.Constant) and kwv.value in (True, None)):
            run.holds("F-ARGS/fix-winding", c, where(g, call), "crossing faces are split with the winding repaired (fix_winding left at its default / True)")
        elif isinstance(kwv, ast.Constant) and kwv.value is False:
            run.violation("F-ARGS/fix-winding", c, where(g, call), "the GeoDataFrame path splits crossing faces with fix_winding=False: a clockwise face is taken for its complement and a piece spanning the whole longitude range is exported for it")
        else:
            run.incomplete("F-ARGS/fix-winding", c, where(g, call), f"fix_winding={norm(kwv)} is not a constant this rule can evaluate")


# ---------------------------------------------------------------------------------------------------------------- shell builds
def _shell_builds(run, P):
    for fname in ("_grid_to_polygon_geodataframe", "_grid_to_matplotlib_polycollection"):
        g = P.func(f"{GEO}:{fname}")
        calls = [n for n in ast.walk(g.node) if isinstance(n, ast.Call) and (dotted(n.func) or [""])[-1] == "_build_polygon_shells"]
        c = f"{g.key}:shell-builds-agree"
        if len(calls) < 2:
            run.incomplete("IDX/shell-builds", c, where(g), f"{len(calls)} shell build(s) found, expected the unprojected and the projected one")
            continue
        callee_params = P.func(f"{GEO}:_build_polygon_shells").params()

        def sig_(cl):
            # bound by the callee's parameters: the first six (nodes, connectivity, counts) are compared as "positional", the rest by name, however they were passed
            b = dict(zip(callee_params, [norm(a) for a in cl.args]))
            b.update({k.arg: norm(k.value) for k in cl.keywords if k.arg})
            pos = [b.get(p_) for p_ in callee_params[:6] if p_ in b]
            kw = {p_: v for p_, v in b.items() if p_ not in callee_params[:6]}
            return pos, kw
        (p1, k1), (p2, k2) = sig_(calls[0]), sig_(calls[1])
        probs = []
        if p1 != p2:
            probs.append(f"positional arguments differ: {p1} vs {p2}")
        for key in sorted(set(k1) | set(k2)):
            if key == "projection":
                continue
            if k1.get(key) != k2.get(key):
                probs.append(f"{key}={k1.get(key)} in one build and {key}={k2.get(key)} in the other: the projected polygons are built from longitudes shifted differently from the ones the antimeridian test and the unprojected shells use")
        if k1.get("projection") not in ("None",) or k2.get("projection") != "projection":
            probs.append(f"projection arguments are {k1.get('projection')} / {k2.get('projection')} (expected None and the requested projection)")
        want_pos = ["node_lon", "node_lat", "grid.face_node_connectivity.values", "grid.n_face", "grid.n_max_face_nodes", "grid.n_nodes_per_face.values"]
        if p1 != want_pos:
            probs.append(f"shells built from {p1}")
        if probs:
            run.violation("IDX/shell-builds", c, where(g, calls[1]), "; ".join(probs))
        else:
            run.holds("IDX/shell-builds", c, where(g, calls[0]), "projected and unprojected shells built from the same nodes, connectivity and central longitude")
    # closing/padding before the gather
    f = P.func(f"{GEO}:_build_polygon_shells")
    c = f"{f.key}:closed-before-gather"
    pad = next((n for n in ast.walk(f.node) if isinstance(n, ast.Call) and (dotted(n.func) or [""])[-1] in ("_pad_closed_face_nodes", "close_face_nodes")), None)
    gathers = [n for n in ast.walk(f.node) if isinstance(n, ast.Subscript) and norm(n.value) in ("node_lon", "node_lat") and isinstance(n.slice, ast.Name)]
    defs = LocalDefs(f.node)
    ok = pad is not None and gathers and all(any(isinstance(v, ast.Call) and (dotted(v.func) or [""])[-1] in ("_pad_closed_face_nodes", "close_face_nodes") for v, _i, _l in defs.defs.get(norm(gt.slice), [])) for gt in gathers)
    if ok:
        run.holds("IDX/fill-safety", c, where(f, pad), "node coordinates gathered through the closed and padded connectivity (no fill value used as an index)")
    else:
        run.violation("IDX/fill-safety", c, where(f), "node coordinates are gathered through a connectivity that may contain INT_FILL_VALUE")
    lonlat = [norm(gt.value) for gt in gathers]
    c = f"{f.key}:lon-lat-order"
    if lonlat[:2] == ["node_lon", "node_lat"]:
        run.holds("F-UNIT/shell-roles", c, where(f, gathers[0]), "shell vertices are (lon, lat)")
    else:
        run.violation("F-UNIT/shell-roles", c, where(f), f"shell vertex components are {lonlat}")


# ---------------------------------------------------------------------------------------------------------------- data paths
def _data_paths(run, P):
    for method, slot in (("to_geodataframe", "_gdf_cached_parameters"), ("to_polycollection", "_poly_collection_cached_parameters")):
        f = P.func(f"{DA}:UxDataArray.{method}")
        # exclude: np.delete(values, <slot>["antimeridian_face_indices"], axis=0)
        c = f"{f.key}:exclude-drops-antimeridian-faces"
        dele = [n for n in ast.walk(f.node) if isinstance(n, ast.Call) and (dotted(n.func) or [""])[-1] == "delete"]
        ok = False
        seen_other = []
        ldefs = LocalDefs(f.node)
        for d in dele:
            if len(d.args) < 2:
                continue
            # the index argument, looked at through local definitions (side tables may be read into locals first)
            nodes, _names = ldefs.closure(d.args[1])
            from_slot = any(isinstance(x, ast.Subscript) and str_const(x.slice) == "antimeridian_face_indices" and slot in norm(x.value) for e in nodes for x in ast.walk(e))
            # the array the rows are deleted from: self.values, possibly through a local that was bound to it and not changed since
            a0 = d.args[0]
            if isinstance(a0, ast.Name):
                prior = [v for (v, _i, _l) in ldefs.defs.get(a0.id, []) if getattr(v, "lineno", 0) < d.lineno and not any(x is d for x in ast.walk(v))]
                if prior and all(norm(v) == "self.values" for v in prior):
                    a0 = prior[0]
            if norm(a0) == "self.values" and from_slot:
                from .c03 import _guards_of
                st = [s for s in iter_stmts(f.node.body) if any(n is d for n in ast.walk(s))][-1]
                g = _guards_of(f.node.body, st) or []
                if any(t and isinstance(te, ast.Compare) and norm(te.left) == "periodic_elements" and str_const(te.comparators[0]) == "exclude" for te, t in g):
                    ok = True
                else:
                    seen_other.append(d)
            else:
                seen_other.append(d)
        if ok:
            run.holds("IDX/data-follow-faces", c, where(f), "for 'exclude' the values of the antimeridian faces recorded by this conversion are removed")
        elif seen_other and any(isinstance(x, ast.Attribute) and x.attr == "antimeridian_face_indices" for d_ in seen_other if len(d_.args) >= 2 for e in ldefs.closure(d_.args[1])[0] for x in ast.walk(e)):
            run.violation("IDX/data-follow-faces", c, where(f, seen_other[0]), f"{norm(seen_other[0])[:80]}: the values removed are those of the GRID's antimeridian faces (Grid.antimeridian_face_indices, computed on the "
                          f"unprojected default polygons), not of the faces THIS conversion removed ({slot}['antimeridian_face_indices'], which depends on the projection's central longitude): "
                          "with a projection the data and the polygons no longer correspond")
        elif seen_other:
            run.incomplete("IDX/data-follow-faces", c, where(f, seen_other[0]), f"{norm(seen_other[0])[:80]}: a deletion from the data that is not recognised as np.delete(self.values, <slot>['antimeridian_face_indices']) under periodic_elements == 'exclude'")
        else:
            run.violation("IDX/data-follow-faces", c, where(f), "for 'exclude' the data are not reduced by the conversion's antimeridian_face_indices")
        # the side tables are those of THIS conversion: every read of the slot comes after the call that fills it
        c2 = f"{f.key}:side-tables-read-after-conversion"
        conv = [n for n in ast.walk(f.node) if isinstance(n, ast.Call) and isinstance(n.func, ast.Attribute) and n.func.attr == method and norm(n.func.value) == "self.uxgrid"]
        reads = [x for x in ast.walk(f.node) if isinstance(x, ast.Subscript) and isinstance(x.ctx, ast.Load) and slot in norm(x.value) and str_const(x.slice) in ("antimeridian_face_indices", "non_nan_polygon_indices", "corrected_to_original_faces")]
        if not conv:
            run.incomplete("IDX/data-follow-faces", c2, where(f), f"call self.uxgrid.{method}(...) not found")
        elif not reads:
            run.holds("IDX/data-follow-faces", c2, where(f), "no side table is read from the slot", nontrivial=False)
        else:
            first_conv = min(getattr(n, "end_lineno", n.lineno) for n in conv)
            early = [x for x in reads if x.lineno < first_conv]
            in_loop = any(isinstance(x, (ast.For, ast.While)) for x in ast.walk(f.node))
            if early and not in_loop:
                run.violation("IDX/data-follow-faces", c2, where(f, early[0]), f"{norm(early[0])[:80]} is read before self.uxgrid.{method}(...) runs: it holds the side table of an earlier conversion (other projection / periodic_elements)")
            elif early:
                run.incomplete("IDX/data-follow-faces", c2, where(f, early[0]), "side table read textually before the conversion inside a loop")
            else:
                run.holds("IDX/data-follow-faces", c2, where(f, reads[0]), f"all {len(reads)} side-table reads follow the conversion call")
        # the NaN filter on the data: only where the data run over faces without antimeridian faces
        for sub in ast.walk(f.node):
            if isinstance(sub, ast.Subscript) and "non_nan_polygon_indices" in norm(sub.slice) and norm(sub.value) == "_data" and isinstance(sub.ctx, ast.Load):
                from .c03 import _guards_of
                st = [s for s in iter_stmts(f.node.body) if any(n is sub for n in ast.walk(s))][-1]
                g = _guards_of(f.node.body, st) or []
                under_exclude = any(t and any(isinstance(x, ast.Compare) and norm(x.left) == "periodic_elements" and str_const(x.comparators[0]) == "exclude" for x in ast.walk(te)) for te, t in g)
                c = f"{f.key}:non-nan-applied-to[_data]"
                if under_exclude:
                    run.holds("IDX/data-follow-faces", c, where(f, sub), "NaN filter applied to data over the faces without the antimeridian faces")
                else:
                    run.violation("IDX/data-follow-faces", c, where(f, sub), "the NaN filter's indices number the faces WITHOUT the antimeridian faces, but here they are applied to the data of every option: for 'ignore' the data run over all faces (for 'split' over pieces), "
                                  "so values are attached to the wrong polygons whenever a projection hides faces and an antimeridian face precedes them")
    f = P.func(f"{DA}:UxDataArray.to_polycollection")
    c = f"{f.key}:split-uses-face-map"
    ok = any(isinstance(n, ast.Subscript) and norm(n.value) == "self.values" and norm(n.slice) == "corrected_to_original_faces" for n in ast.walk(f.node))
    if ok:
        run.holds("IDX/data-follow-faces", c, where(f), "for 'split' every piece takes the value of its original face")
    else:
        run.violation("IDX/data-follow-faces", c, where(f), "for 'split' the data are not expanded through corrected_to_original_faces")
    c = f"{f.key}:face-centred-only"
    if any(isinstance(n, ast.Call) and isinstance(n.func, ast.Attribute) and n.func.attr == "_face_centered" for n in ast.walk(f.node)):
        run.holds("IDX/data-follow-faces", c, where(f), "element kind decided from dimension names")
    else:
        run.violation("IDX/data-follow-faces", c, where(f), "element kind not decided from dimension names")
