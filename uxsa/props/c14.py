"""C14  Arc predicates and intersections agree with exact spherical geometry.

Decided (narrow, structural): in gca_gca_intersection every point appended to the result is dominated by membership tests on BOTH arcs (in the parallel branch: an endpoint of one arc tested on the other);
the two candidates are the normalised intersection direction and its antipode; the absolute tolerance of the parallel-planes test is below the smallest magnitude the unnormalised double cross product
can have for inputs the property admits (margin 1e-6 rad); _decide_pole_latitude is antisymmetric under the mirror z -> -z and switches pole when the extent exceeds pi (truth table over its two atoms);
every return of extreme_gca_latitude is max/min over a set containing both endpoint latitudes and its interior candidate is the stationary point (shared with C13).
NOT decided - and this is most of the property: whether the tolerances of the on-circle and in-between tests make the predicates agree with exact geometry for all admissible arcs, and invariance under swaps/rotation.
The isclose/allclose wrappers forward rtol and atol unchanged; no squared length is compared with a length tolerance; library tolerances keep the pinned values."""

import ast
import itertools

from ..astutil import LocalDefs, iter_stmts, norm, where
from ..flow import _split_test
from ..loader import ConstInfo, dotted
from .c03 import _guards_of
from .c13 import _extreme

INT = "uxarray/grid/intersections.py"
ARCS = "uxarray/grid/arcs.py"
# smallest |cross(cross(w0,w1), cross(v0,v1))| over admissible crossings: |.| = sin L1 sin L2 sin(theta); every endpoint is at least the
# margin m = 1e-6 rad from the other arc's great circle, i.e. sin(L_i / 2) sin(theta) >= sin(m)  =>  |.| >= 4 m^2 / theta >= 4 m^2 / (pi/2);
# allclose tests every component, the largest one is at least |.| / sqrt(3)
MARGIN = 1e-6
MIN_CROSS_COMPONENT = 4 * MARGIN ** 2 / (3.141592653589793 / 2) / 3 ** 0.5


def _const_number(P, module, node, f):
    """numeric value of a tolerance expression (literal or a constant of uxarray/constants.py)"""
    if isinstance(node, ast.Constant) and isinstance(node.value, (int, float)):
        return float(node.value)
    r = P.resolve_expr(module, node, f)
    if isinstance(r, ConstInfo):
        txt = norm(r.node)
        if "finfo(float).eps" in txt or "finfo(np.float64).eps" in txt:
            return 2.220446049250313e-16
        for n in ast.walk(r.node):
            if isinstance(n, ast.Constant) and isinstance(n.value, float):
                return float(n.value)
    return None


def check(run):
    P = run.program
    from ..rules import consts as _consts
    _consts.check(run, P)
    run.explanation = (
        "Boolean dominance over the control flow of gca_gca_intersection: for each res.append(p) the conjunction of enclosing conditions must contain point_within_gca(p, arc1) and point_within_gca(p, arc2) "
        "(parallel branch: p is an endpoint of one arc, membership in the other suffices). The parallel-planes tolerance is folded from uxarray/constants.py and compared with a bound derived from the property's own margin. "
        "_decide_pole_latitude is abstracted to its atoms (extent < pi, lat1 > 0) and its four outcomes are checked for mirror antisymmetry. The agreement of the floating-point predicates with exact geometry is NOT decided."
    )
    run.rule_text = "F-PATH boolean dominance + tolerance bound from the margin + truth table + C13's extreme-latitude obligations"
    run.assumptions = ["IEEE double: np.finfo(float).eps = 2.22e-16", "admissible inputs keep every decision at least 1e-6 rad from its boundary (the property's quantifier)"]
    _intersection(run, P)
    _tolerances_explicit(run, P)
    from ..rules import sqtol
    sqtol.check(run, P, GEOMETRY_FILES)
    _wrappers_forward(run, P)
    _argument_roles(run, P)
    _on_circle_tolerance(run, P)
    _pole_latitude(run, P)
    _extreme(run, P)


def _membership(test):
    """{(point, arc)} proven by `test` being true"""
    out = set()
    for t, v in _split_test(test, True):
        if v and isinstance(t, ast.Call) and (dotted(t.func) or [""])[-1] == "point_within_gca" and len(t.args) >= 2:
            out.add((norm(t.args[0]), norm(t.args[1]).replace(" ", "")))
    return out


def _intersection(run, P):
    f = P.func(f"{INT}:gca_gca_intersection")
    fn = f.node
    defs = LocalDefs(fn)
    # arcs' endpoint names
    arcs = {}
    for st in iter_stmts(fn.body):
        if isinstance(st, ast.Assign) and isinstance(st.targets[0], ast.Tuple) and len(st.targets[0].elts) == 2 and isinstance(st.value, ast.Name) and st.value.id in f.params()[:2]:
            arcs[st.value.id] = [e.id for e in st.targets[0].elts]
    if len(arcs) != 2:
        run.incomplete("F-PATH/intersection-dominance", f"{f.key}:arcs", where(f), "endpoint unpacking of the two arcs not found")
        return
    (a1, e1), (a2, e2) = list(arcs.items())
    arc_txt = {a1: f"[{e1[0]},{e1[1]}]", a2: f"[{e2[0]},{e2[1]}]"}
    n = 0
    for st in iter_stmts(fn.body):
        if isinstance(st, ast.Expr) and isinstance(st.value, ast.Call) and isinstance(st.value.func, ast.Attribute) and st.value.func.attr == "append" and norm(st.value.func.value) == "res":
            n += 1
            p = norm(st.value.args[0])
            g = _guards_of(fn.body, st) or []
            proven = set()
            for te, truth in g:
                if truth:
                    proven |= _membership(te)
            on = {arc for arc in arc_txt if (p, arc_txt[arc]) in proven}
            c = f"{f.key}:append[{p}]"
            endpoint_of = next((arc for arc, es in arcs.items() if p in es), None)
            need = set(arc_txt) - ({endpoint_of} if endpoint_of else set())
            if need <= on:
                run.holds("F-PATH/intersection-dominance", c, where(f, st), f"{p} is returned only when it lies on {' and '.join(sorted(arc_txt[a] for a in need))}" + (f" (it is an endpoint of {arc_txt[endpoint_of]})" if endpoint_of else ""))
            else:
                run.violation("F-PATH/intersection-dominance", c, where(f, st), f"{p} is appended without a membership test on {sorted(arc_txt[a] for a in need - on)}: a point of one great circle that is not on both arcs is reported as an intersection")
    run.floor("F-PATH/intersection-dominance", n, 4)
    # candidates: normalised direction and antipode -- read from the points that are tested for membership, expanded over the function's inputs
    c = f"{f.key}:candidates"
    from .. import symx
    X = symx.Expander(P, keep={"cross", "cross_fma", "norm", "dot", "point_within_gca", "allclose", "isclose"})
    def is_endpoint(e):
        return isinstance(e, ast.Subscript) and isinstance(e.slice, ast.Constant) and e.slice.value in (0, 1) and isinstance(symx.strip_neutral(e.value), ast.Name) and symx.strip_neutral(e.value).id in arcs

    def form(e):
        """(sign, normalised?, direction text) for  +-C  /  +-C / norm(C)"""
        sign = 1
        while isinstance(e, ast.UnaryOp) and isinstance(e.op, ast.USub):
            sign, e = -sign, e.operand
        if isinstance(e, ast.BinOp) and isinstance(e.op, ast.Div) and isinstance(e.right, ast.Call) and symx.call_name(e.right) == "norm" and e.right.args:
            num = e.left
            while isinstance(num, ast.UnaryOp) and isinstance(num.op, ast.USub):
                sign, num = -sign, num.operand
            if norm(num) == norm(e.right.args[0]):
                return sign, True, norm(num)
            return None
        if isinstance(e, ast.Call) and symx.call_name(e) in ("cross", "cross_fma"):
            return sign, False, norm(e)
        return None
    verdicts = []      # per returning path that tests candidates: ("ok" | "bad", why) | ("unknown", why)
    for path, r, env in X.returns(f, split_boolops=False):
        tested = {}
        for t, _v in X.conditions(f, path, env):
            for x in ast.walk(t):
                if isinstance(x, ast.Call) and symx.call_name(x) == "point_within_gca" and x.args and not is_endpoint(x.args[0]):
                    tested[norm(x.args[0])] = x.args[0]
        if not tested:
            continue
        forms = {k: form(v) for k, v in tested.items()}
        if any(v is None for v in forms.values()):
            bad_k = next(k for k, v in forms.items() if v is None)
            verdicts.append(("unknown", f"tested point {bad_k[:80]} is not of the form +-C or +-C/norm(C)"))
            continue
        dirs = {v[2] for v in forms.values()}
        signs = {v[0] for v in forms.values()}
        why = []
        if not all(v[1] for v in forms.values()):
            why.append("a candidate is not normalised")
        if signs != {1, -1}:
            why.append("the antipode of the intersection direction is not a candidate")
        if len(dirs) != 1:
            why.append("the candidates are not built from one direction")
        verdicts.append(("bad", "; ".join(why)) if why else ("ok", ""))
    if any(v[0] == "bad" for v in verdicts):
        run.violation("F-PATH/intersection-dominance", c, where(f), "the two candidate points are not the normalised cross direction and its antipode: " + next(v[1] for v in verdicts if v[0] == "bad"))
    elif any(v[0] == "unknown" for v in verdicts):
        run.incomplete("F-PATH/intersection-dominance", c, where(f), next(v[1] for v in verdicts if v[0] == "unknown"))
    elif verdicts:
        run.holds("F-PATH/intersection-dominance", c, where(f), f"candidates are the unit intersection direction and its antipode (on all {len(verdicts)} returning path(s) that test candidates)")
    else:
        run.incomplete("F-PATH/intersection-dominance", c, where(f), "no membership test of a candidate intersection point is visible in this function (candidates handed to a helper?)")
    # parallel test tolerance
    c = f"{f.key}:parallel-tolerance"
    par = None
    for st in iter_stmts(fn.body):
        if isinstance(st, ast.If) and isinstance(st.test, ast.Call) and (dotted(st.test.func) or [""])[-1] == "allclose" and norm(st.test.args[0]) == "cross_norms":
            par = st
    if par is None:
        run.incomplete("F-PATH/parallel-tolerance", c, where(f), "parallel-planes test not found")
    else:
        tol = next((k.value for k in par.test.keywords if k.arg == "atol"), None)
        val = _const_number(P, f.module, tol, f) if tol is not None else 1e-8
        # is the operand normalised before the test?
        before_norm = True
        for st in iter_stmts(fn.body):
            if st is par:
                break
            if isinstance(st, ast.Assign) and norm(st.targets[0]) == "cross_norms" and isinstance(st.value, ast.BinOp) and isinstance(st.value.op, ast.Div):
                before_norm = False
        if val is None:
            run.incomplete("F-PATH/parallel-tolerance", c, where(f, par), f"tolerance {norm(tol)} not foldable")
        elif before_norm and val >= MIN_CROSS_COMPONENT:
            run.violation("F-PATH/parallel-tolerance", c, where(f, par),
                          f"the planes are declared parallel when every component of the UNNORMALISED double cross product is below {val:g}; for admissible crossings (every endpoint at least 1e-6 rad from the other arc) "
                          f"that product can be as small as {MIN_CROSS_COMPONENT:.2g} per component (short arcs / shallow angles), so genuine crossings are returned as 'no intersection'", facts={"tolerance": val, "bound": MIN_CROSS_COMPONENT})
        else:
            run.holds("F-PATH/parallel-tolerance", c, where(f, par), f"tolerance {val:g} < {MIN_CROSS_COMPONENT:.2g}, the smallest component magnitude of an admissible crossing" if before_norm else "test applied to the normalised direction", facts={"tolerance": val, "bound": MIN_CROSS_COMPONENT})


def _sign_of(node, env):
    """'+' / '-' for +-pi/2 expressions, following names and conditional expressions under the atom assignment in env"""
    t = norm(node)
    if t in ("np.pi / 2", "pi / 2", "np.pi / 2.0"):
        return "+"
    if t in ("-np.pi / 2", "-(np.pi / 2)", "-pi / 2", "-np.pi / 2.0"):
        return "-"
    if isinstance(node, ast.UnaryOp) and isinstance(node.op, ast.USub):
        s = _sign_of(node.operand, env)
        return {"+": "-", "-": "+"}.get(s)
    if isinstance(node, ast.IfExp):
        v = env["atoms"].get(norm(node.test))
        if v is None:
            return None
        return _sign_of(node.body if v else node.orelse, env)
    if isinstance(node, ast.Name):
        return env["vars"].get(node.id)
    return None


def _pole_latitude(run, P):
    f = P.func(f"{ARCS}:_decide_pole_latitude")
    fn = f.node
    c = f"{f.key}:antisymmetry"
    # atoms: every test of an If / IfExp
    atoms = []
    for n in ast.walk(fn):
        if isinstance(n, (ast.If, ast.IfExp)):
            if norm(n.test) not in atoms:
                atoms.append(norm(n.test))
    ext = [a for a in atoms if "lat_extend" in a]
    sgn = [a for a in atoms if a.replace(" ", "") in ("lat1>0", "lat1>=0", "lat1>0.0")]
    if len(atoms) != 2 or len(ext) != 1 or len(sgn) != 1:
        run.incomplete("F-PATH/pole-choice", c, where(f), f"decision atoms {atoms}: expected the extent test and the sign of lat1")
        return
    table = {}
    for ve, vs in itertools.product([True, False], repeat=2):
        env = {"atoms": {ext[0]: ve, sgn[0]: vs}, "vars": {}}

        def run_block(stmts):
            for st in stmts:
                if isinstance(st, ast.Assign) and isinstance(st.targets[0], ast.Name):
                    s = _sign_of(st.value, env)
                    if s is not None:
                        env["vars"][st.targets[0].id] = s
                elif isinstance(st, ast.If):
                    v = env["atoms"].get(norm(st.test))
                    r = run_block(st.body if v else st.orelse)
                    if r is not None:
                        return r
                elif isinstance(st, ast.Return):
                    return _sign_of(st.value, env)
            return None
        table[(ve, vs)] = run_block(fn.body)
    if any(v is None for v in table.values()):
        run.incomplete("F-PATH/pole-choice", c, where(f), f"outcome not reducible to +-pi/2: {table}")
        return
    flip = {"+": "-", "-": "+"}
    ext_lt = "<" in ext[0]
    probs = []
    for ve in (True, False):
        if table[(ve, True)] != flip[table[(ve, False)]]:
            probs.append(f"with ({ext[0]}) = {ve} the result is {table[(ve, True)]}pi/2 for lat1 > 0 and {table[(ve, False)]}pi/2 otherwise: mirroring the arc through the equator must mirror the pole")
    for vs in (True, False):
        if table[(True, vs)] != flip[table[(False, vs)]]:
            probs.append(f"the pole does not switch when the extent crosses pi (lat1 > 0 is {vs})")
    near = table[(ext_lt, True)]
    if near != "+":
        probs.append("for a northern first endpoint and an extent below pi the north pole must be chosen")
    if probs:
        run.violation("F-PATH/pole-choice", c, where(f), "; ".join(probs), facts={str(k): v for k, v in table.items()})
    else:
        run.holds("F-PATH/pole-choice", c, where(f), "pole on lat1's side when the extent is below pi, the opposite pole otherwise, mirror-antisymmetric (4 outcomes)", facts={str(k): v for k, v in table.items()})
    # extent formula:  |pi/2 - |lat1|| + pi/2 + |lat2|
    c = f"{f.key}:extent"
    le = next((st for st in iter_stmts(fn.body) if isinstance(st, ast.Assign) and norm(st.targets[0]) == "lat_extend"), None)
    if le is not None and norm(le.value).replace(" ", "") == "abs(np.pi/2-abs(lat1))+np.pi/2+abs(lat2)":
        run.holds("F-PATH/pole-choice", c, where(f, le), "extent = (pi/2 - |lat1|) + pi/2 + |lat2|")
    elif le is None:
        run.incomplete("F-PATH/pole-choice", c, where(f), "extent not found")
    else:
        run.note("F-PATH/pole-choice", c, where(f, le), f"extent formula is {norm(le.value)} (not compared)")


# a point is accepted as 'on the great circle' when |cross(v0, v1) . p| <= T; the normal has length sin(L), so the accepted angular
# distance is T / sin(L).  Admissible queries are at least the margin m away from every decision boundary, arcs shorter than 2 m have
# no admissible interior point, hence T must stay below m * sin(2 m).
MAX_ON_CIRCLE_TOL = MARGIN * 2 * MARGIN


def _on_circle_tolerance(run, P):
    f = P.func(f"{ARCS}:_point_within_gca_body")
    c = f"{f.key}:on-circle-tolerance"
    test = None
    defs = LocalDefs(f.node)
    for n in ast.walk(f.node):
        if isinstance(n, ast.Call) and (dotted(n.func) or [""])[-1] in ("allclose", "isclose") and n.args and isinstance(n.args[0], ast.Call) and (dotted(n.args[0].func) or [""])[-1] == "dot":
            nodes, _ = defs.closure(n.args[0])
            if any(isinstance(x, ast.Call) and (dotted(x.func) or [""])[-1] in ("cross", "cross_fma") for e in nodes for x in ast.walk(e)):
                normalised = any(isinstance(x, ast.Call) and (dotted(x.func) or [""])[-1] in ("norm", "_normalize_xyz", "_normalize_xyz_scalar") for e in nodes for x in ast.walk(e))
                if not normalised:
                    test = n
    if test is None:
        run.incomplete("F-PATH/on-circle-tolerance", c, where(f), "plane test dot(cross(v0, v1), pt) ~ 0 not found")
        return
    at = next((k.value for k in test.keywords if k.arg == "atol"), None)
    rt = next((k.value for k in test.keywords if k.arg == "rtol"), None)
    a = _const_number(P, f.module, at, f) if at is not None else 1e-8
    if a is None:
        run.incomplete("F-PATH/on-circle-tolerance", c, where(f, test), f"tolerance {norm(at)} not foldable")
    elif a >= MAX_ON_CIRCLE_TOL:
        run.violation("F-PATH/on-circle-tolerance", c, where(f, test),
                      f"a point counts as lying on the great circle when |cross(v0, v1) . p| <= {a:g}; the normal is not normalised (length sin L), so for short arcs points up to {a:g}/sin(L) rad off the circle are accepted - "
                      f"more than the 1e-6 rad margin for every arc shorter than {a / MARGIN:.2g} rad (bound {MAX_ON_CIRCLE_TOL:.1g})", facts={"atol": a, "bound": MAX_ON_CIRCLE_TOL})
    else:
        run.holds("F-PATH/on-circle-tolerance", c, where(f, test), f"absolute tolerance {a:g} < {MAX_ON_CIRCLE_TOL:.1g} (no admissible off-circle point is accepted through the scale of the normal)", facts={"atol": a, "bound": MAX_ON_CIRCLE_TOL})


GEOMETRY_FILES = ("uxarray/grid/arcs.py", "uxarray/grid/intersections.py", "uxarray/grid/coordinates.py", "uxarray/grid/geometry.py", "uxarray/grid/integrate.py", "uxarray/utils/computing.py")


def _tolerances_explicit(run, P):
    """Every closeness test in the geometry kernels names its tolerance (atol= and/or rtol=, the library's ERROR_TOLERANCE / MACHINE_EPSILON): numpy's defaults
    (rtol=1e-5, atol=1e-8) are three orders of magnitude looser than ERROR_TOLERANCE = 1e-8 on unit-sphere quantities, so a bare isclose()/allclose() used as a shortcut
    ("already normalised", "same point") silently changes results of short arcs and fine meshes."""
    n = 0
    bad = []
    for f in P.all_functions():
        if f.module.relpath not in GEOMETRY_FILES:
            continue
        for c in ast.walk(f.node):
            if isinstance(c, ast.Call) and (dotted(c.func) or [""])[-1] in ("isclose", "allclose"):
                n += 1
                explicit = any(k.arg in ("atol", "rtol") for k in c.keywords) or len(c.args) >= 3
                if not explicit:
                    bad.append((f, c))
    c0 = "geometry-kernels:closeness-tests-name-their-tolerance"
    for f, c in bad:
        run.violation("F-PATH/explicit-tolerance", f"{f.key}:{norm(c)[:40]}", where(f, c), f"{norm(c)[:70]} uses numpy's default tolerances (rtol=1e-5): far looser than the library's ERROR_TOLERANCE; "
                      "quantities within 1e-5 of each other (short arcs, nearly unit vectors) are treated as equal")
    if not bad:
        run.holds("F-PATH/explicit-tolerance", c0, "-", f"all {n} isclose/allclose calls in the geometry kernels pass atol and/or rtol explicitly")
    run.floor("F-PATH/explicit-tolerance", n, 20)


def _argument_roles(run, P):
    """No two same-named arguments are exchanged on the way into a package function: a call f(.., rtol, atol) of f(.., atol, rtol) compiles, runs and silently swaps the
    meaning of both (for the tolerance helpers: an absolute tolerance of 1e-5 where 1e-15 was meant).  Only MUTUAL swaps of bare names that are both parameter names of
    the callee are reported."""
    from ..loader import FuncInfo
    n = 0
    bad = []
    for f in P.all_functions():
        if f.module.relpath not in GEOMETRY_FILES:
            continue
        for c in ast.walk(f.node):
            if not isinstance(c, ast.Call):
                continue
            t = P.resolve_expr(f.module, c.func, f)
            if not isinstance(t, FuncInfo):
                continue
            ps = t.params()
            if t.cls is not None and isinstance(c.func, ast.Attribute):
                ps = ps[1:]
            n += 1
            names = [a.id if isinstance(a, ast.Name) else None for a in c.args]
            for i, a in enumerate(names):
                if a is None or i >= len(ps) or a == ps[i] or a not in ps:
                    continue
                j = ps.index(a)
                if j < len(names) and names[j] == ps[i]:
                    bad.append((f, c, a, ps[i], t))
    seen = set()
    for f, c, a, p_, t in bad:
        k = (f.key, c.lineno)
        if k in seen:
            continue
        seen.add(k)
        run.violation("F-SIG/argument-roles", f"{f.key}:call({t.name})", where(f, c), f"{norm(c)[:70]}: {a} is passed where {t.name} expects {p_} and vice versa (parameters {t.params()})")
    if not bad:
        run.holds("F-SIG/argument-roles", "geometry-kernels:no-exchanged-arguments", "-", f"{n} calls to package functions: no pair of same-named arguments is exchanged")
    run.floor("F-SIG/argument-roles", n, 50)


def _wrappers_forward(run, P):
    """The njit wrappers isclose/allclose of utils/computing.py hand `rtol` and `atol` to numpy exactly as they received them.  Every explicit tolerance in the geometry
    kernels (rtol=0.0 in particular: "absolute comparison only") goes through these two functions; `rtol or DEFAULT`, `max(rtol, ...)`, a swapped pair or a dropped
    argument changes all of them at once."""
    n = 0
    for name in ("isclose", "allclose"):
        f = P.try_func(f"uxarray/utils/computing.py:{name}")
        c = f"uxarray/utils/computing.py:{name}:tolerances-forwarded"
        if f is None:
            run.incomplete("F-SIG/tolerance-wrappers", c, "-", "wrapper not found")
            continue
        calls = [x for x in ast.walk(f.node) if isinstance(x, ast.Call) and (dotted(x.func) or [""])[-1] == name and (dotted(x.func) or [""])[0] in ("np", "numpy")]
        if not calls:
            run.incomplete("F-SIG/tolerance-wrappers", c, where(f), f"no call of numpy's {name} in the wrapper")
            continue
        rebound = [p_ for p_ in ("rtol", "atol") if any(isinstance(x, ast.Name) and x.id == p_ and isinstance(x.ctx, ast.Store) for x in ast.walk(f.node))]
        for call in calls:
            n += 1
            got = {}
            for i, a in enumerate(call.args):
                if i >= 2:
                    got[("rtol", "atol")[i - 2]] = a if i - 2 < 2 else None
            for k in call.keywords:
                if k.arg in ("rtol", "atol"):
                    got[k.arg] = k.value
            probs = []
            for p_ in ("rtol", "atol"):
                if p_ not in f.params():
                    probs.append(f"the wrapper has no parameter {p_}")
                elif p_ not in got:
                    probs.append(f"{p_} is not handed to numpy (numpy's default applies whatever the caller passes)")
                elif not (isinstance(got[p_], ast.Name) and got[p_].id == p_):
                    probs.append(f"{p_}={norm(got[p_])[:40]} instead of the caller's value (an explicit 0.0 is falsy: `x or default` replaces it)")
                elif p_ in rebound:
                    probs.append(f"{p_} is rebound inside the wrapper")
            if probs:
                run.violation("F-SIG/tolerance-wrappers", c, where(f, call), "; ".join(probs))
            else:
                run.holds("F-SIG/tolerance-wrappers", c, where(f, call), "rtol and atol forwarded unchanged")
    run.floor("F-SIG/tolerance-wrappers", n, 2)

