"""C07  Encoding a grid and reading it back preserves the grid.

Decided: encoders do not write module-level templates; each name the UGRID encoder puts into the topology metadata is
guarded by that variable/dimension being in the dataset; nothing non-serialisable is attached as attrs to stored grid variables;
encoders treat the grid's connectivity as standard form (fill literal, fill-safe gathers); units at the encoders;
the Exodus block offset accumulates; the export is not the grid's internal dataset."""

import ast

from ..astutil import LocalDefs, iter_stmts, norm, str_const, where
from ..loader import ConstInfo, dotted
from ..rules.common import dataflow, emit
from ..rules.lazy import absent_keys

UG = "uxarray/io/_ugrid.py"
EX = "uxarray/io/_exodus.py"
SC = "uxarray/io/_scrip.py"
GRID = "uxarray/grid/grid.py"
ENCODERS = [f"{UG}:_encode_ugrid", f"{EX}:_encode_exodus", f"{SC}:_encode_scrip", f"{GRID}:Grid.to_xarray", f"{GRID}:Grid.encode_as"]


def check(run):
    P = run.program
    run.explanation = (
        "Encoders are analysed with the dataflow engine (the dataset parameter is bound to Grid._ds through the call from Grid.to_xarray/encode_as): "
        "writes through aliases of module-level templates, comparisons of a standard-form connectivity with an integer literal other than "
        "INT_FILL_VALUE, gathers through an index that may contain the fill value, degrees passed to trigonometry, and returning Grid._ds itself are "
        "violations.  F-GUARD: every entry _encode_ugrid adds to the topology attributes is under a test that the named variable/dimension is in the dataset, "
        "and the base template only names variables every grid has.  F-KIND of attrs: arrays/pandas objects attached as attrs of variables stored in _ds make "
        "to_netcdf fail.  F-PATH: the Exodus block start offset accumulates (+=).  Equality of faces after the round trip and NetCDF backend behaviour are NOT decided."
    )
    run.rule_text = "F-GLOBAL, F-GUARD, IDX-2/IDX-3, F-UNIT, F-ALIAS, F-PATH accumulation"
    run.assumptions = ["netCDF attribute values must be str/number/1-D numeric arrays", "Grid._ds connectivity is in standard form (C01-C03)"]
    for k in ENCODERS:
        P.func(k)
    R = dataflow(P, run.tier)
    rules = {"GLOBAL/write", "IDX/fill-literal", "IDX/fill-safety", "IDX/space", "UNIT/deg->trig", "UNIT/double-conversion", "ALIAS/internal-returned"}
    ok, bad = emit(run, R, rules, files=[UG, EX, SC], funcs=ENCODERS)
    run.floor("dataflow@encoders", ok + bad, 3)
    # the readers the round trip goes through normalise the file's Cartesian coordinates (the Exodus encoder writes x, y, z only)
    from .c01 import _readers_normalise
    _readers_normalise(run, P)
    # ---- topology names guarded by presence
    f = P.func(f"{UG}:_encode_ugrid")
    dsname = f.params()[0]
    tmpl = None
    gt_name = None
    enc = f
    # the topology attributes are assembled in the encoder itself or in a function of its module that it hands the dataset to
    from ..astutil import InterDefs
    for host in InterDefs(P, enc, depth=1).scope:
        for st in iter_stmts(host.node.body):
            if isinstance(st, ast.Assign) and len(st.targets) == 1 and isinstance(st.targets[0], ast.Name):
                for n in ast.walk(st.value):
                    r = P.resolve_expr(host.module, n, host) if isinstance(n, (ast.Attribute, ast.Name)) else None
                    if isinstance(r, ConstInfo) and isinstance(P.const_value(r), dict) and "cf_role" in P.const_value(r) and gt_name is None:
                        tmpl = P.const_value(r)
                        gt_name = st.targets[0].id
                        f = host
                        dsname = host.params()[0]
    if gt_name is None:
        run.incomplete("F-GUARD/topology-names", f"{f.key}:template", where(f), "grid_topology template not recognised")
    else:
        def walk(stmts, present):
            for st in stmts:
                if isinstance(st, ast.If):
                    pres = absent_keys(st.test, False)  # keys implied present
                    # also  "n_edge" in ds.dims
                    for c in ast.walk(st.test):
                        if isinstance(c, ast.Compare) and len(c.ops) == 1 and isinstance(c.ops[0], ast.In) and str_const(c.left):
                            cont = c.comparators[0]
                            if (isinstance(cont, ast.Name) and cont.id == dsname) or (isinstance(cont, ast.Attribute) and isinstance(cont.value, ast.Name) and cont.value.id == dsname and cont.attr in ("dims", "sizes", "data_vars", "variables", "coords")):
                                pres = pres | {str_const(c.left)}
                            elif isinstance(cont, ast.Name):
                                pres = pres | {("name-in", cont.id)}
                    walk(st.body, present | pres)
                    walk(st.orelse, present)
                    continue
                if isinstance(st, (ast.For,)):
                    # for conn_name in NAMES: if conn_name in ds: topo[conn_name] = conn_name
                    walk(st.body, present)
                    continue
                if isinstance(st, ast.Assign) and isinstance(st.targets[0], ast.Subscript) and isinstance(st.targets[0].value, ast.Name) and st.targets[0].value.id == gt_name:
                    t = st.targets[0]
                    key = str_const(t.slice)
                    val = str_const(st.value)
                    c = f"{f.key}:topology[{key if key else norm(t.slice)}]"
                    if key is not None and val is not None:
                        names = val.split()
                        missing = [nm for nm in names if nm not in present]
                        if not missing:
                            run.holds("F-GUARD/topology-names", c, where(f, st), f"'{val}' named only when present in the dataset")
                        else:
                            # lon/lat pairs: a guard on X_lon is accepted for 'X_lon X_lat' (populated together)
                            from ..rules.lazy import family
                            fam_present = {family(p) for p in present if isinstance(p, str)}
                            if all(family(nm) in fam_present for nm in missing):
                                run.holds("F-GUARD/topology-names", c, where(f, st), f"'{val}' guarded by the presence of its coordinate family")
                            else:
                                run.violation("F-GUARD/topology-names", c, where(f, st), f"topology attribute {key}='{val}' is written without testing that {missing} exist in the dataset")
                    elif isinstance(t.slice, ast.Name) and isinstance(st.value, ast.Name) and t.slice.id == st.value.id:
                        if any(isinstance(p, tuple) and p[1] == dsname for p in present) or any(isinstance(p, tuple) for p in present):
                            run.holds("F-GUARD/topology-names", c, where(f, st), f"{norm(t)} set under '{t.slice.id} in {dsname}'")
                        else:
                            run.violation("F-GUARD/topology-names", c, where(f, st), f"{norm(t)} = {norm(st.value)} written without testing that the variable is in the dataset")
        # membership of a loop variable:  if conn_name in ds
        def present_for_names(stmts):
            pass
        # re-walk with a custom handling for `name in ds`
        def walk2(stmts, present):
            for st in stmts:
                if isinstance(st, ast.If):
                    extra = set()
                    for c in ast.walk(st.test):
                        if isinstance(c, ast.Compare) and len(c.ops) == 1 and isinstance(c.ops[0], ast.In) and isinstance(c.left, ast.Name) and isinstance(c.comparators[0], ast.Name) and c.comparators[0].id == dsname:
                            extra.add(("name-in", dsname, c.left.id))
                    walk2(st.body, present | extra)
                    walk2(st.orelse, present)
                elif isinstance(st, ast.For):
                    walk2(st.body, present)
                elif isinstance(st, ast.Assign) and isinstance(st.targets[0], ast.Subscript) and isinstance(st.targets[0].value, ast.Name) and st.targets[0].value.id == gt_name:
                    t = st.targets[0]
                    if isinstance(t.slice, ast.Name) and isinstance(st.value, ast.Name) and t.slice.id == st.value.id:
                        c = f"{f.key}:topology[{norm(t.slice)}]"
                        if ("name-in", dsname, t.slice.id) in present:
                            run.holds("F-GUARD/topology-names", c, where(f, st), f"{norm(t)} set under '{t.slice.id} in {dsname}'")
                        else:
                            run.violation("F-GUARD/topology-names", c, where(f, st), f"{norm(t)} = {norm(st.value)} written without testing that the variable is in the dataset")
        walk(f.node.body, frozenset())
        # loop-variable form handled separately (overrides the generic verdict for that construct)
        run.obs = [o for o in run.obs if not (o.rule == "F-GUARD/topology-names" and "[conn_name]" in o.construct)]
        walk2(f.node.body, frozenset())
        # base template: names only what every grid has (by _validate_minimum_ugrid: node_lon/node_lat or node_x/y/z, face_node_connectivity)
        if tmpl is not None:
            for k, v in sorted(tmpl.items()):
                if k in ("node_coordinates",) and isinstance(v, str):
                    c = f"BASE_GRID_TOPOLOGY_ATTRS[{k}]"
                    # guaranteed only if the encoder (or Grid.to_xarray) makes sure the named variables exist
                    names = v.split()
                    # either the encoder itself tests the names, or EVERY call site of the encoder first reads the
                    # Grid property that populates them (statements before the call in the same statement list)
                    in_encoder = any(isinstance(n, ast.Compare) and str_const(n.left) in names for n in ast.walk(f.node))
                    sites = []
                    for g in P.all_functions():
                        for lst in _stmt_lists(g.node.body):
                            for i, stx in enumerate(lst):
                                if isinstance(stx, (ast.If, ast.For, ast.While, ast.With, ast.Try)):
                                    continue
                                for cl in ast.walk(stx):
                                    if isinstance(cl, ast.Call) and (dotted(cl.func) or [""])[-1] == "_encode_ugrid":
                                        before = lst[:i]
                                        got = {n.attr for b in before for n in ast.walk(b) if isinstance(n, ast.Attribute) and isinstance(n.ctx, ast.Load) and isinstance(n.value, ast.Name) and n.value.id == "self"}
                                        # lon/lat of one element kind are populated together
                                        from ..rules.lazy import family
                                        sites.append((g, cl, {family(x) for x in got} >= {family(x) for x in names}))
                    for g, cl, ok_site in sites:
                        cs = f"{g.key}:call(_encode_ugrid):ensures[{k}]"
                        if in_encoder or ok_site:
                            run.holds("F-GUARD/topology-names", cs, where(g, cl), f"'{v}' populated before the encoder runs")
                        else:
                            run.violation("F-GUARD/topology-names", cs, where(g, cl),
                                          f"the base topology always names '{v}', but a grid built from Cartesian node coordinates only has no such variables until node_lon is requested: "
                                          "the exported metadata then names variables absent from the dataset")
                    if not sites:
                        run.incomplete("F-GUARD/topology-names", c, where(f), "no call site of _encode_ugrid found")
    # ---- what the UGRID reader needs to decode unambiguously is written by every connectivity template
    ug = P.module("uxarray.conventions.ugrid")
    n_t = 0
    for name, ci in sorted(ug.defs.items()):
        if isinstance(ci, ConstInfo) and name.endswith("_CONNECTIVITY_ATTRS"):
            val = P.const_value(ci)
            if not isinstance(val, dict):
                continue
            n_t += 1
            c = f"conventions/ugrid.py:{name}:decoding-keys"
            probs = []
            if val.get("start_index") != 0:
                probs.append("no 'start_index': 0 - the UGRID reader then infers the base as the smallest index in use, which shifts every index of a grid whose node/face 0 is not referenced")
            # edge_node_connectivity never contains padding (every edge has exactly two nodes): no fill value to declare
            if "_FillValue" not in val and name != "EDGE_NODE_CONNECTIVITY_ATTRS":
                probs.append("no '_FillValue'")
            if probs:
                run.violation("F-TABLE/writer-reader-keys", c, f"uxarray/conventions/ugrid.py:{ci.node.lineno}", "; ".join(probs))
            else:
                run.holds("F-TABLE/writer-reader-keys", c, f"uxarray/conventions/ugrid.py:{ci.node.lineno}", "start_index = 0 and _FillValue declared")
    run.floor("F-TABLE/writer-reader-keys", n_t, 7)
    # ---- non-serialisable attrs on variables stored in _ds
    stripped = _attrs_stripped_by_encoder(P, enc)
    run.stats["attrs_stripped_by_ugrid_encoder"] = sorted(f"{v}.{k}" for v, k in stripped)
    n_attr = 0
    for g in P.all_functions():
        if g.module.relpath not in ("uxarray/grid/connectivity.py", "uxarray/grid/geometry.py", "uxarray/grid/coordinates.py", "uxarray/grid/neighbors.py", "uxarray/grid/grid.py"):
            continue
        defs = LocalDefs(g.node)
        for st in iter_stmts(g.node.body):
            # X._ds["k"] = xr.DataArray(..., attrs=A)
            if isinstance(st, ast.Assign) and isinstance(st.targets[0], ast.Subscript) and isinstance(st.targets[0].value, ast.Attribute) and st.targets[0].value.attr == "_ds":
                key = str_const(st.targets[0].slice)
                val = st.value
                if isinstance(val, ast.Name):
                    vs = [v for v, _i, _l in defs.defs.get(val.id, [])]
                    val = vs[-1] if vs else val
                if not (isinstance(val, ast.Call) and (dotted(val.func) or [""])[-1] == "DataArray"):
                    continue
                attrs = next((k.value for k in val.keywords if k.arg == "attrs"), None)
                if attrs is None:
                    continue
                n_attr += 1
                bad = []
                def scan_dict(d):
                    for kk, vv in zip(d.keys, d.values):
                        if isinstance(vv, ast.Name):
                            srcs = [v for v, _i, _l in defs.defs.get(vv.id, [])]
                            for s in srcs:
                                if isinstance(s, ast.Call) and (dotted(s.func) or [""])[-1] in ("from_tuples", "DataFrame", "IntervalIndex"):
                                    bad.append((str_const(kk), norm(s.func)))
                if isinstance(attrs, ast.Dict):
                    scan_dict(attrs)
                elif isinstance(attrs, ast.Name):
                    # attrs dict built incrementally: attrs["k"] = <array>
                    for s2 in iter_stmts(g.node.body):
                        if isinstance(s2, ast.Assign) and isinstance(s2.targets[0], ast.Subscript) and isinstance(s2.targets[0].value, ast.Name) and s2.targets[0].value.id == attrs.id:
                            kname = str_const(s2.targets[0].slice)
                            v = s2.value
                            if isinstance(v, ast.Name):
                                # result of a builder returning arrays (tuple unpack) -> array-valued attr
                                for vv, idx, _l in defs.defs.get(v.id, []):
                                    if isinstance(vv, ast.Call):
                                        bad.append((kname, f"array from {norm(vv.func)}"))
                c = f"{g.key}:attrs[{key}]"
                kept = [b for b in bad if (key, b[0]) not in stripped]
                if bad and not kept:
                    run.holds("F-KIND/serialisable-attrs", c, where(g, st),
                              f"helper attribute(s) {[b[0] for b in bad]} of '{key}' are removed from the exported copy by _encode_ugrid")
                    continue
                bad = kept
                if bad and key in getattr(_attrs_stripped_by_encoder, "unknown", set()):
                    run.incomplete("F-KIND/serialisable-attrs", c, where(g, st), f"'{key}' carries non-serialisable attribute(s) {bad}; _encode_ugrid rewrites its attrs in a way that is not understood")
                    continue
                if bad:
                    run.violation("F-KIND/serialisable-attrs", c, where(g, st),
                                  f"variable '{key}' is stored in the grid dataset with non-serialisable attribute(s) {bad}: Grid.to_xarray().to_netcdf() fails once this variable has been built")
                else:
                    run.holds("F-KIND/serialisable-attrs", c, where(g, st), "attrs are a literal/template of scalars and strings")
    run.floor("F-KIND/serialisable-attrs", n_attr, 15)
    # ---- Exodus block offset accumulates
    e = P.func(f"{EX}:_encode_exodus")
    loop = None
    for st in iter_stmts(e.node.body):
        if isinstance(st, ast.For) and any(isinstance(s, ast.Assign) and norm(s.targets[0]) == "start" for s in iter_stmts(st.body)) or (isinstance(st, ast.For) and any(isinstance(s, ast.AugAssign) and norm(s.target) == "start" for s in iter_stmts(st.body))):
            loop = st
    c = f"{e.key}:block-offset"
    if loop is None:
        run.incomplete("F-PATH/accumulation", c, where(e), "block loop with a running offset not found")
    else:
        upd = [s for s in iter_stmts(loop.body) if (isinstance(s, ast.Assign) and norm(s.targets[0]) == "start") or (isinstance(s, ast.AugAssign) and norm(s.target) == "start")]
        s = upd[-1]
        acc = isinstance(s, ast.AugAssign) and isinstance(s.op, ast.Add) or (isinstance(s, ast.Assign) and "start" in {n.id for n in ast.walk(s.value) if isinstance(n, ast.Name)})
        if acc:
            run.holds("F-PATH/accumulation", c, where(e, s), f"offset accumulates: {norm(s)}")
        else:
            run.violation("F-PATH/accumulation", c, where(e, s), f"'{norm(s)}' overwrites the running block offset instead of adding to it: with three or more element blocks the third block repeats/skips faces")


def _attrs_stripped_by_encoder(P, f):
    """(variable, attribute) pairs removed from the exported dataset by the encoder or by a procedure of its module that it hands the dataset to"""
    from ..loader import FuncInfo
    out = set(_attrs_stripped_in(P, f, f.params()[0]))
    unknown = set(_attrs_stripped_in.unknown)
    # dataset names in the encoder (the parameter and locals bound to copies of it)
    dsn = {f.params()[0]}
    for st in iter_stmts(f.node.body):
        if isinstance(st, ast.Assign) and isinstance(st.targets[0], ast.Name) and isinstance(st.value, ast.Call) and isinstance(st.value.func, ast.Attribute) and st.value.func.attr in ("copy", "drop_vars") \
                and isinstance(st.value.func.value, ast.Name) and st.value.func.value.id in dsn:
            dsn.add(st.targets[0].id)
    for st in iter_stmts(f.node.body):
        if isinstance(st, ast.Expr) and isinstance(st.value, ast.Call) and st.value.args and isinstance(st.value.args[0], ast.Name) and st.value.args[0].id in dsn:
            h = P.resolve_expr(f.module, st.value.func, f)
            if isinstance(h, FuncInfo) and h.cls is None and h.params():
                out |= _attrs_stripped_in(P, h, h.params()[0])
                unknown |= _attrs_stripped_in.unknown
    _attrs_stripped_by_encoder.unknown = unknown
    return out


def _attrs_stripped_in(P, f, dsname):
    """(variable, attribute) pairs that function f removes from the dataset named dsname.

    Recognised forms (semantic, not textual):
      for V, HS in <module-level dict {var: (attr, ...)}>.items():
          [if V in ds:]  ds[V].attrs = {k: v for k, v in ds[V].attrs.items() if k not in HS}
      del ds["var"].attrs["k"]      /     ds["var"].attrs.pop("k"[, ...])"""
    out = set()
    unknown = set()       # variables whose attrs are rewritten in a way that is not understood

    dsnames = {dsname}
    for st in iter_stmts(f.node.body):
        if isinstance(st, ast.Assign) and isinstance(st.targets[0], ast.Name) and isinstance(st.value, ast.Call) and isinstance(st.value.func, ast.Attribute) and st.value.func.attr in ("copy", "drop_vars") \
                and isinstance(st.value.func.value, ast.Name) and st.value.func.value.id in dsnames:
            dsnames.add(st.targets[0].id)

    def is_attrs_of(node, var_expr_pred):
        return (isinstance(node, ast.Attribute) and node.attr == "attrs" and isinstance(node.value, ast.Subscript)
                and isinstance(node.value.value, ast.Name) and node.value.value.id in dsnames and var_expr_pred(node.value.slice))

    for st in iter_stmts(f.node.body):
        if isinstance(st, ast.For) and isinstance(st.target, ast.Tuple) and len(st.target.elts) == 2 and all(isinstance(e, ast.Name) for e in st.target.elts):
            it = st.iter
            if not (isinstance(it, ast.Call) and isinstance(it.func, ast.Attribute) and it.func.attr == "items" and not it.args):
                continue
            r = P.resolve_expr(f.module, it.func.value, f)
            table = P.const_value(r) if isinstance(r, ConstInfo) else None
            if not isinstance(table, dict):
                continue
            vname, hname = st.target.elts[0].id, st.target.elts[1].id
            for s2 in iter_stmts(st.body):
                if not (isinstance(s2, ast.Assign) and len(s2.targets) == 1):
                    continue
                t, v = s2.targets[0], s2.value
                if not is_attrs_of(t, lambda sl: isinstance(sl, ast.Name) and sl.id == vname):
                    continue
                if not (isinstance(v, ast.DictComp) and len(v.generators) == 1):
                    continue
                gen = v.generators[0]
                src_ok = (isinstance(gen.iter, ast.Call) and isinstance(gen.iter.func, ast.Attribute) and gen.iter.func.attr == "items"
                          and is_attrs_of(gen.iter.func.value, lambda sl: isinstance(sl, ast.Name) and sl.id == vname))
                tgt_ok = isinstance(gen.target, ast.Tuple) and len(gen.target.elts) == 2 and all(isinstance(e, ast.Name) for e in gen.target.elts)
                if not (src_ok and tgt_ok):
                    continue
                kk, vv = gen.target.elts[0].id, gen.target.elts[1].id
                ident = isinstance(v.key, ast.Name) and v.key.id == kk and isinstance(v.value, ast.Name) and v.value.id == vv
                filt = any(isinstance(c, ast.Compare) and len(c.ops) == 1 and isinstance(c.ops[0], ast.NotIn) and isinstance(c.left, ast.Name) and c.left.id == kk
                           and isinstance(c.comparators[0], ast.Name) and c.comparators[0].id == hname for c in gen.ifs)
                if ident and filt and len(gen.ifs) == 1:
                    for var, helpers in table.items():
                        if isinstance(var, str) and isinstance(helpers, (tuple, list, set, frozenset)):
                            out |= {(var, h) for h in helpers if isinstance(h, str)}
        elif isinstance(st, ast.Assign) and len(st.targets) == 1 and is_attrs_of(st.targets[0], lambda sl: str_const(sl) is not None):
            # ds["var"].attrs = {k: v for k, v in ds["var"].attrs.items() if k not in ("a", "b")}     (also what a loop over a constant table normalises to);
            # the right-hand side may be produced by a helper of the package: its returned expression is used (uxsa/symx)
            var = str_const(st.targets[0].value.slice)
            v = st.value
            if isinstance(v, ast.Call):
                from .. import symx
                v = symx.Expander(P).expr(f, v, 0)
            if not (isinstance(v, ast.DictComp) and len(v.generators) == 1):
                unknown.add(var)
                continue
            # fold  TABLE["x"]  for module-level constant tables
            class _Fold(ast.NodeTransformer):
                def visit_Subscript(self_, n):
                    self_.generic_visit(n)
                    if isinstance(n.value, ast.Name) and str_const(n.slice) is not None:
                        r_ = P.resolve_expr(f.module, n.value, f)
                        tb = P.const_value(r_) if isinstance(r_, ConstInfo) else None
                        if isinstance(tb, dict) and str_const(n.slice) in tb and isinstance(tb[str_const(n.slice)], (tuple, list)) and all(isinstance(x, str) for x in tb[str_const(n.slice)]):
                            return ast.Tuple(elts=[ast.Constant(value=x) for x in tb[str_const(n.slice)]], ctx=ast.Load())
                    return n
            v = _Fold().visit(v)
            gen = v.generators[0]
            src_ok = (isinstance(gen.iter, ast.Call) and isinstance(gen.iter.func, ast.Attribute) and gen.iter.func.attr == "items"
                      and is_attrs_of(gen.iter.func.value, lambda sl: str_const(sl) == var))
            tgt_ok = isinstance(gen.target, ast.Tuple) and len(gen.target.elts) == 2 and all(isinstance(e, ast.Name) for e in gen.target.elts)
            done = False
            if src_ok and tgt_ok and len(gen.ifs) == 1:
                kk, vv = gen.target.elts[0].id, gen.target.elts[1].id
                ident = isinstance(v.key, ast.Name) and v.key.id == kk and isinstance(v.value, ast.Name) and v.value.id == vv
                c = gen.ifs[0]
                if ident and isinstance(c, ast.Compare) and len(c.ops) == 1 and isinstance(c.ops[0], ast.NotIn) and isinstance(c.left, ast.Name) and c.left.id == kk \
                        and isinstance(c.comparators[0], (ast.Tuple, ast.List, ast.Set)) and all(str_const(e) is not None for e in c.comparators[0].elts):
                    out |= {(var, str_const(e)) for e in c.comparators[0].elts}
                    done = True
            if not done:
                unknown.add(var)
        elif isinstance(st, ast.Delete):
            for t in st.targets:
                if isinstance(t, ast.Subscript) and str_const(t.slice) and is_attrs_of(t.value, lambda sl: str_const(sl) is not None):
                    out.add((str_const(t.value.value.slice), str_const(t.slice)))
        elif isinstance(st, ast.Expr) and isinstance(st.value, ast.Call) and isinstance(st.value.func, ast.Attribute) and st.value.func.attr == "pop":
            recv = st.value.func.value
            if st.value.args and str_const(st.value.args[0]) and is_attrs_of(recv, lambda sl: str_const(sl) is not None):
                out.add((str_const(recv.value.slice), str_const(st.value.args[0])))
    _attrs_stripped_in.unknown = unknown
    return out


_attrs_stripped_in.unknown = set()


def _stmt_lists(body):
    """every statement list (function body and bodies of compound statements), recursively"""
    yield body
    for st in body:
        if isinstance(st, (ast.FunctionDef, ast.AsyncFunctionDef, ast.ClassDef)):
            continue
        for fld in ("body", "orelse", "finalbody"):
            sub = getattr(st, fld, None)
            if sub:
                yield from _stmt_lists(sub)
        for h in getattr(st, "handlers", []) or []:
            yield from _stmt_lists(h.body)
