"""C06  Integration is the area-weighted sum over faces.

Decided: kind from dimension names (F-KIND); non-face branches raise; einsum contracts exactly the last
data axis with the 1-D areas; areas come from compute_face_areas(<the call's own rule, order>);
the result keeps name and grid and drops exactly the last dimension."""

import ast

from ..astutil import iter_stmts, norm, str_const, where
from ..loader import dotted
from ..rules import kind

DA = "uxarray/core/dataarray.py"


def check(run):
    P = run.program
    run.explanation = (
        "UxDataArray.integrate is decided structurally: (a) the face-centred test must use dimension names, not sizes; "
        "(b) the einsum subscripts are parsed: one 1-D operand contracted with the last axis of the other, output = leading axes; "
        "(c) the area operand is the result of self.uxgrid.compute_face_areas(quadrature_rule, order) with the method's own "
        "parameters in that order (not the cached face_areas); (d) the returned UxDataArray is built with uxgrid=self.uxgrid, "
        "name=self.name, dims=self.dims[:-1]; (e) every other branch of the dispatch raises.  Linearity and values follow from "
        "numpy's einsum semantics (assumed)."
    )
    run.rule_text = "F-KIND + F-PATH(raise) + einsum subscript parsing + argument provenance"
    run.assumptions = ["numpy.einsum semantics", "face areas are those of C05"]
    f = P.func(f"{DA}:UxDataArray.integrate")
    kind.check_kind_dispatch(run, P, [f.key])
    from ..rules import dtype as _dt
    _dt.check_float_results(run, P, [f.key, "uxarray/core/dataset.py:UxDataset.integrate"])
    from .c05 import _memo_paths
    _memo_paths(run, P, P.func("uxarray/grid/grid.py:Grid.compute_face_areas"))
    params = [p for p in f.params() if p != "self"]
    # (b) einsum
    ein = [c for c in ast.walk(f.node) if isinstance(c, ast.Call) and (dotted(c.func) or [""])[-1] == "einsum"]
    c0 = "UxDataArray.integrate:einsum"
    if not ein:
        run.incomplete("F-PATH/einsum-contraction", c0, where(f), "no einsum call found (contraction idiom changed)")
    for e in ein:
        spec = str_const(e.args[0]) if e.args else None
        ok = False
        detail = f"subscripts {spec!r}"
        if spec and "->" not in spec and len(e.args) == 3:
            a, b = [s.strip() for s in spec.split(",")]
            # areas 1-D 'i', data '...i'  (either order)
            for one, many, one_arg, many_arg in ((a, b, e.args[1], e.args[2]), (b, a, e.args[2], e.args[1])):
                if len(one) == 1 and many == "..." + one:
                    ok = True
                    area_arg, data_arg = one_arg, many_arg
        elif spec and "->" in spec and len(e.args) == 3:
            lhs, out = spec.split("->")
            a, b = [s.strip() for s in lhs.split(",")]
            for one, many, one_arg, many_arg in ((a, b, e.args[1], e.args[2]), (b, a, e.args[2], e.args[1])):
                if len(one) == 1 and many == "..." + one and out.strip() == "...":
                    ok = True
                    area_arg, data_arg = one_arg, many_arg
        if ok:
            run.holds("F-PATH/einsum-contraction", c0, where(f, e), f"{detail}: 1-D areas contracted with the last data axis")
            # (c) provenance of the area operand
            prov_ok = False
            for st in iter_stmts(f.node.body):
                if isinstance(st, ast.Assign) and isinstance(st.value, ast.Call):
                    d = dotted(st.value.func)
                    tnames = [n.id for t in st.targets for n in ast.walk(t) if isinstance(n, ast.Name)]
                    if d and d[-1] == "compute_face_areas" and isinstance(area_arg, ast.Name) and tnames and tnames[0] == area_arg.id:
                        passed = [norm(a) for a in st.value.args] + [f"{k.arg}={norm(k.value)}" for k in st.value.keywords]
                        want1 = params[:2]
                        want2 = [f"{p}={p}" for p in params[:2]]
                        prov_ok = passed[:2] == want1 or sorted(passed[:2]) == sorted(want2)
                        c = "UxDataArray.integrate:areas-from-own-arguments"
                        if prov_ok:
                            run.holds("F-PATH/area-provenance", c, where(f, st), f"areas = compute_face_areas({', '.join(passed)})")
                        else:
                            run.violation("F-PATH/area-provenance", c, where(f, st), f"areas computed with compute_face_areas({', '.join(passed)}) instead of the call's own ({', '.join(params[:2])})")
            if not prov_ok and not any(o.construct == "UxDataArray.integrate:areas-from-own-arguments" for o in run.obs):
                run.violation("F-PATH/area-provenance", "UxDataArray.integrate:areas-from-own-arguments", where(f, e),
                              f"the area operand {norm(area_arg)} is not the result of compute_face_areas(quadrature_rule, order) of this call")
            # data operand is self.values / self.data
            c = "UxDataArray.integrate:data-operand"
            if norm(data_arg) in ("self.values", "self.data", "self.to_numpy()"):
                run.holds("F-PATH/einsum-contraction", c, where(f, e), f"data operand {norm(data_arg)}")
            else:
                run.incomplete("F-PATH/einsum-contraction", c, where(f, e), f"data operand {norm(data_arg)} not recognised")
        else:
            run.violation("F-PATH/einsum-contraction", c0, where(f, e), f"einsum {detail} does not contract a 1-D area vector with exactly the last data axis leaving the leading axes")
    # (e) other branches raise: the if-chain containing the einsum
    for st in iter_stmts(f.node.body):
        if isinstance(st, ast.If) and any(isinstance(c, ast.Call) and (dotted(c.func) or [""])[-1] == "einsum" for s in st.body for c in ast.walk(s)):
            cur = st
            i = 0
            while True:
                other = cur.orelse
                if len(other) == 1 and isinstance(other[0], ast.If):
                    cur = other[0]
                    body = cur.body
                else:
                    body = other
                    cur = None
                i += 1
                c = f"UxDataArray.integrate:non-face-branch#{i}"
                if body:
                    if any(isinstance(s, ast.Raise) for s in body) and not any(isinstance(s, (ast.Assign, ast.Return)) for s in body):
                        run.holds("F-PATH/non-face-raises", c, where(f, body[0]), "branch raises")
                    else:
                        run.violation("F-PATH/non-face-raises", c, where(f, body[0]), "a non-face branch of the dispatch does not raise: data not defined on faces is integrated or passed through silently")
                else:
                    run.violation("F-PATH/non-face-raises", c, where(f, st), "the dispatch has no final else that raises")
                if cur is None:
                    break
            break
    # (d) result construction
    rets = [r for r in ast.walk(f.node) if isinstance(r, ast.Return) and r.value is not None]
    ctor = None
    for st in iter_stmts(f.node.body):
        if isinstance(st, ast.Assign) and isinstance(st.value, ast.Call) and (dotted(st.value.func) or [""])[-1] == "UxDataArray":
            ctor = st.value
    for r in rets:
        if isinstance(r.value, ast.Call) and (dotted(r.value.func) or [""])[-1] == "UxDataArray":
            ctor = r.value
    c = "UxDataArray.integrate:result"
    if ctor is None:
        run.incomplete("F-PATH/result-construction", c, where(f), "construction of the result not found")
    else:
        kw = {k.arg: norm(k.value) for k in ctor.keywords}
        want = {"uxgrid": "self.uxgrid", "name": "self.name", "dims": "self.dims[:-1]"}
        for k, v in want.items():
            cc = f"{c}:{k}"
            if kw.get(k) == v:
                run.holds("F-PATH/result-construction", cc, where(f, ctor), f"{k}={v}")
            else:
                run.violation("F-PATH/result-construction", cc, where(f, ctor), f"result built with {k}={kw.get(k)}; the property requires {k}={v}")
