"""C06  Integration is the area-weighted sum over faces.

Decided: kind from dimension names (F-KIND); non-face branches raise; einsum contracts exactly the last
data axis with the 1-D areas; areas come from compute_face_areas(<the call's own rule, order>);
the result keeps name and grid and drops exactly the last dimension;
no triangle area (length of the cross product of two edge vectors) is compared with the length tolerance in uxarray/grid (F-DIM/area-vs-tolerance, contradiction rule)."""

import ast

from ..astutil import iter_stmts, norm, str_const, where
from ..loader import dotted
from ..rules import kind

DA = "uxarray/core/dataarray.py"


def check(run):
    P = run.program
    run.explanation = (
        "UxDataArray.integrate is decided structurally: (a) the face-centred test must use dimension names, not sizes; "
        "(b) the einsum subscripts are parsed: one 1-D operand contracted with the last axis of the other, output = leading axes; "
        "(c) the area operand is the result of self.uxgrid.compute_face_areas(quadrature_rule, order) with the method's own "
        "parameters in that order (not the cached face_areas); (d) the returned UxDataArray is built with uxgrid=self.uxgrid, "
        "name=self.name, dims=self.dims[:-1]; (e) every other branch of the dispatch raises.  Linearity and values follow from "
        "numpy's einsum semantics (assumed)."
    )
    run.rule_text = "F-KIND + F-PATH(raise) + einsum subscript parsing + argument provenance"
    run.assumptions = ["numpy.einsum semantics", "face areas are those of C05"]
    f = P.func(f"{DA}:UxDataArray.integrate")
    kind.check_kind_dispatch(run, P, [f.key])
    from ..rules import dtype as _dt
    _dt.check_float_results(run, P, [f.key, "uxarray/core/dataset.py:UxDataset.integrate"])
    from .c05 import _memo_paths
    _memo_paths(run, P, P.func("uxarray/grid/grid.py:Grid.compute_face_areas"))
    params = [p for p in f.params() if p != "self"]
    _options_forwarded(run, P)
    from ..rules import sqtol as _sq
    _sq.check_area(run, P, ("uxarray/grid/",))
    _options_not_rewritten(run, P)
    _data_not_modified(run, P)
    # (b) einsum
    ein = [c for c in ast.walk(f.node) if isinstance(c, ast.Call) and (dotted(c.func) or [""])[-1] == "einsum"]
    c0 = "UxDataArray.integrate:einsum"
    if not ein:
        run.incomplete("F-PATH/einsum-contraction", c0, where(f), "no einsum call found (contraction idiom changed)")
    for e in ein:
        spec = str_const(e.args[0]) if e.args else None
        ok = False
        detail = f"subscripts {spec!r}"
        if spec and "->" not in spec and len(e.args) == 3:
            a, b = [s.strip() for s in spec.split(",")]
            # areas 1-D 'i', data '...i'  (either order)
            for one, many, one_arg, many_arg in ((a, b, e.args[1], e.args[2]), (b, a, e.args[2], e.args[1])):
                if len(one) == 1 and many == "..." + one:
                    ok = True
                    area_arg, data_arg = one_arg, many_arg
        elif spec and "->" in spec and len(e.args) == 3:
            lhs, out = spec.split("->")
            a, b = [s.strip() for s in lhs.split(",")]
            for one, many, one_arg, many_arg in ((a, b, e.args[1], e.args[2]), (b, a, e.args[2], e.args[1])):
                if len(one) == 1 and many == "..." + one and out.strip() == "...":
                    ok = True
                    area_arg, data_arg = one_arg, many_arg
        if ok:
            run.holds("F-PATH/einsum-contraction", c0, where(f, e), f"{detail}: 1-D areas contracted with the last data axis")
            # (c) provenance of the area operand
            prov_ok = False
            for st in iter_stmts(f.node.body):
                if isinstance(st, ast.Assign) and isinstance(st.value, ast.Call):
                    d = dotted(st.value.func)
                    tnames = [n.id for t in st.targets for n in ast.walk(t) if isinstance(n, ast.Name)]
                    if d and d[-1] == "compute_face_areas" and isinstance(area_arg, ast.Name) and tnames and tnames[0] == area_arg.id:
                        passed = [norm(a) for a in st.value.args] + [f"{k.arg}={norm(k.value)}" for k in st.value.keywords]
                        want1 = params[:2]
                        want2 = [f"{p}={p}" for p in params[:2]]
                        prov_ok = passed[:2] == want1 or sorted(passed[:2]) == sorted(want2)
                        c = "UxDataArray.integrate:areas-from-own-arguments"
                        if prov_ok:
                            run.holds("F-PATH/area-provenance", c, where(f, st), f"areas = compute_face_areas({', '.join(passed)})")
                        else:
                            run.violation("F-PATH/area-provenance", c, where(f, st), f"areas computed with compute_face_areas({', '.join(passed)}) instead of the call's own ({', '.join(params[:2])})")
            if not prov_ok and not any(o.construct == "UxDataArray.integrate:areas-from-own-arguments" for o in run.obs):
                run.violation("F-PATH/area-provenance", "UxDataArray.integrate:areas-from-own-arguments", where(f, e),
                              f"the area operand {norm(area_arg)} is not the result of compute_face_areas(quadrature_rule, order) of this call")
            # data operand is self.values / self.data
            c = "UxDataArray.integrate:data-operand"
            if norm(data_arg) in ("self.values", "self.data", "self.to_numpy()"):
                run.holds("F-PATH/einsum-contraction", c, where(f, e), f"data operand {norm(data_arg)}")
            else:
                run.incomplete("F-PATH/einsum-contraction", c, where(f, e), f"data operand {norm(data_arg)} not recognised")
        else:
            run.violation("F-PATH/einsum-contraction", c0, where(f, e), f"einsum {detail} does not contract a 1-D area vector with exactly the last data axis leaving the leading axes")
    # (e) other branches raise: the if-chain containing the einsum
    for st in iter_stmts(f.node.body):
        if isinstance(st, ast.If) and any(isinstance(c, ast.Call) and (dotted(c.func) or [""])[-1] == "einsum" for s in st.body for c in ast.walk(s)):
            cur = st
            i = 0
            while True:
                other = cur.orelse
                if len(other) == 1 and isinstance(other[0], ast.If):
                    cur = other[0]
                    body = cur.body
                else:
                    body = other
                    cur = None
                i += 1
                c = f"UxDataArray.integrate:non-face-branch#{i}"
                if body:
                    if any(isinstance(s, ast.Raise) for s in body) and not any(isinstance(s, (ast.Assign, ast.Return)) for s in body):
                        run.holds("F-PATH/non-face-raises", c, where(f, body[0]), "branch raises")
                    else:
                        run.violation("F-PATH/non-face-raises", c, where(f, body[0]), "a non-face branch of the dispatch does not raise: data not defined on faces is integrated or passed through silently")
                else:
                    run.violation("F-PATH/non-face-raises", c, where(f, st), "the dispatch has no final else that raises")
                if cur is None:
                    break
            break
    # (d) result construction
    rets = [r for r in ast.walk(f.node) if isinstance(r, ast.Return) and r.value is not None]
    ctor = None
    for st in iter_stmts(f.node.body):
        if isinstance(st, ast.Assign) and isinstance(st.value, ast.Call) and (dotted(st.value.func) or [""])[-1] == "UxDataArray":
            ctor = st.value
    for r in rets:
        if isinstance(r.value, ast.Call) and (dotted(r.value.func) or [""])[-1] == "UxDataArray":
            ctor = r.value
    c = "UxDataArray.integrate:result"
    if ctor is None:
        run.incomplete("F-PATH/result-construction", c, where(f), "construction of the result not found")
    else:
        kw = {k.arg: norm(k.value) for k in ctor.keywords}
        want = {"uxgrid": "self.uxgrid", "name": "self.name", "dims": "self.dims[:-1]"}
        for k, v in want.items():
            cc = f"{c}:{k}"
            if kw.get(k) == v:
                run.holds("F-PATH/result-construction", cc, where(f, ctor), f"{k}={v}")
            else:
                run.violation("F-PATH/result-construction", cc, where(f, ctor), f"result built with {k}={kw.get(k)}; the property requires {k}={v}")


def _options_forwarded(run, P):
    """quadrature_rule and order of every integrate entry point reach the area computation in their own roles: a parameter that is accepted but never read, or
    that is handed to the delegate under the other option's name/position, makes the integral use the default rule/order whatever the caller asked for."""
    OPTS = ("quadrature_rule", "order")
    SIG = {"compute_face_areas": ["quadrature_rule", "order", "latlon"], "integrate": ["quadrature_rule", "order"], "calculate_total_face_area": ["quadrature_rule", "order"]}
    for key in (f"{DA}:UxDataArray.integrate", "uxarray/core/dataset.py:UxDataset.integrate"):
        f = P.func(key)
        ps = [p for p in f.params() if p in OPTS]
        loads = {n.id for n in ast.walk(f.node) if isinstance(n, ast.Name) and isinstance(n.ctx, ast.Load)}
        for p_ in ps:
            c = f"{f.key}:option-forwarded[{p_}]"
            if p_ not in loads:
                run.violation("F-PATH/area-provenance", c, where(f), f"parameter {p_} is accepted but never read: the areas are computed with the default {p_} whatever the caller requests")
                continue
            roles = []
            for call in ast.walk(f.node):
                if isinstance(call, ast.Call) and (dotted(call.func) or [""])[-1] in SIG:
                    sig_ = SIG[(dotted(call.func) or [""])[-1]]
                    for i, a in enumerate(call.args):
                        if isinstance(a, ast.Name) and a.id == p_ and i < len(sig_):
                            roles.append((call, sig_[i]))
                    for k in call.keywords:
                        if isinstance(k.value, ast.Name) and k.value.id == p_ and k.arg:
                            roles.append((call, k.arg))
            wrong = [(cl, r) for cl, r in roles if r != p_]
            if wrong:
                run.violation("F-PATH/area-provenance", c, where(f, wrong[0][0]), f"{p_} is passed to {norm(wrong[0][0].func)} in the role of {wrong[0][1]}")
            elif roles:
                run.holds("F-PATH/area-provenance", c, where(f, roles[0][0]), f"{p_} forwarded as {p_}")
            else:
                run.incomplete("F-PATH/area-provenance", c, where(f), f"{p_} is read but not seen to reach compute_face_areas / integrate")


def _options_not_rewritten(run, P):
    """Inside the area module the requested rule and order reach the table getters as they were given: neither `order` nor `quadrature_rule` is rebound on the way
    (a "snap to the next tabulated order" helper is a second table of supported orders that has to agree with the getters' own branches - not decided, so not accepted silently)."""
    from ..astutil import LocalDefs
    n = 0
    for f in P.all_functions():
        if f.module.relpath != "uxarray/grid/area.py":
            continue
        ps = [p for p in f.params() if p in ("order", "quadrature_rule")]
        if not ps:
            continue
        defs = LocalDefs(f.node)
        for p_ in ps:
            n += 1
            c = f"{f.key}:option-unchanged[{p_}]"
            rebinds = [v for v, _i, _l in defs.defs.get(p_, []) if not (isinstance(v, ast.Name) and v.id == p_)]      # `order = order` is a no-op
            if rebinds:
                v = rebinds[0]
                run.incomplete("F-PATH/area-provenance", c, where(f, v), f"{p_} is rebound to `{norm(v)[:60]}` before it selects the quadrature table: which orders/rules that maps onto which is not decided")
            else:
                run.holds("F-PATH/area-provenance", c, where(f), f"{p_} selects the table as requested")
    run.floor("F-PATH/area-provenance/options-in-area", n, 4)


def _data_not_modified(run, P):
    """integrate() only reads the variable: no in-place operation (x *= a, x[...] = v, out=x) on anything that is a view of self.values / self.data (np.asarray, .values,
    .data, reshape, ravel, basic slices keep the buffer; astype/np.array/.copy()/arithmetic make a new one)."""
    from ..astutil import LocalDefs
    VIEW = {"asarray", "asanyarray", "reshape", "ravel", "squeeze", "transpose", "atleast_1d", "atleast_2d", "expand_dims", "view"}
    for key in (f"{DA}:UxDataArray.integrate", "uxarray/core/dataset.py:UxDataset.integrate"):
        f = P.func(key)
        selfn = f.params()[0]
        defs = LocalDefs(f.node)

        def is_view_of_data(e, depth=0, seen=()):
            if depth > 6:
                return False
            if isinstance(e, ast.Attribute):
                if e.attr in ("values", "data", "T"):
                    return (isinstance(e.value, ast.Name) and e.value.id == selfn) or is_view_of_data(e.value, depth + 1, seen) or (isinstance(e.value, ast.Subscript) and isinstance(e.value.value, ast.Name) and e.value.value.id == selfn)
                return False
            if isinstance(e, ast.Name):
                if e.id in seen:
                    return False
                return any(is_view_of_data(v, depth + 1, seen + (e.id,)) for v, _i, _l in defs.defs.get(e.id, []))
            if isinstance(e, ast.Subscript):
                sl = e.slice
                basic = isinstance(sl, (ast.Slice, ast.Constant)) or (isinstance(sl, ast.Tuple) and all(isinstance(x, (ast.Slice, ast.Constant)) for x in sl.elts))
                return basic and is_view_of_data(e.value, depth + 1, seen)
            if isinstance(e, ast.Call):
                nm = (dotted(e.func) or [""])[-1]
                if nm in VIEW:
                    src = e.args[0] if (e.args and isinstance(e.func, ast.Attribute) and isinstance(e.func.value, ast.Name) and e.func.value.id in ("np", "numpy")) else (e.func.value if isinstance(e.func, ast.Attribute) else None)
                    return src is not None and is_view_of_data(src, depth + 1, seen)
            return False
        c = f"{f.key}:data-not-modified"
        bad = None
        for st in iter_stmts(f.node.body):
            tgt = None
            if isinstance(st, ast.AugAssign):
                tgt = st.target.value if isinstance(st.target, ast.Subscript) else st.target
            elif isinstance(st, ast.Assign) and isinstance(st.targets[0], ast.Subscript) and not (isinstance(st.targets[0].value, ast.Attribute) and st.targets[0].value.attr == "_ds"):
                tgt = st.targets[0].value
            if tgt is not None and is_view_of_data(tgt):
                bad = bad or st
            for cl in ast.walk(st):
                if isinstance(cl, ast.Call):
                    o = next((k.value for k in cl.keywords if k.arg == "out"), None)
                    if o is not None and is_view_of_data(o):
                        bad = bad or st
        if bad is not None:
            run.violation("GRIDBUF/write", c, where(f, bad), f"{norm(bad)[:70]} writes into the data variable's own buffer (np.asarray / .values do not copy float64 data): after integrate() the variable holds value x area, "
                          "so a second integration, or any later use of the data, is wrong")
        else:
            run.holds("GRIDBUF/write", c, where(f), "no in-place operation on a view of the variable's data")
