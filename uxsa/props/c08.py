"""C08  Reading from a grid never changes what any grid reports.

Decided: (a) no write to module-level mutable state on any path of the package (F-GLOBAL);
(b) memo keys complete and side tables atomic (F-CACHE); (c) lazily derived variables written once,
private attributes initialised (F-LAZY); (d) JIT-independent comparisons (F-NJIT)."""

from ..rules import cache, lazy, njit
from ..rules.common import dataflow, emit

SLOTS = {"_gdf_cached_parameters", "_poly_collection_cached_parameters", "_line_collection_cached_parameters"}
# configuration setters: documented to change module state, not read-only operations
CONFIG_SETTERS = ("uxarray/utils/numba_settings.py", "uxarray/utils/computing.py", "uxarray/__init__.py")


def check(run):
    P = run.program
    run.explanation = (
        "Package-wide effect analysis: every value aliased to a module-level dict/list/array (all of conventions/*, "
        "constants, NUMPY_AGGREGATIONS, POLE_POINTS, ...) is tracked through locals and calls; any item/augmented "
        "assignment, del, update/append/pop/... through such an alias is a violation.  Memo methods are decided by "
        "P (parameters flowing into the builder) subset of K (compared keys) subset of S (stored keys), and side tables written by builders "
        "that do not receive the cache flag are violations.  Lazy variables: every _ds store in a _populate_* function "
        "must be dominated by an absence test (own or at every call site) or an explicit repopulate flag; every private "
        "attribute read in Grid is assigned in __init__.  Value equality with a fresh grid over all call histories is "
        "NOT decided (needs the values)."
    )
    run.rule_text = "F-GLOBAL + F-CACHE + F-LAZY + F-NJIT"
    run.assumptions = [
        "passing a module-level dict as attrs= to xr.DataArray is not a write (Variable.attrs setter copies with dict())",
        "explicit configuration setters (numba_settings, enable_fma) are not read-only operations and are excluded",
    ]
    R = dataflow(P, run.tier)
    ok, bad = emit(run, R, {"GLOBAL/write"}, where_filter=lambda f: f.func.module.relpath not in CONFIG_SETTERS)
    emit(run, R, {"GRIDBUF/write"})
    # `global X` rebinding outside the configuration setters
    import ast
    n_glob = 0
    for f in P.all_functions():
        for n in ast.walk(f.node):
            if isinstance(n, ast.Global):
                n_glob += 1
                c = f"{f.key}:global:{','.join(n.names)}"
                if f.module.relpath in CONFIG_SETTERS:
                    run.holds("F-GLOBAL/global-stmt", c, f"{f.module.relpath}:{n.lineno}", "configuration setter (named exception)", nontrivial=False)
                else:
                    run.violation("F-GLOBAL/global-stmt", c, f"{f.module.relpath}:{n.lineno}", f"function rebinds module-level name(s) {n.names}")
    run.stats["module_level_mutables_tracked"] = sum(
        1 for m in P.modules.values() for d in m.defs.values() if d.__class__.__name__ == "ConstInfo"
    )
    cache.check_collection_memo(run, P, "to_geodataframe", "_gdf_cached_parameters", "gdf", "_grid_to_polygon_geodataframe")
    cache.check_collection_memo(run, P, "to_polycollection", "_poly_collection_cached_parameters", "poly_collection", "_grid_to_matplotlib_polycollection")
    cache.check_collection_memo(run, P, "to_linecollection", "_line_collection_cached_parameters", "line_collection", "_grid_to_matplotlib_linecollection")
    cache.check_side_tables(run, P, SLOTS)
    cache.check_slot_readers(run, P)
    cache.check_side_tables_total(run, P, SLOTS)
    cache.check_tree_memo(run, P, "get_ball_tree", "_ball_tree", "BallTree")
    cache.check_tree_memo(run, P, "get_kd_tree", "_kd_tree", "KDTree")
    n = lazy.check_no_overwrite(run, P)
    run.floor("F-LAZY/no-overwrite", n, 25)
    lazy.check_private_attrs_initialised(run, P)
    run.floor("F-LAZY/single-deriver", lazy.check_single_deriver(run, P), 3)
    njit.check_identity_comparisons(run, P)
    # the cached tree wrapper is switched between element kinds through its `coordinates` setter: the k-bound must follow
    from .c11 import _element_count_follows_kind
    _element_count_follows_kind(run, P)
    run.stats.update(R.I.stats)
