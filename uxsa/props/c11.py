"""C11  Neighbour queries agree with brute-force search under the tree's metric.

Decided: tree memo key (F-CACHE); units of tree inputs / query points / radius / distances incl.
BallTree-vs-KDTree sibling agreement (F-UNIT); element-kind tables of both classes (F-TABLE).
arguments handed to the sklearn trees sit in their own slots and sort_results reaches a k-nearest query unweakened; the query array stays point-major (a transposition needs a guard that excludes a square batch)."""

from ..rules import cache, table, units
from ..rules.common import dataflow, emit

NEI = "uxarray/grid/neighbors.py"


def check(run):
    P = run.program
    run.explanation = (
        "The tree memo of Grid.get_ball_tree/get_kd_tree must key on every constructor argument; tree inputs on the "
        "spherical path must be radians built from the grid's degree coordinates of the requested kind, in (lat, lon) order; "
        "query/query_radius of both classes must apply the same unit conversions to the same-named parameters and results "
        "(cross-check of siblings); every branch on an element-kind literal touches only that kind's coordinates, "
        "dimension and tree slot.  Agreement with brute force / ordering / ties is sklearn's and numerical: not decided."
    )
    run.rule_text = "F-CACHE tree memo; F-UNIT tree inputs + sibling conversions; F-TABLE kind branches"
    run.assumptions = ["sklearn BallTree(metric='haversine') expects (lat, lon) in radians", "Grid lon/lat coordinates are degrees (schema)"]
    cache.check_tree_memo(run, P, "get_ball_tree", "_ball_tree", "BallTree")
    cache.check_tree_memo(run, P, "get_kd_tree", "_kd_tree", "KDTree")
    R = dataflow(P, run.tier)
    ok, bad = emit(run, R, {"UNIT/tree-input", "UNIT/deg->trig", "UNIT/double-conversion"}, files=[NEI])
    funcs = [f for f in P.all_functions() if f.module.relpath == NEI and f.cls is not None]
    n = table.check_kind_branches(run, P, funcs)
    run.floor("F-TABLE/kind-branch", n, 18)
    units.check_tree_builders(run, P)
    units.check_query_siblings(run, P)
    _query_preparation(run, P)
    _sklearn_positional(run, P)
    _query_layout(run, P)
    _element_count_follows_kind(run, P)


def _query_preparation(run, P):
    """_prepare_xy_for_query: the column swap to (lat, lon) depends on the metric ONLY and the degree->radian conversion on
    use_radians ONLY - checked on every returning path (truth table over the two atoms)."""
    import ast
    from ..astutil import norm, where
    from ..flow import enumerate_paths
    from ..loader import dotted
    f = P.func(f"{NEI}:_prepare_xy_for_query")
    p0 = f.params()[0]
    paths = [p for p in enumerate_paths(f.node.body) if p.exit == "return"]
    seen = {}
    NEUTRAL = {"asarray", "array", "expand_dims", "atleast_2d", "ascontiguousarray", "copy", "reshape", "astype"}
    unknown = []

    def helper_effect(h, depth):
        """(flips, conv) a same-module helper applies to its first parameter on every returning path, or None when paths disagree / not understood"""
        hp = h.params()
        if not hp:
            return None
        effs = set()
        for hpth in [q for q in enumerate_paths(h.node.body) if q.exit == "return"]:
            st_ = track(hpth, hp[0], depth + 1)
            if st_ is None:
                return None
            effs.add(st_)
        return effs.pop() if len(effs) == 1 else None

    def ev(e, var, state, depth):
        """state of expression e given the current (flips, conv) state of `var`; None = not understood"""
        if isinstance(e, ast.Name):
            return state if e.id == var else None
        if isinstance(e, ast.Subscript):
            inner = ev(e.value, var, state, depth)
            if inner is None:
                return None
            sl = e.slice
            if isinstance(sl, ast.Tuple) and len(sl.elts) == 2:
                first, second = sl.elts
                whole = (isinstance(first, ast.Slice) and first.lower is None and first.upper is None and first.step is None) or (isinstance(first, ast.Constant) and first.value is Ellipsis)
                rev = isinstance(second, ast.Slice) and second.lower is None and second.upper is None and second.step is not None and norm(second.step) == "-1"
                perm = isinstance(second, ast.List) and [norm(x) for x in second.elts] == ["1", "0"]
                if whole and (rev or perm):
                    return (inner[0] + 1, inner[1])
            return None
        if isinstance(e, ast.Call):
            nm = (dotted(e.func) or [""])[-1]
            recv = e.func.value if isinstance(e.func, ast.Attribute) and not (isinstance(e.func.value, ast.Name) and e.func.value.id in ("np", "numpy")) else None
            arg0 = recv if recv is not None else (e.args[0] if e.args else None)
            if arg0 is None:
                return None
            inner = ev(arg0, var, state, depth)
            if inner is None:
                return None
            if nm in ("flip", "fliplr"):
                ax = next((k.value for k in e.keywords if k.arg == "axis"), e.args[1] if len(e.args) > 1 and recv is None else None)
                if nm == "flip" and (ax is None or norm(ax) not in ("1", "-1")):
                    return None
                return (inner[0] + 1, inner[1])
            if nm in ("deg2rad", "radians"):
                return (inner[0], inner[1] + 1)
            if nm in ("rad2deg", "degrees"):
                return (inner[0], inner[1] - 1)
            if nm in NEUTRAL:
                return inner
            tgt = P.resolve_expr(f.module, e.func, f)
            from ..loader import FuncInfo
            if isinstance(tgt, FuncInfo) and depth < 2:
                eff = helper_effect(tgt, depth)
                if eff is not None:
                    return (inner[0] + eff[0], inner[1] + eff[1])
            return None
        return None

    def track(p, var, depth=0):
        """(flips, conv) applied to `var` along the path up to and including its return expression"""
        state = (0, 0)
        ret = None
        for e in p.events:
            if isinstance(e, ast.Assign) and len(e.targets) == 1 and norm(e.targets[0]) == var:
                new = ev(e.value, var, state, depth)
                if new is None:
                    return None
                state = new
            elif isinstance(e, ast.Return) and e.value is not None:
                ret = e.value
        if ret is None:
            ret = p.ret      # enumerate_paths keeps the returned expression on the path
        if ret is not None:
            return ev(ret, var, state, depth)
        return state
    for p in paths:
        facts = p.cond_facts()
        hav = next((v for k, v in facts.items() if "haversine" in k and "==" in k), None)
        rad = facts.get("use_radians")
        st_ = track(p, p0)
        if st_ is None:
            unknown.append(p)
            continue
        flips, conv = st_
        # an atom not tested on this path: the path stands for both of its values
        for hv in ([hav] if hav is not None else [True, False]):
            for rd in ([rad] if rad is not None else [True, False]):
                seen[(hv, rd)] = (flips % 2 == 1, conv)
    c = f"{f.key}:swap-and-units-independent"
    if unknown:
        run.incomplete("F-UNIT/query-preparation", c, where(f), f"{len(unknown)} returning path(s) transform the query points in a way that is not understood")
        return
    if len(seen) < 4:
        run.incomplete("F-UNIT/query-preparation", c, where(f), f"only {sorted(seen)} of the 4 (haversine, use_radians) combinations reach a return")
        return
    probs = []
    for (hav, rad), (flipped, conv) in sorted(seen.items()):
        if flipped != hav:
            probs.append(f"metric haversine={hav}, in_radians={rad}: columns {'are' if flipped else 'are not'} swapped to (lat, lon)")
        if conv != (0 if rad else 1):
            probs.append(f"metric haversine={hav}, in_radians={rad}: {conv} degree->radian conversion(s)")
    if probs:
        run.violation("F-UNIT/query-preparation", c, where(f), "; ".join(probs) + " - the haversine tree is built from (lat, lon) in radians whatever unit the query uses")
    else:
        run.holds("F-UNIT/query-preparation", c, where(f), "swap iff haversine, conversion iff degrees, on all four combinations", facts={str(k): v for k, v in seen.items()})


# scikit-learn's documented signatures (BinaryTree.query / query_radius); the wrappers pass their same-named parameters positionally
SKLEARN_SIG = {
    "query": ["X", "k", "return_distance", "dualtree", "breadth_first", "sort_results"],
    "query_radius": ["X", "r", "return_distance", "count_only", "sort_results"],
}


def _query_layout(run, P):
    """The query arrays are point-major ([n_points, n_components]).  A transposition of the query array inside the preparation helpers is admissible only under a
    guard that excludes the point-major reading (`x.shape[1] != n_components`): without it a batch of exactly n_components points - a square array - is transposed
    although it already is point-major, and every index/distance of that batch is wrong."""
    import ast
    from ..astutil import norm, where
    for fname, ncomp in (("_prepare_xyz_for_query", 3), ("_prepare_xy_for_query", 2)):
        f = P.func(f"{NEI}:{fname}")
        p0 = f.params()[0]
        c = f"{f.key}:layout"

        def transposes(e):
            for n in ast.walk(e):
                if isinstance(n, ast.Attribute) and n.attr == "T" and norm(n.value) == p0:
                    yield n
                if isinstance(n, ast.Call) and (n.func.attr if isinstance(n.func, ast.Attribute) else getattr(n.func, "id", "")) in ("transpose", "swapaxes", "moveaxis") and (norm(n.func.value) == p0 if isinstance(n.func, ast.Attribute) and not (isinstance(n.func.value, ast.Name) and n.func.value.id in ("np", "numpy")) else (n.args and norm(n.args[0]) == p0)):
                    yield n
        found = []

        def walk(stmts, guards):
            for st in stmts:
                if isinstance(st, ast.If):
                    walk(st.body, guards + [(st.test, True)])
                    walk(st.orelse, guards + [(st.test, False)])
                elif isinstance(st, (ast.For, ast.While, ast.With, ast.Try)):
                    for fld in ("body", "orelse", "finalbody"):
                        walk(getattr(st, fld, []) or [], guards)
                else:
                    for t in transposes(st):
                        found.append((st, t, guards))
        walk(f.node.body, [])
        if not found:
            run.holds("F-PATH/query-layout", c, where(f), "the query array is never transposed: point-major throughout")
            continue
        for st, t, guards in found:
            excl = False
            for g, truth in guards:
                if not truth:
                    continue
                conj = g.values if isinstance(g, ast.BoolOp) and isinstance(g.op, ast.And) else [g]
                for cmp_ in conj:
                    if (isinstance(cmp_, ast.Compare) and len(cmp_.ops) == 1 and isinstance(cmp_.ops[0], ast.NotEq) and norm(cmp_.left) in (f"{p0}.shape[1]", f"{p0}.shape[-1]")
                            and isinstance(cmp_.comparators[0], ast.Constant) and cmp_.comparators[0].value == ncomp):
                        excl = True
            if excl:
                run.holds("F-PATH/query-layout", c, where(f, st), f"transposition only when the array is not point-major ({p0}.shape[1] != {ncomp})")
            else:
                run.violation("F-PATH/query-layout", c, where(f, st), f"`{norm(st)[:60]}` transposes the query points under a guard that a point-major batch of exactly {ncomp} points also satisfies "
                              f"(no `{p0}.shape[1] != {ncomp}`): such a batch is queried with its coordinates mixed up")


def _sklearn_positional(run, P):
    """every positional argument handed to the sklearn tree sits in the slot of the sklearn parameter of the same name
    (two booleans exchanged compile and run, but e.g. turn off sort_results: neighbours are no longer nearest-first)"""
    import ast
    from ..astutil import norm, where
    n = 0
    covered = set()
    for f in P.all_functions():
        if f.module.relpath != NEI or f.cls is None:
            continue
        for c in ast.walk(f.node):
            if isinstance(c, ast.Call) and isinstance(c.func, ast.Attribute) and c.func.attr in SKLEARN_SIG and "_current_tree()" in norm(c.func.value):
                sig_ = SKLEARN_SIG[c.func.attr]
                n += 1
                covered.add(f.key)
                key = f"{f.key}:call({c.func.attr})@{'with' if any('d' == norm(t) or 'd,' in norm(t) for t in []) else ''}{c.lineno - f.node.lineno}"
                bad = []
                for i, a in enumerate(c.args[1:], start=1):
                    if i < len(sig_) and isinstance(a, ast.Name) and a.id in sig_ and a.id != sig_[i]:
                        bad.append(f"argument '{a.id}' is passed in the slot of sklearn's '{sig_[i]}'")
                for k in c.keywords:
                    if k.arg in sig_ and isinstance(k.value, ast.Name) and k.value.id in sig_ and k.value.id != k.arg:
                        bad.append(f"'{k.value.id}' passed as {k.arg}=")
                # k-nearest queries: what reaches sklearn's sort_results is the caller's own choice (default True).  sklearn returns the k neighbours in heap
                # order (farthest first) when it is False, with or without distances, so weakening it breaks "nearest first" for the calls it is weakened for.
                if c.func.attr == "query":
                    from ..astutil import LocalDefs
                    sr = c.args[5] if len(c.args) > 5 else next((k.value for k in c.keywords if k.arg == "sort_results"), None)
                    ld = LocalDefs(f.node)
                    if isinstance(sr, ast.Name) and sr.id == "sort_results" and ld.defs.get("sort_results"):
                        exprs = [v for v, _i, _l in ld.defs["sort_results"]]
                        weak = [e for e in exprs for b in ast.walk(e) if isinstance(b, ast.BoolOp) and isinstance(b.op, ast.And) and any(isinstance(x, ast.Name) and x.id == "sort_results" for x in ast.walk(b)) and any(isinstance(x, ast.Name) and x.id != "sort_results" for x in ast.walk(b))]
                        if weak:
                            bad.append(f"sort_results is rebound to `{norm(weak[0])[:60]}` before it reaches the tree: a k-nearest query asked to sort comes back in heap order (farthest first) whenever the other operand is false")
                        else:
                            run.incomplete("F-SIG/sklearn-positional", key + ":sort_results", where(f, c), f"sort_results is rebound in the method ({norm(exprs[0])[:60]}): what reaches the tree is not decided")
                    elif sr is not None and not (isinstance(sr, ast.Name) and sr.id == "sort_results") and not (isinstance(sr, ast.Constant) and sr.value is True):
                        if isinstance(sr, ast.Constant) and sr.value is False:
                            bad.append("sort_results=False is hard-wired: the k nearest come back in heap order, not nearest first")
                        else:
                            run.incomplete("F-SIG/sklearn-positional", key + ":sort_results", where(f, c), f"sort_results={norm(sr)[:60]} is not the method's own parameter")
                if bad:
                    run.violation("F-SIG/sklearn-positional", key, where(f, c), "; ".join(bad) + f" (sklearn: {c.func.attr}({', '.join(sig_)}))")
                else:
                    run.holds("F-SIG/sklearn-positional", key, where(f, c), f"positional arguments follow sklearn's {c.func.attr}({', '.join(sig_)})")
    # non-vacuity: every query method of both tree classes hands its arguments to the wrapped tree at least once (the NUMBER of call sites is free:
    # merging the with/without-distance calls into one is behaviour-preserving)
    run.floor("F-SIG/sklearn-positional", len(covered), 4)


def _element_count_follows_kind(run, P):
    """the `coordinates` setter of both tree classes: the element count used to validate k is that of the kind just selected on EVERY
    path of the kind's branch (also when the kind's sklearn tree already exists and is only switched to)"""
    import ast
    from ..astutil import norm, str_const, where
    from ..flow import enumerate_paths
    KIND = {"nodes": "n_node", "face centers": "n_face", "edge centers": "n_edge"}
    for cls in ("BallTree", "KDTree"):
        ci = P.cls(f"{NEI}:{cls}")
        setter = None
        for st in ci.node.body:
            if isinstance(st, ast.FunctionDef) and st.name == "coordinates" and any(norm(d).endswith(".setter") for d in st.decorator_list):
                setter = st
        c0 = f"{cls}.coordinates.setter"
        if setter is None:
            run.incomplete("F-TABLE/element-count", c0, NEI, "coordinates setter not found")
            continue
        chain = next((s2 for s2 in setter.body if isinstance(s2, ast.If)), None)
        seen = set()
        stx = chain
        while stx is not None:
            lit = next((n.value for n in ast.walk(stx.test) if isinstance(n, ast.Constant) and n.value in KIND), None)
            if lit is not None:
                seen.add(lit)
                paths = [p for p in enumerate_paths(stx.body) if p.exit != "raise"]
                bad = 0
                for p in paths:
                    vals = [norm(e.value) for e in p.events if isinstance(e, ast.Assign) and norm(e.targets[0]) == "self._n_elements"]
                    if not vals or not vals[-1].endswith("." + KIND[lit]):
                        bad += 1
                c = f"{cls}.coordinates.setter:count[{lit}]"
                if bad:
                    run.violation("F-TABLE/element-count", c, f"{NEI}:{stx.lineno}", f"on {bad} of {len(paths)} path(s) of the '{lit}' branch self._n_elements is not set to the grid's {KIND[lit]}: after switching back to an already built tree the k-bound of another element kind is applied")
                else:
                    run.holds("F-TABLE/element-count", c, f"{NEI}:{stx.lineno}", f"_n_elements = {KIND[lit]} on all {len(paths)} paths")
            stx = stx.orelse[0] if len(stx.orelse) == 1 and isinstance(stx.orelse[0], ast.If) else None
        if seen != set(KIND):
            run.incomplete("F-TABLE/element-count", c0, NEI, f"kind branches found: {sorted(seen)}")
        # selector and selected object move together: an attribute that _current_tree() hands out unconditionally (return self._tree) is a cached pointer to "the tree of
        # the selected kind"; every non-raising path of the setter that records the new kind (assigns self._coordinates) must also assign that pointer, otherwise a
        # re-selected, already built kind leaves it pointing at the previously selected tree.
        cur = ci.methods.get("_current_tree")
        cp = f"{cls}.coordinates.setter:current-tree-follows-kind"
        if cur is None:
            run.incomplete("F-TABLE/element-count", cp, NEI, "_current_tree not found")
        else:
            rets = [r for r in ast.walk(cur.node) if isinstance(r, ast.Return) and r.value is not None]
            ptrs = set()
            sites = []       # statements that pick the attribute handed out (the return itself, or the assignment of the returned local)
            for r in rets:
                if isinstance(r.value, ast.Attribute) and isinstance(r.value.value, ast.Name) and r.value.value.id == "self":
                    ptrs.add(r.value.attr)
                    sites.append(r)
                elif isinstance(r.value, ast.Name):
                    for a_ in ast.walk(cur.node):
                        if isinstance(a_, ast.Assign) and any(isinstance(t, ast.Name) and t.id == r.value.id for t in a_.targets) \
                                and isinstance(a_.value, ast.Attribute) and isinstance(a_.value.value, ast.Name) and a_.value.value.id == "self":
                            ptrs.add(a_.value.attr)
                            sites.append(a_)
            guarded = bool(sites) and all(_under_kind_test(cur.node, x) for x in sites)
            if not ptrs:
                run.incomplete("F-TABLE/element-count", cp, NEI, "_current_tree does not return an attribute of self")
            elif guarded and len(ptrs) > 1:
                run.holds("F-TABLE/element-count", cp, f"{NEI}:{cur.node.lineno}", f"_current_tree chooses among {sorted(ptrs)} by the selected kind at every call (no cached pointer)", nontrivial=False)
            else:
                spaths = [p for p in enumerate_paths(setter.body) if p.exit != "raise"]
                bad = []
                for p in spaths:
                    assigned = {t.attr for e in p.events if isinstance(e, ast.Assign) for t in e.targets if isinstance(t, ast.Attribute) and isinstance(t.value, ast.Name) and t.value.id == "self"}
                    if "_coordinates" in assigned and not (ptrs <= assigned):
                        bad.append((p, sorted(ptrs - assigned)))
                if bad:
                    conds = [f"{norm(t)[:40]} is {v}" for t, v in bad[0][0].conds][:3]
                    run.violation("F-TABLE/element-count", cp, f"{NEI}:{setter.lineno}", f"_current_tree() returns self.{bad[0][1][0]}, but {len(bad)} of {len(spaths)} path(s) of the coordinates setter record the new kind without "
                                  f"assigning it (when {conds}): after nodes -> face centers -> nodes the wrapper reports 'nodes' and answers from the face-centre tree")
                elif spaths:
                    run.holds("F-TABLE/element-count", cp, f"{NEI}:{setter.lineno}", f"every path of the setter that records the kind also assigns {sorted(ptrs)}")
                else:
                    run.incomplete("F-TABLE/element-count", cp, NEI, "no returning path in the setter")


def _under_kind_test(fnode, ret):
    """the return statement sits under an if that tests self._coordinates"""
    import ast
    from ..astutil import norm
    for n in ast.walk(fnode):
        if isinstance(n, ast.If) and "_coordinates" in norm(n.test) and any(x is ret for b in (n.body, n.orelse) for s_ in b for x in ast.walk(s_)):
            return True
    return False

