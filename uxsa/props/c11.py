"""C11  Neighbour queries agree with brute-force search under the tree's metric.

Decided: tree memo key (F-CACHE); units of tree inputs / query points / radius / distances incl.
BallTree-vs-KDTree sibling agreement (F-UNIT); element-kind tables of both classes (F-TABLE)."""

from ..rules import cache, table, units
from ..rules.common import dataflow, emit

NEI = "uxarray/grid/neighbors.py"


def check(run):
    P = run.program
    run.explanation = (
        "The tree memo of Grid.get_ball_tree/get_kd_tree must key on every constructor argument; tree inputs on the "
        "spherical path must be radians built from the grid's degree coordinates of the requested kind, in (lat, lon) order; "
        "query/query_radius of both classes must apply the same unit conversions to the same-named parameters and results "
        "(cross-check of siblings); every branch on an element-kind literal touches only that kind's coordinates, "
        "dimension and tree slot.  Agreement with brute force / ordering / ties is sklearn's and numerical: not decided."
    )
    run.rule_text = "F-CACHE tree memo; F-UNIT tree inputs + sibling conversions; F-TABLE kind branches"
    run.assumptions = ["sklearn BallTree(metric='haversine') expects (lat, lon) in radians", "Grid lon/lat coordinates are degrees (schema)"]
    cache.check_tree_memo(run, P, "get_ball_tree", "_ball_tree", "BallTree")
    cache.check_tree_memo(run, P, "get_kd_tree", "_kd_tree", "KDTree")
    R = dataflow(P, run.tier)
    ok, bad = emit(run, R, {"UNIT/tree-input", "UNIT/deg->trig", "UNIT/double-conversion"}, files=[NEI])
    funcs = [f for f in P.all_functions() if f.module.relpath == NEI and f.cls is not None]
    n = table.check_kind_branches(run, P, funcs)
    run.floor("F-TABLE/kind-branch", n, 18)
    units.check_tree_builders(run, P)
    units.check_query_siblings(run, P)
