"""C11  Neighbour queries agree with brute-force search under the tree's metric.

Decided: tree memo key (F-CACHE); units of tree inputs / query points / radius / distances incl.
BallTree-vs-KDTree sibling agreement (F-UNIT); element-kind tables of both classes (F-TABLE)."""

from ..rules import cache, table, units
from ..rules.common import dataflow, emit

NEI = "uxarray/grid/neighbors.py"


def check(run):
    P = run.program
    run.explanation = (
        "The tree memo of Grid.get_ball_tree/get_kd_tree must key on every constructor argument; tree inputs on the "
        "spherical path must be radians built from the grid's degree coordinates of the requested kind, in (lat, lon) order; "
        "query/query_radius of both classes must apply the same unit conversions to the same-named parameters and results "
        "(cross-check of siblings); every branch on an element-kind literal touches only that kind's coordinates, "
        "dimension and tree slot.  Agreement with brute force / ordering / ties is sklearn's and numerical: not decided."
    )
    run.rule_text = "F-CACHE tree memo; F-UNIT tree inputs + sibling conversions; F-TABLE kind branches"
    run.assumptions = ["sklearn BallTree(metric='haversine') expects (lat, lon) in radians", "Grid lon/lat coordinates are degrees (schema)"]
    cache.check_tree_memo(run, P, "get_ball_tree", "_ball_tree", "BallTree")
    cache.check_tree_memo(run, P, "get_kd_tree", "_kd_tree", "KDTree")
    R = dataflow(P, run.tier)
    ok, bad = emit(run, R, {"UNIT/tree-input", "UNIT/deg->trig", "UNIT/double-conversion"}, files=[NEI])
    funcs = [f for f in P.all_functions() if f.module.relpath == NEI and f.cls is not None]
    n = table.check_kind_branches(run, P, funcs)
    run.floor("F-TABLE/kind-branch", n, 18)
    units.check_tree_builders(run, P)
    units.check_query_siblings(run, P)
    _query_preparation(run, P)
    _sklearn_positional(run, P)
    _element_count_follows_kind(run, P)


def _query_preparation(run, P):
    """_prepare_xy_for_query: the column swap to (lat, lon) depends on the metric ONLY and the degree->radian conversion on
    use_radians ONLY - checked on every returning path (truth table over the two atoms)."""
    import ast
    from ..astutil import norm, where
    from ..flow import enumerate_paths
    from ..loader import dotted
    f = P.func(f"{NEI}:_prepare_xy_for_query")
    p0 = f.params()[0]
    paths = [p for p in enumerate_paths(f.node.body) if p.exit == "return"]
    seen = {}
    for p in paths:
        facts = p.cond_facts()
        hav = next((v for k, v in facts.items() if "haversine" in k and "==" in k), None)
        rad = facts.get("use_radians")
        flips = conv = 0
        for e in p.events:
            if isinstance(e, ast.Assign) and norm(e.targets[0]) == p0 and isinstance(e.value, ast.Call):
                nm = (dotted(e.value.func) or [""])[-1]
                if nm in ("flip", "fliplr") and e.value.args and norm(e.value.args[0]) == p0:
                    flips += 1
                elif nm in ("deg2rad", "radians") and norm(e.value.args[0]) == p0:
                    conv += 1
                elif isinstance(e.value, ast.Subscript):
                    pass
            if isinstance(e, ast.Assign) and norm(e.targets[0]) == p0 and isinstance(e.value, ast.Subscript) and norm(e.value.value) == p0 and "::-1" in norm(e.value.slice).replace(" ", ""):
                flips += 1
        # an atom not tested on this path: the path stands for both of its values
        for hv in ([hav] if hav is not None else [True, False]):
            for rd in ([rad] if rad is not None else [True, False]):
                seen[(hv, rd)] = (flips % 2 == 1, conv)
    c = f"{f.key}:swap-and-units-independent"
    if len(seen) < 4:
        run.incomplete("F-UNIT/query-preparation", c, where(f), f"only {sorted(seen)} of the 4 (haversine, use_radians) combinations reach a return")
        return
    probs = []
    for (hav, rad), (flipped, conv) in sorted(seen.items()):
        if flipped != hav:
            probs.append(f"metric haversine={hav}, in_radians={rad}: columns {'are' if flipped else 'are not'} swapped to (lat, lon)")
        if conv != (0 if rad else 1):
            probs.append(f"metric haversine={hav}, in_radians={rad}: {conv} degree->radian conversion(s)")
    if probs:
        run.violation("F-UNIT/query-preparation", c, where(f), "; ".join(probs) + " - the haversine tree is built from (lat, lon) in radians whatever unit the query uses")
    else:
        run.holds("F-UNIT/query-preparation", c, where(f), "swap iff haversine, conversion iff degrees, on all four combinations", facts={str(k): v for k, v in seen.items()})


# scikit-learn's documented signatures (BinaryTree.query / query_radius); the wrappers pass their same-named parameters positionally
SKLEARN_SIG = {
    "query": ["X", "k", "return_distance", "dualtree", "breadth_first", "sort_results"],
    "query_radius": ["X", "r", "return_distance", "count_only", "sort_results"],
}


def _sklearn_positional(run, P):
    """every positional argument handed to the sklearn tree sits in the slot of the sklearn parameter of the same name
    (two booleans exchanged compile and run, but e.g. turn off sort_results: neighbours are no longer nearest-first)"""
    import ast
    from ..astutil import norm, where
    n = 0
    for f in P.all_functions():
        if f.module.relpath != NEI or f.cls is None:
            continue
        for c in ast.walk(f.node):
            if isinstance(c, ast.Call) and isinstance(c.func, ast.Attribute) and c.func.attr in SKLEARN_SIG and "_current_tree()" in norm(c.func.value):
                sig_ = SKLEARN_SIG[c.func.attr]
                n += 1
                key = f"{f.key}:call({c.func.attr})@{'with' if any('d' == norm(t) or 'd,' in norm(t) for t in []) else ''}{c.lineno - f.node.lineno}"
                bad = []
                for i, a in enumerate(c.args[1:], start=1):
                    if i < len(sig_) and isinstance(a, ast.Name) and a.id in sig_ and a.id != sig_[i]:
                        bad.append(f"argument '{a.id}' is passed in the slot of sklearn's '{sig_[i]}'")
                for k in c.keywords:
                    if k.arg in sig_ and isinstance(k.value, ast.Name) and k.value.id in sig_ and k.value.id != k.arg:
                        bad.append(f"'{k.value.id}' passed as {k.arg}=")
                if bad:
                    run.violation("F-SIG/sklearn-positional", key, where(f, c), "; ".join(bad) + f" (sklearn: {c.func.attr}({', '.join(sig_)}))")
                else:
                    run.holds("F-SIG/sklearn-positional", key, where(f, c), f"positional arguments follow sklearn's {c.func.attr}({', '.join(sig_)})")
    run.floor("F-SIG/sklearn-positional", n, 10)


def _element_count_follows_kind(run, P):
    """the `coordinates` setter of both tree classes: the element count used to validate k is that of the kind just selected on EVERY
    path of the kind's branch (also when the kind's sklearn tree already exists and is only switched to)"""
    import ast
    from ..astutil import norm, str_const, where
    from ..flow import enumerate_paths
    KIND = {"nodes": "n_node", "face centers": "n_face", "edge centers": "n_edge"}
    for cls in ("BallTree", "KDTree"):
        ci = P.cls(f"{NEI}:{cls}")
        setter = None
        for st in ci.node.body:
            if isinstance(st, ast.FunctionDef) and st.name == "coordinates" and any(norm(d).endswith(".setter") for d in st.decorator_list):
                setter = st
        c0 = f"{cls}.coordinates.setter"
        if setter is None:
            run.incomplete("F-TABLE/element-count", c0, NEI, "coordinates setter not found")
            continue
        chain = next((s2 for s2 in setter.body if isinstance(s2, ast.If)), None)
        seen = set()
        stx = chain
        while stx is not None:
            lit = next((n.value for n in ast.walk(stx.test) if isinstance(n, ast.Constant) and n.value in KIND), None)
            if lit is not None:
                seen.add(lit)
                paths = [p for p in enumerate_paths(stx.body) if p.exit != "raise"]
                bad = 0
                for p in paths:
                    vals = [norm(e.value) for e in p.events if isinstance(e, ast.Assign) and norm(e.targets[0]) == "self._n_elements"]
                    if not vals or not vals[-1].endswith("." + KIND[lit]):
                        bad += 1
                c = f"{cls}.coordinates.setter:count[{lit}]"
                if bad:
                    run.violation("F-TABLE/element-count", c, f"{NEI}:{stx.lineno}", f"on {bad} of {len(paths)} path(s) of the '{lit}' branch self._n_elements is not set to the grid's {KIND[lit]}: after switching back to an already built tree the k-bound of another element kind is applied")
                else:
                    run.holds("F-TABLE/element-count", c, f"{NEI}:{stx.lineno}", f"_n_elements = {KIND[lit]} on all {len(paths)} paths")
            stx = stx.orelse[0] if len(stx.orelse) == 1 and isinstance(stx.orelse[0], ast.If) else None
        if seen != set(KIND):
            run.incomplete("F-TABLE/element-count", c0, NEI, f"kind branches found: {sorted(seen)}")

