"""C20  Grid equality distinguishes any difference in coordinates or connectivity.

Decided: boolean abstraction of Grid.__eq__ (truth table over its comparison atoms) and the
negation structure of Grid.__ne__.  Assumed: DataArray.equals is value/shape equality.
Grid.copy hands the constructor the grid's own source_grid_spec (the one compared field that is not an array)."""

from __future__ import annotations

import ast
import itertools

from ..astutil import norm, where
from ..flow import decision_table, inline_tail_calls, sequential_reads as _sequential_reads
from ..loader import AnalysisIncomplete, dotted

GRID = "uxarray/grid/grid.py"
REQUIRED = ["isinstance", "source_grid_spec", "node_lon", "node_lat", "face_node_connectivity"]
# comparisons implied by the required ones (sizes/shapes of the same arrays) are tolerated
IMPLIED = {"n_node", "n_face", "n_max_face_nodes", "shape"}
# Grid.sizes / Grid.dims list EVERY dimension present in _ds, including those of lazily constructed variables (n_edge, ...): they depend on what has been
# requested from each grid so far and are NOT implied by the compared fields


def _strip_root(node):
    """('self'|'other', 'a.b.c') for self.a.b.c / other._ds['x'] style accessors."""
    parts = []
    cur = node
    while True:
        if isinstance(cur, ast.Attribute):
            parts.append(cur.attr)
            cur = cur.value
        elif isinstance(cur, ast.Subscript) and isinstance(cur.slice, ast.Constant):
            parts.append(str(cur.slice.value))
            cur = cur.value
        elif isinstance(cur, ast.Call) and not cur.args and isinstance(cur.func, ast.Attribute):
            parts.append(cur.func.attr + "()")
            cur = cur.func.value
        else:
            break
    if isinstance(cur, ast.Name):
        return cur.id, tuple(reversed(parts))
    return None, None


def _field_of(path):
    for p in reversed(path):
        if p in ("values", "data", "_ds", "to_numpy()"):
            continue
        return p
    return None


def _filtered(node):
    """True if the compared expression passes through a value-dependent selection (X[mask], X[X != c], np.unique, sort ...)
    on its way from the field: positions are discarded, so different arrays can compare equal."""
    cur = node
    while True:
        if isinstance(cur, ast.Subscript):
            if not isinstance(cur.slice, ast.Constant):
                return True
            cur = cur.value
        elif isinstance(cur, ast.Attribute):
            cur = cur.value
        elif isinstance(cur, ast.Call):
            d = dotted(cur.func)
            if d and d[-1] in ("unique", "sort", "sorted", "ravel", "flatten", "compressed", "nonzero", "where", "set"):
                return True
            if not cur.args and isinstance(cur.func, ast.Attribute):
                cur = cur.func.value
            else:
                return False
        else:
            return False


def _root_through_filters(node):
    cur = node
    while isinstance(cur, ast.Subscript) and not isinstance(cur.slice, ast.Constant):
        cur = cur.value
    return cur


def classify_atom(atom, self_name, other_name):
    """-> (field, polarity, symmetric) ; polarity True: atom true means 'agrees'."""
    if isinstance(atom, ast.Call):
        d0 = dotted(atom.func)
        if d0 and d0[-1] in ("array_equal", "array_equiv", "allclose") and len(atom.args) >= 2 and (_filtered(atom.args[0]) or _filtered(atom.args[1])):
            r1, p1 = _strip_root(_root_through_filters(atom.args[0]))
            if r1 in (self_name, other_name) and p1:
                return "LOSSY:" + str(_field_of(p1)), True, True
    if isinstance(atom, ast.Call):
        fn = atom.func
        if isinstance(fn, ast.Name) and fn.id == "isinstance" and len(atom.args) == 2:
            a0 = atom.args[0]
            cls = dotted(atom.args[1])
            if isinstance(a0, ast.Name) and a0.id == other_name and cls and cls[-1] == "Grid":
                return "isinstance", True, True
            return None
        if isinstance(fn, ast.Attribute) and fn.attr in ("equals",) and len(atom.args) == 1:
            r1, p1 = _strip_root(fn.value)
            r2, p2 = _strip_root(atom.args[0])
            if {r1, r2} == {self_name, other_name} and p1 and p2:
                return _field_of(p1), True, p1 == p2
            return None
        d = dotted(fn)
        if d and d[-1] in ("array_equal", "array_equiv") and len(atom.args) == 2:
            r1, p1 = _strip_root(atom.args[0])
            r2, p2 = _strip_root(atom.args[1])
            if {r1, r2} == {self_name, other_name} and p1 and p2:
                return _field_of(p1), True, p1 == p2
        return None
    if isinstance(atom, ast.Compare) and len(atom.ops) == 1 and isinstance(atom.ops[0], (ast.Eq, ast.NotEq)):
        r1, p1 = _strip_root(atom.left)
        r2, p2 = _strip_root(atom.comparators[0])
        if {r1, r2} == {self_name, other_name} and p1 and p2:
            return _field_of(p1), isinstance(atom.ops[0], ast.Eq), p1 == p2
    return None


def check(run):
    P = run.program
    run.explanation = (
        "Boolean abstraction of Grid.__eq__: every comparison in the function is an atom classified by the "
        "field it compares; the function's if/return structure is evaluated for all 2^n truth assignments and "
        "must return True exactly when every atom reports agreement; the compared fields must cover "
        "{type, source_grid_spec, node_lon, node_lat, face_node_connectivity}; __ne__ must return the negation "
        "of __eq__ on every path.  This decides the property up to the assumed semantics of DataArray.equals."
    )
    run.rule_text = "F-PATH boolean necessity/sufficiency (truth table over comparison atoms)"
    run.assumptions = [
        "xarray.DataArray.equals is shape+value equality, symmetric, NaN-tolerant",
        "str !=/== on source_grid_spec is ordinary string comparison",
    ]
    eq = P.func(f"{GRID}:Grid.__eq__")
    ne = P.func(f"{GRID}:Grid.__ne__")
    params = eq.params()
    if len(params) != 2:
        run.incomplete("F-PATH/eq-shape", "Grid.__eq__:signature", where(eq), f"unexpected parameters {params}")
        return
    self_name, other_name = params
    # a predicate split over helper methods of Grid (return self._part(other)) is read as one
    gcls = P.cls(f"{GRID}:Grid")

    def _resolve(call):
        if isinstance(call.func, ast.Attribute) and isinstance(call.func.value, ast.Name) and call.func.value.id == self_name and call.func.attr in gcls.methods and not call.keywords:
            h = gcls.methods[call.func.attr]
            hp = h.params()
            if len(hp) == len(call.args) + 1 and all(isinstance(a, ast.Name) for a in call.args) and h.node is not eq.node:
                return h.node, dict(zip(hp, [self_name] + [a.id for a in call.args]))
        return None
    eq_node = inline_tail_calls(eq.node, _resolve)
    # locals that are bound several times to plain reads (own = self.a ... own = self.b, left by an unrolled loop) are substituted statement by statement
    eq_node = _sequential_reads(eq_node)
    try:
        atoms, table = decision_table(eq_node)
    except AnalysisIncomplete as e:
        run.incomplete("F-PATH/eq-shape", "Grid.__eq__:body", where(eq), str(e))
        return
    infos = []
    for a in atoms:
        c = classify_atom(a, self_name, other_name)
        if c is None:
            run.incomplete(
                "F-PATH/eq-atom",
                f"Grid.__eq__:atom:{norm(a)}",
                where(eq, a),
                "comparison not recognised as a field comparison between self and other",
            )
            return
        infos.append(c)
    for (fld, _pol, _sym), a in zip(infos, atoms):
        if isinstance(fld, str) and fld.startswith("LOSSY:"):
            run.violation("F-PATH/eq-field-compared", f"Grid.__eq__:compares:{fld[6:]}", where(eq, a),
                          f"{fld[6:]} is compared only after a value-dependent selection ({norm(a)[:90]}): the positions of the entries are discarded, "
                          "so grids whose arrays differ (e.g. the same node indices split differently into faces) compare equal")
    infos = [((f[6:] if isinstance(f, str) and f.startswith("LOSSY:") else f), p_, s_) for f, p_, s_ in infos]
    fields = [f for f, _, _ in infos]
    run.stats["atoms"] = [norm(a) for a in atoms]
    run.stats["truth_assignments"] = len(table)
    # 1. required fields present
    for req in REQUIRED:
        k = f"Grid.__eq__:compares:{req}"
        if req in fields:
            run.holds("F-PATH/eq-field-compared", k, where(eq), f"{req} is compared")
        else:
            run.violation(
                "F-PATH/eq-field-compared",
                k,
                where(eq),
                f"{req} never influences the result: two grids differing only in {req} compare equal",
            )
    # 2. symmetry of each comparison (same accessor on both sides)
    for a, (f, pol, sym) in zip(atoms, infos):
        k = f"Grid.__eq__:symmetric:{f}"
        if sym:
            run.holds("F-PATH/eq-symmetric", k, where(eq, a), "same accessor on self and other")
        else:
            run.violation(
                "F-PATH/eq-symmetric", k, where(eq, a), f"compares different accessors of self and other: {norm(a)}"
            )
    # 3. extra fields
    for a, (f, pol, sym) in zip(atoms, infos):
        if f not in REQUIRED and f not in IMPLIED:
            run.incomplete(
                "F-PATH/eq-extra-field",
                f"Grid.__eq__:extra:{f}",
                where(eq, a),
                f"compares {f}, which the property does not list; cannot decide whether it is implied by the listed fields",
            )
    # 4. truth table: True <=> all atoms agree   (per-field necessity + joint sufficiency)
    per_field_bad = {}
    all_true_ok = None
    nonbool = False
    for vals, (_, res) in table.items():
        agree = [v == pol for v, (_, pol, _) in zip(vals, infos)]
        expected = all(agree)
        if res not in (True, False):
            nonbool = True
            continue
        if expected:
            all_true_ok = res is True
        elif res is True:
            # which disagreeing fields were not noticed
            dis = tuple(f for ok, f in zip(agree, fields) if not ok)
            # attribute to the smallest disagreeing set
            cur = per_field_bad.get(dis[0])
            if cur is None or len(dis) < len(cur):
                per_field_bad[dis[0]] = dis
    if nonbool:
        ni = [vals for vals, (_t, res) in table.items() if res is NotImplemented]
        direct = any(isinstance(x, ast.Call) and isinstance(x.func, ast.Attribute) and x.func.attr == "__eq__" for x in ast.walk(ne.node))
        if ni and direct:
            run.violation("F-PATH/eq-truth-table", "Grid.__eq__:returns", where(eq), "__eq__ returns NotImplemented on some path while __ne__ negates self.__eq__(other) directly: NotImplemented is truthy, so "
                          "`grid != x` is False although `grid == x` is False as well (e.g. grid != None)", facts={"assignment": dict(zip([norm(a) for a in atoms], ni[0]))})
        elif ni:
            run.holds("F-PATH/eq-truth-table", "Grid.__eq__:returns", where(eq), "NotImplemented is returned for foreign operands and __ne__ goes through the == protocol", nontrivial=False)
        else:
            run.incomplete("F-PATH/eq-truth-table", "Grid.__eq__:returns", where(eq), "a path returns a non-boolean / falls off")
    k = "Grid.__eq__:all-agree->True"
    if all_true_ok:
        run.holds("F-PATH/eq-sufficient", k, where(eq), "all comparisons agreeing returns True")
    else:
        run.violation("F-PATH/eq-sufficient", k, where(eq), "grids agreeing in every compared field do not compare equal")
    for f in dict.fromkeys(fields):
        k = f"Grid.__eq__:necessary:{f}"
        # single-field necessity: all others agree, this one disagrees -> must be False
        bad = None
        for vals, (_, res) in table.items():
            agree = [v == pol for v, (_, pol, _) in zip(vals, infos)]
            dis = [ff for ok, ff in zip(agree, fields) if not ok]
            if dis and set(dis) == {f} and res is True:
                bad = vals
        if bad is None:
            run.holds("F-PATH/eq-necessary", k, where(eq), f"a difference in {f} alone yields False")
        else:
            run.violation(
                "F-PATH/eq-necessary",
                k,
                where(eq),
                f"truth table: {f} differs while every other compared field agrees, yet __eq__ returns True",
                facts={"assignment": dict(zip([norm(a) for a in atoms], bad))},
            )
    # 5. __ne__ is the negation of __eq__: its body is interpreted for both truth values of the single atom  self.__eq__(other) / self == other
    ne_self, ne_other = (ne.params() + [None, None])[:2]
    k = "Grid.__ne__:return"
    try:
        n_atoms, n_table = decision_table(ne.node)
    except AnalysisIncomplete as e:
        n_atoms, n_table = None, None
        run.incomplete("F-PATH/ne-negation", k, where(ne), f"body not of the assign/if/return shape: {e}")
    if n_atoms is not None:
        def is_eq_call(a):
            if isinstance(a, ast.Call) and isinstance(a.func, ast.Attribute) and a.func.attr == "__eq__":
                return isinstance(a.func.value, ast.Name) and a.func.value.id == ne_self and len(a.args) == 1 and isinstance(a.args[0], ast.Name) and a.args[0].id == ne_other
            if isinstance(a, ast.Compare) and len(a.ops) == 1 and isinstance(a.ops[0], ast.Eq):
                return {norm(a.left), norm(a.comparators[0])} == {ne_self, ne_other}
            return False
        eq_calls = [a for a in n_atoms if is_eq_call(a)]
        if len(n_atoms) == 1 and eq_calls:
            got = {vals[0]: res for vals, res in n_table.items()}
            if got.get(True) == ("const", False) and got.get(False) == ("const", True):
                run.holds("F-PATH/ne-negation", k, where(ne), "returns False exactly when __eq__(other) is true")
            else:
                run.violation("F-PATH/ne-negation", k, where(ne), f"__ne__ returns {got.get(True, ('?', '?'))[1]} when the grids are equal and {got.get(False, ('?', '?'))[1]} when they are not: not the negation of __eq__")
        elif not n_atoms:
            vals = {res for res in n_table.values()}
            run.violation("F-PATH/ne-negation", k, where(ne), f"__ne__ does not depend on __eq__ (returns {sorted(str(v[1]) for v in vals)})")
        elif len(eq_calls) == 1 and ne_self == self_name and ne_other == other_name:
            # further atoms: evaluate __ne__ jointly with __eq__'s own truth table.  Atoms shared with __eq__ take the same value in both; an atom over a field that
            # __eq__ neither compares nor implies is free (e.g. Grid.sizes, which depends on what was lazily constructed).
            e_keys = [norm(a) for a in atoms]
            extra = [a for a in n_atoms if not is_eq_call(a) and norm(a) not in e_keys]
            extra_info = [classify_atom(a, ne_self, ne_other) for a in extra]
            free = all(ci is not None and ci[0] not in IMPLIED and ci[0] not in fields for ci in extra_info)
            witness = None
            for evals, (_t, eres) in table.items():
                if eres not in (True, False):
                    continue
                easg = dict(zip(e_keys, evals))
                for xvals in itertools.product([True, False], repeat=len(extra)):
                    asg = dict(easg)
                    asg.update({norm(a): v for a, v in zip(extra, xvals)})
                    asg[norm(eq_calls[0])] = eres
                    nres = n_table[tuple(asg[norm(a)] for a in n_atoms)][1]
                    if nres is not (not eres):
                        witness = ({kk: vv for kk, vv in asg.items() if kk != norm(eq_calls[0])}, eres, nres)
                        break
                if witness:
                    break
            if witness is None:
                run.holds("F-PATH/ne-negation", k, where(ne), f"joint truth table with __eq__ over {len(e_keys) + len(extra)} atoms: __ne__ is its negation on every assignment")
            elif free or not extra:
                run.violation("F-PATH/ne-negation", k, where(ne), f"__ne__ returns {witness[2]} while __eq__ returns {witness[1]} when {witness[0]}: "
                              f"{[norm(a)[:40] for a in extra]} is decided independently of the fields __eq__ compares, so a == b and a != b can both hold", facts={"assignment": witness[0]})
            else:
                run.incomplete("F-PATH/ne-negation", k, where(ne), f"__ne__ differs from not __eq__ only under {witness[0]}, which may be infeasible: {[norm(a)[:40] for a in extra]} may be implied by the compared fields")
        else:
            run.incomplete("F-PATH/ne-negation", k, where(ne), f"__ne__ depends on {[norm(a)[:50] for a in n_atoms]}: not recognised as a function of self.__eq__(other) alone")
    # "a copy of a grid equals the grid": copy() re-runs Grid.__init__, so what the getters store must already be in the range __init__ normalises to,
    # and that normalisation must be idempotent (the modulo form); both are C04 obligations evaluated here as well
    from ..rules.common import dataflow, emit
    from .c04 import _accept_wrap_by_callers, _lon_normalisation
    R = dataflow(P, run.tier)
    emit(run, R, {"RANGE/store-lon"}, files=["uxarray/grid/coordinates.py", "uxarray/grid/grid.py"])
    _accept_wrap_by_callers(run, P)
    _lon_normalisation(run, P)
    _copy_preserves(run, P)
    from .c01 import _vertices_exact
    _vertices_exact(run, P)


def _copy_preserves(run, P):
    """"A copy of a grid equals the grid": Grid.copy hands the constructor (a) a dataset derived from self._ds by .copy(...) and (b) as source_grid_spec exactly
    self.source_grid_spec - the one compared field that is not an array of the dataset.  Any other expression there (a default substituted for None, a constant,
    a normalised spelling) makes g == g.copy() False for the grids on which it differs from the attribute."""
    from ..astutil import LocalDefs
    f = P.func(f"{GRID}:Grid.copy")
    me = f.params()[0]
    defs = LocalDefs(f.node)

    def single(e):
        n_ = 0
        while isinstance(e, ast.Name) and n_ < 5:
            d_ = defs.defs.get(e.id, [])
            if len(d_) != 1 or d_[0][1] is not None or d_[0][2]:
                break
            e = d_[0][0]
            n_ += 1
        return e
    rets = [r for r in ast.walk(f.node) if isinstance(r, ast.Return) and r.value is not None]
    c = "Grid.copy:constructor-arguments"
    if not rets:
        run.incomplete("F-PATH/copy-preserves-compared-fields", c, where(f), "Grid.copy has no return")
        return
    for r in rets:
        call = single(r.value)
        if not (isinstance(call, ast.Call) and (dotted(call.func) or [""])[-1] in ("Grid", "cls", "type(self)", "__class__")) and not (isinstance(call, ast.Call) and norm(call.func) in ("type(self)", "self.__class__", f"type({me})", f"{me}.__class__")):
            run.incomplete("F-PATH/copy-preserves-compared-fields", c, where(f, r), f"the copy is produced by {norm(r.value)[:60]}, not by a constructor call this rule reads")
            continue
        spec = next((k.value for k in call.keywords if k.arg == "source_grid_spec"), call.args[1] if len(call.args) > 1 else None)
        if any(k.arg is None for k in call.keywords):
            run.incomplete("F-PATH/copy-preserves-compared-fields", c, where(f, r), "constructor called with **kwargs")
            continue
        spec_e = single(spec) if spec is not None else None
        if spec_e is None:
            run.violation("F-PATH/copy-preserves-compared-fields", c, where(f, r), "the copy is constructed without source_grid_spec: __eq__ compares it, so the copy of a grid that has one differs from the grid")
        elif norm(spec_e) == f"{me}.source_grid_spec":
            run.holds("F-PATH/copy-preserves-compared-fields", c, where(f, r), "source_grid_spec passed on unchanged")
        elif isinstance(spec_e, (ast.BoolOp, ast.IfExp, ast.Constant, ast.JoinedStr)) or (isinstance(spec_e, ast.Call) and isinstance(spec_e.func, ast.Attribute) and spec_e.func.attr in ("upper", "lower", "strip", "title", "capitalize")):
            run.violation("F-PATH/copy-preserves-compared-fields", c, where(f, r),
                          f"the copy gets source_grid_spec={norm(spec_e)[:60]} instead of the grid's own value: where the two differ (a grid built without a spec, another spelling) g == g.copy() is False, because __eq__ compares source_grid_spec")
        else:
            run.incomplete("F-PATH/copy-preserves-compared-fields", c, where(f, r), f"source_grid_spec={norm(spec_e)[:60]}: not recognised as the grid's own value")

