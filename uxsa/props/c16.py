"""C16  Edge distances, differences and gradients follow the edge's own neighbours.

Decided: gather index spaces (node coords through edge_node, face-centre coords through edge_face), boundary-edge fill guard,
degrees->radians before trig, last-axis reductions in rank-polymorphic helpers, abs on every return of the difference helpers,
result dims/grid, supplied distances by role (MPAS dvEdge/dcEdge incl. the dual).
normalisation divides every slice whose norm is not zero."""

import ast

from ..astutil import iter_stmts, norm, str_const, where
from ..loader import dotted
from ..rules import lazy
from ..rules.common import dataflow, emit

NEI = "uxarray/grid/neighbors.py"
GRAD = "uxarray/core/gradient.py"
DA = "uxarray/core/dataarray.py"


def check(run):
    P = run.program
    run.explanation = (
        "Index-space analysis: every array carries the element space of each axis and index arrays the space of their values "
        "(from the grid schema: edge_node_connectivity rows=edge values=node; edge_face_connectivity rows=edge values=face, may contain fill; "
        "node_lon over nodes, face_lon over faces ...).  A gather whose axis space and index value space are both known and differ is a "
        "violation, as is degrees into trig.  Helpers that treat leading dimensions with '...' must reduce along the last axis only "
        "(np.linalg.norm without axis is a full reduction); difference helpers return np.abs(...) on every path; results are built on the same grid "
        "with the last dim renamed to n_edge.  The accuracy of the arc-length formula is NOT decided."
    )
    run.rule_text = "F-IDX (IDX-1/IDX-2) + F-UNIT + F-PATH (abs, last-axis) + F-TABLE (MPAS distance roles)"
    run.assumptions = ["grid schema (conventions/ugrid.py)", "MPAS mesh spec: dvEdge = distance between an edge's vertices, dcEdge = between its cells"]
    from ..rules import dtype as _dt
    _dt.check_float_results(run, P, ["uxarray/core/gradient.py:_calculate_edge_face_difference", "uxarray/core/gradient.py:_calculate_edge_node_difference",
                                    "uxarray/core/gradient.py:_calculate_grad_on_edge_from_faces", "uxarray/core/dataarray.py:UxDataArray.gradient", "uxarray/core/dataarray.py:UxDataArray.difference"])
    _boundary_zero(run, P)
    _distance_inputs(run, P)
    R = dataflow(P, run.tier)
    ok, bad = emit(run, R, {"IDX/space", "IDX/fill-safety", "UNIT/deg->trig", "UNIT/double-conversion"}, files=[NEI, GRAD])
    run.floor("F-IDX", ok + bad, 8)
    # abs on every return of the difference helpers
    for fn in ("_calculate_edge_face_difference", "_calculate_edge_node_difference"):
        f = P.func(f"{GRAD}:{fn}")
        rets = [r for r in ast.walk(f.node) if isinstance(r, ast.Return)]
        from .. import symx
        from ..loader import FuncInfo
        for i, r in enumerate(rets):
            c = f"{f.key}:return#{i}:abs"
            v = r.value

            def is_abs(e, depth=0):
                """abs(...) directly, a local bound to it, or a call of a package function all of whose returns are"""
                if isinstance(e, ast.Call) and (dotted(e.func) or [""])[-1] in ("abs", "absolute", "fabs"):
                    return True
                if isinstance(e, ast.Call) and depth < 2:
                    t = P.resolve_expr(f.module, e.func, f)
                    if isinstance(t, FuncInfo):
                        rr = [x for x in ast.walk(t.node) if isinstance(x, ast.Return) and x.value is not None]
                        return bool(rr) and all(is_abs(x.value, depth + 1) for x in rr)
                return False
            if is_abs(v):
                run.holds("F-PATH/abs-difference", c, where(f, r), "returns the absolute difference")
            elif isinstance(v, ast.Name):
                from ..astutil import LocalDefs
                ld = LocalDefs(f.node)
                vals = [x for x, _i, _l in ld.defs.get(v.id, [])] + list(ld.stores.get(v.id, []))
                # a return that is not inside a loop sees only what was bound/stored textually before it (early `return zeros` ahead of the scatter)
                in_loop = any(r in list(ast.walk(lp)) for lp in ast.walk(f.node) if isinstance(lp, (ast.For, ast.While)))
                if not in_loop:
                    vals = [x for x in vals if getattr(x, "lineno", 0) < r.lineno]
                if vals and all(isinstance(x, ast.Call) and (dotted(x.func) or [""])[-1] in ("zeros", "zeros_like") for x in vals):
                    run.holds("F-PATH/abs-difference", c, where(f, r), "returns a freshly zeroed array (no difference stored yet on this path): non-negative")
                elif any(is_abs(x) for x in vals):
                    run.holds("F-PATH/abs-difference", c, where(f, r), "returns the absolute difference")
                elif vals and all(isinstance(x, ast.BinOp) or (isinstance(x, ast.Call) and (dotted(x.func) or [""])[-1] in ("zeros", "empty", "full", "zeros_like")) for x in vals):
                    run.violation("F-PATH/abs-difference", c, where(f, r), f"{fn} returns {v.id}, a plain difference: signed, not the absolute difference")
                else:
                    run.incomplete("F-PATH/abs-difference", c, where(f, r), f"{fn} returns the local {v.id}; whether it holds absolute values is not followed")
            else:
                run.violation("F-PATH/abs-difference", c, where(f, r), f"{fn} returns {norm(v)[:60]}: signed, not the absolute difference")
    # reductions along the last axis in rank-polymorphic helpers
    g = P.func(f"{GRAD}:_calculate_grad_on_edge_from_faces")
    for call in ast.walk(g.node):
        if isinstance(call, ast.Call):
            d = dotted(call.func)
            if d and d[-1] == "norm":
                c = f"{g.key}:norm-axis"
                axis = next((k for k in call.keywords if k.arg == "axis"), None)
                keep = next((k for k in call.keywords if k.arg == "keepdims"), None)
                if axis is not None and norm(axis.value) == "-1" and keep is not None and norm(keep.value) == "True":
                    run.holds("F-PATH/last-axis-reduction", c, where(g, call), "norm along the edge axis with keepdims")
                elif axis is None:
                    run.violation("F-PATH/last-axis-reduction", c, where(g, call),
                                  "np.linalg.norm(grad) without axis reduces over ALL dimensions: with leading dimensions only the whole array, not each leading index, has unit norm")
                else:
                    run.violation("F-PATH/last-axis-reduction", c, where(g, call), f"normalisation uses axis={norm(axis.value)} keepdims={norm(keep.value) if keep else None}; expected axis=-1, keepdims=True")
    # "with normalisation has unit Euclidean norm": the division by the norm may skip exactly the slices whose norm is ZERO (nothing to normalise), never the slices whose
    # norm is merely small - a gradient of magnitude 1e-9 is as normalisable as one of magnitude 1
    for call in ast.walk(g.node):
        if isinstance(call, ast.Call) and (dotted(call.func) or [""])[-1] == "divide":
            wh = next((k.value for k in call.keywords if k.arg == "where"), None)
            c = f"{g.key}:normalise-every-nonzero-slice"
            if wh is None:
                continue
            if isinstance(wh, ast.Compare) and len(wh.ops) == 1:
                other = wh.comparators[0] if not isinstance(wh.left, ast.Constant) else wh.left
                zero = isinstance(other, ast.Constant) and other.value in (0, 0.0)
                if zero and isinstance(wh.ops[0], (ast.Gt, ast.NotEq, ast.Lt)):
                    run.holds("F-PATH/normalise-every-slice", c, where(g, call), "only slices of norm zero are left as they are")
                elif not zero:
                    run.violation("F-PATH/normalise-every-slice", c, where(g, call), f"the division by the norm is applied only where `{norm(wh)[:50]}`: slices whose norm lies below that threshold "
                                  "(small-valued fields) are returned un-normalised, their norm is not 1")
                else:
                    run.incomplete("F-PATH/normalise-every-slice", c, where(g, call), f"where={norm(wh)[:50]} not evaluated")
            else:
                run.incomplete("F-PATH/normalise-every-slice", c, where(g, call), f"where={norm(wh)[:50]} not evaluated")
    # boundary guard: division only on saddle edges, zero default
    assigns = [st for st in iter_stmts(g.node.body) if isinstance(st, ast.Assign) and isinstance(st.targets[0], ast.Subscript) and isinstance(st.value, ast.BinOp) and isinstance(st.value.op, ast.Div)]
    c = f"{g.key}:divide-on-saddle-edges"
    if assigns:
        st = assigns[0]
        t = st.targets[0]
        idx = t.slice.elts if isinstance(t.slice, ast.Tuple) else [t.slice]
        from ..astutil import LocalDefs
        gdefs = LocalDefs(g.node)

        def through_locals(e, depth=0):
            """a local bound exactly once to a subscript read is looked through (saddle_diff = grad[..., mask])"""
            while isinstance(e, ast.Name) and depth < 3 and len(gdefs.defs.get(e.id, [])) == 1 and isinstance(gdefs.defs[e.id][0][0], (ast.Subscript, ast.Name)) and not gdefs.defs[e.id][0][2]:
                e = gdefs.defs[e.id][0][0]
                depth += 1
            return e
        l = through_locals(st.value.left)
        r = through_locals(st.value.right)
        same_mask = len(idx) == 2 and isinstance(r, ast.Subscript) and norm(r.slice) == norm(idx[1]) and isinstance(l, ast.Subscript) and norm(l.slice) == norm(t.slice)
        understood = isinstance(l, (ast.Subscript, ast.Name)) and isinstance(r, (ast.Subscript, ast.Name, ast.Attribute))
        if same_mask:
            run.holds("F-PATH/boundary-guard", c, where(g, st), f"difference divided by distance on {norm(idx[1])} only")
        elif understood:
            run.violation("F-PATH/boundary-guard", c, where(g, st), f"numerator {norm(l)[:40]}, denominator {norm(r)[:40]} and target {norm(t)[:40]} of the gradient division are not restricted by the same saddle mask")
        else:
            run.incomplete("F-PATH/boundary-guard", c, where(g, st), f"operands {norm(l)[:40]} / {norm(r)[:40]} of the masked division are not plain (masked) reads")
    else:
        # a division whose result REBINDS the array (grad = grad[..., mask] / d[mask]) compresses the edge axis to the interior edges
        shrink = [st for st in iter_stmts(g.node.body) if isinstance(st, ast.Assign) and isinstance(st.targets[0], ast.Name) and isinstance(st.value, ast.BinOp) and isinstance(st.value.op, ast.Div)
                  and isinstance(st.value.left, ast.Subscript) and norm(st.value.left.value) == norm(st.targets[0]) and not norm(st.value.left.slice).replace(" ", "") in ("...", "...,:")
                  and any("mask" in norm(x) or "!=" in norm(x) for x in ast.walk(st.value.left.slice))]
        if shrink:
            run.violation("F-PATH/boundary-guard", c, where(g, shrink[0]), f"{norm(shrink[0])[:90]} replaces the per-edge array by its boundary-free selection: the result is labelled n_edge but has fewer entries than the grid has edges (partial grids / subsets)")
        else:
            run.incomplete("F-PATH/boundary-guard", c, where(g), "masked division not found")
    # result construction of gradient / difference: dims[-1] = "n_edge", same grid
    da = P.cls(f"{DA}:UxDataArray")
    for m in ("gradient", "difference"):
        f = da.methods[m]
        sets = [st for st in iter_stmts(f.node.body) if isinstance(st, ast.Assign) and isinstance(st.targets[0], ast.Subscript) and norm(st.targets[0]) == "dims[-1]"]
        c = f"UxDataArray.{m}:dims"
        if sets and all(str_const(st.value) == "n_edge" for st in sets):
            run.holds("F-PATH/result-construction", c, where(f, sets[0]), 'dims[-1] = "n_edge"')
        else:
            run.violation("F-PATH/result-construction", c, where(f), f"result's last dimension is not set to n_edge ({[norm(s.value) for s in sets]})")
        ctor = [c2 for c2 in ast.walk(f.node) if isinstance(c2, ast.Call) and (dotted(c2.func) or [""])[-1] == "UxDataArray"]
        c = f"UxDataArray.{m}:grid"
        if ctor and all(any(k.arg == "uxgrid" and norm(k.value) == "self.uxgrid" for k in c2.keywords) and any(k.arg == "dims" and norm(k.value) == "dims" for k in c2.keywords) for c2 in ctor):
            run.holds("F-PATH/result-construction", c, where(f, ctor[0]), "built on self.uxgrid with the edited dims")
        else:
            run.violation("F-PATH/result-construction", c, where(f), "result not built with uxgrid=self.uxgrid, dims=dims")
    # gradient uses edge_face connectivity + edge_face distances; difference face->edge_face, node->edge_node
    f = da.methods["gradient"]
    call = next((c2 for c2 in ast.walk(f.node) if isinstance(c2, ast.Call) and (dotted(c2.func) or [""])[-1] == "_calculate_grad_on_edge_from_faces"), None)
    c = "UxDataArray.gradient:arguments"
    if call is not None:
        kw = {k.arg: norm(k.value) for k in call.keywords}
        want = {"edge_faces": "self.uxgrid.edge_face_connectivity.values", "edge_face_distances": "self.uxgrid.edge_face_distances.values", "n_edge": "self.uxgrid.n_edge"}
        wrong = {k: kw.get(k) for k, v in want.items() if kw.get(k) != v}
        if not wrong:
            run.holds("F-TABLE/argument-roles", c, where(f, call), "edge_face connectivity, edge_face distances, n_edge")
        elif all(v is None for v in wrong.values()):
            run.incomplete("F-TABLE/argument-roles", c, where(f, call), "call no longer uses keyword arguments; roles not decided")
        else:
            run.violation("F-TABLE/argument-roles", c, where(f, call), f"gradient helper called with {wrong}")
    else:
        run.incomplete("F-TABLE/argument-roles", c, where(f), "helper call not found")
    lazy.check_getters(run, P, ["edge_node_distances", "edge_face_distances"])
    lazy.check_no_overwrite(run, P, keys={"edge_node_distances", "edge_face_distances"}, files=(NEI,))
    # MPAS distance roles (incl. dual): edge_node_distances <- distance between the preimages of 'node'
    from ..rules import readers
    readers.check_mpas_distance_roles(run, P)


def _boundary_zero(run, P):
    """edge_face_distances: a boundary edge (one neighbouring face) has distance exactly 0: the result array is allocated with zeros and
    only the interior edges (mask: second face != INT_FILL_VALUE) receive a computed value."""
    import ast as _ast
    from ..astutil import iter_stmts as _it, norm as _n
    from ..rules import shape as S
    f = P.func("uxarray/grid/neighbors.py:_construct_edge_face_distances")
    c = f"{f.key}:boundary-edges-zero"
    alloc = None
    for st in _it(f.node.body):
        if isinstance(st, _ast.Assign) and isinstance(st.targets[0], _ast.Name) and isinstance(st.value, _ast.Call) and (dotted(st.value.func) or [""])[-1] == "zeros":
            alloc = st
    rets = [r for r in _ast.walk(f.node) if isinstance(r, _ast.Return)]
    if alloc is None or not rets or not all(_n(r.value) == alloc.targets[0].id for r in rets):
        run.violation("IDX/boundary-zero", c, where(f), "the returned distances are not a zero-initialised array filled for interior edges only: boundary edges no longer get the exact distance 0 (a computed arccos of ~1 is 1e-8 or NaN)")
        return
    name = alloc.targets[0].id
    # mask = edge_faces[:, 1] != INT_FILL_VALUE
    mask = None
    for st in _it(f.node.body):
        if isinstance(st, _ast.Assign) and isinstance(st.targets[0], _ast.Name):
            ft = S.fill_test(st.value)
            if ft and ft[0] == "ne" and isinstance(ft[1], _ast.Subscript) and S.subscript_axes(ft[1]) == [("all",), ("idx", 1)]:
                mask = st.targets[0].id
    stores = S.stores_into(f.node, name)
    ok = mask is not None and stores and all(_n(s2.targets[0].slice) == mask for s2 in stores)
    if ok:
        run.holds("IDX/boundary-zero", c, where(f, alloc), f"zeros for every edge; computed distance stored only where {mask} (second face present)")
    else:
        run.violation("IDX/boundary-zero", c, where(f, alloc), "computed distances are not restricted to the edges whose second face exists")


def _distance_inputs(run, P):
    """great-circle distances are computed from lon/lat of the right element kind, or from Cartesian vectors that were normalised first:
    stored <kind>_x/y/z may come from the source with any radius (metres, km), so a chord/arc formula on them is only valid after _normalize_xyz."""
    import ast as _ast, re
    from ..astutil import LocalDefs
    for fname, kind_, conn in (("_populate_edge_node_distances", "node", "edge_node_connectivity"), ("_populate_edge_face_distances", "face", "edge_face_connectivity")):
        f = P.func(f"uxarray/grid/neighbors.py:{fname}")
        defs = LocalDefs(f.node)
        call = next((n for n in _ast.walk(f.node) if isinstance(n, _ast.Call) and (dotted(n.func) or [""])[-1].startswith("_construct_edge_")), None)
        c = f"{f.key}:distance-inputs"
        if call is None:
            run.incomplete("F-UNIT/distance-inputs", c, where(f), "call of the distance constructor not found")
            continue
        coords = []
        normalised = False
        for a in call.args:
            nodes, _ = defs.closure(a)
            for e in nodes:
                for n in _ast.walk(e):
                    if isinstance(n, _ast.Attribute) and re.match(r"^(node|edge|face)_(lon|lat|x|y|z)$", n.attr):
                        coords.append(n.attr)
                    if isinstance(n, _ast.Call) and (dotted(n.func) or [""])[-1].startswith("_normalize_xyz"):
                        normalised = True
        kinds = {c_.split("_")[0] for c_ in coords}
        comps = {c_.split("_")[1] for c_ in coords}
        probs = []
        if kinds != {kind_}:
            probs.append(f"coordinates of {sorted(kinds)} are used; the ends of the {conn.split('_')[1]} pairs are {kind_}s")
        if comps & {"x", "y", "z"} and not normalised:
            probs.append(f"stored Cartesian coordinates {sorted(c_ for c_ in coords if c_.split('_')[1] in 'xyz')} enter the arc-length formula without _normalize_xyz: a source that supplies them with a radius other than 1 (metres, km) gives NaN or wrong distances")
        if comps and not (comps <= {"lon", "lat"} or comps <= {"x", "y", "z"}):
            probs.append(f"mixed coordinate systems {sorted(comps)}")
        if not any(conn in norm(e) for a in call.args for e in defs.closure(a)[0]):
            probs.append(f"{conn} is not passed")
        if probs:
            run.violation("F-UNIT/distance-inputs", c, where(f, call), "; ".join(probs))
        else:
            run.holds("F-UNIT/distance-inputs", c, where(f, call), f"distances from {sorted(set(coords))} through {conn}")
