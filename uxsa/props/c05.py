"""C05  Face areas are the spherical-polygon areas, invariantly.

Decided: every literal quadrature table is a correct rule (exact rational moment conditions to 1e-12); branch sets;
the fan triangulation covers the polygon and the quadrature loops pair nodes and weights correctly; on the Cartesian path all
of x, y, z reach the Jacobian (constant propagation of `dim`); degrees are converted before the spherical->Cartesian map;
corners are gathered per face through the n_nodes_per_face prefix; face_areas cache = default-argument computation.
who may store face_areas (the getter/setter and the MPAS reader, whose file areas are divided by sphere_radius**2).
The grid's face_areas are not assigned through the setter from a computation with the caller's rule/order; library tolerances keep the pinned values.
No sub-triangle is skipped by comparing its area (length of the cross product of two edge vectors) with the length tolerance (F-DIM/area-vs-tolerance, contradiction rule over uxarray/grid)."""

import ast
from fractions import Fraction

from ..astutil import iter_stmts, norm, str_const, where
from ..flow import enumerate_paths
from ..loader import dotted
from ..rules import lazy, lit
from ..rules.common import dataflow, emit

AREA = "uxarray/grid/area.py"
GRID = "uxarray/grid/grid.py"


def _const_env(path):
    env = {}
    for ev in path.events:
        if isinstance(ev, ast.Assign) and len(ev.targets) == 1 and isinstance(ev.targets[0], ast.Name):
            if isinstance(ev.value, ast.Constant):
                env[ev.targets[0].id] = ev.value.value
            else:
                env.pop(ev.targets[0].id, None)
    return env


def check(run):
    P = run.program
    from ..rules import sqtol as _sq
    _sq.check_area(run, P, ("uxarray/grid/",))
    from ..rules import consts as _consts
    _consts.check(run, P)
    run.explanation = (
        "F-LIT: the 10 Gauss and 5 triangular tables are extracted from the if-chains of get_gauss_quadratureDG / get_tri_quadratureDG and "
        "checked with exact rational arithmetic on the float literals: counts, positivity, sum of weights, nodes in the domain, barycentric rows "
        "summing to 1 and all monomial moments up to the nominal degree within 1e-12 (measured worst residual ~4e-15); the affine rescale is "
        "interpreted symbolically.  F-PATH: paths of Grid.compute_face_areas are enumerated with constant propagation; on the Cartesian path "
        "`dim` must select the branch of get_all_face_area_from_coords that reads z.  calculate_face_area's fan (0, j+1, j+2), j < n-2 and the "
        "pairing of dG/dW indices in both quadrature loops are checked on index expressions.  Accuracy bounds, convergence and invariances "
        "(rotation, start corner, numbering, additivity, 4*pi) are numerical and NOT decided; a table typo below 1e-12 relative is invisible."
    )
    run.rule_text = "F-LIT exact moments; F-PATH constant propagation (dim/z); index-expression checks; F-UNIT; IDX-2"
    run.assumptions = ["Fraction(float literal) is the value the program uses", "moment conditions characterise a quadrature rule of the nominal degree"]
    n1 = lit.check_gauss(run, P)
    n2 = lit.check_tri(run, P)
    run.floor("F-LIT/tables", n1 + n2, 15)
    # ---- z reaches the Jacobian on the Cartesian path
    f = P.func(f"{GRID}:Grid.compute_face_areas")
    callee = P.func(f"{AREA}:get_all_face_area_from_coords")
    cparams = callee.params()
    zparam = cparams[2]
    ztest = None
    for st in iter_stmts(callee.node.body):
        if isinstance(st, ast.If) and isinstance(st.test, ast.Compare) and isinstance(st.test.left, ast.Name) and st.test.left.id in cparams:
            uses_z_then = any(isinstance(n, ast.Name) and n.id == zparam for s in st.body for n in ast.walk(s))
            uses_z_else = any(isinstance(n, ast.Name) and n.id == zparam for s in st.orelse for n in ast.walk(s))
            if uses_z_then != uses_z_else:
                ztest = (st, uses_z_then)
    z_always = ztest is None and any(isinstance(n, ast.Subscript) and isinstance(n.value, ast.Name) and n.value.id == zparam for n in ast.walk(callee.node))
    paths = [p for p in enumerate_paths(f.node.body) if p.exit != "raise" or True]
    seen = set()
    for p in paths:
        env = _const_env(p)
        call = None
        for ev in p.events:
            for c in ast.walk(ev):
                if isinstance(c, ast.Call) and (dotted(c.func) or [""])[-1] == "get_all_face_area_from_coords":
                    call = c
        if call is None:
            continue
        def val(i, name):
            a = call.args[i] if i < len(call.args) else next((k.value for k in call.keywords if k.arg == name), None)
            if isinstance(a, ast.Constant):
                return a.value
            if isinstance(a, ast.Name):
                return env.get(a.id, None)
            return None
        ctype = val(8, "coords_type")
        dim = val(5, "dim")
        if ctype in seen:
            continue
        seen.add(ctype)
        c = f"Grid.compute_face_areas:path[coords_type={ctype}]:z-live"
        if ctype == "cartesian":
            if z_always:
                run.holds("F-PATH/z-reaches-jacobian", c, where(f, call), "callee reads z unconditionally")
            elif ztest is None:
                run.incomplete("F-PATH/z-reaches-jacobian", c, where(callee), "no use of z found in get_all_face_area_from_coords")
            elif dim is None:
                run.incomplete("F-PATH/z-reaches-jacobian", c, where(f, call), "dim is not a constant on this path")
            else:
                st, z_in_then = ztest
                t = st.test
                opv = {ast.Gt: lambda a, b: a > b, ast.GtE: lambda a, b: a >= b, ast.Lt: lambda a, b: a < b, ast.LtE: lambda a, b: a <= b, ast.Eq: lambda a, b: a == b, ast.NotEq: lambda a, b: a != b}
                rhs = t.comparators[0].value if isinstance(t.comparators[0], ast.Constant) else None
                fn = opv.get(type(t.ops[0]))
                if rhs is None or fn is None or norm(t.left) != cparams[5]:
                    run.incomplete("F-PATH/z-reaches-jacobian", c, where(callee, st), f"test {norm(t)} not understood")
                else:
                    taken_then = fn(dim, rhs)
                    if taken_then == z_in_then:
                        run.holds("F-PATH/z-reaches-jacobian", c, where(f, call), f"dim={dim}: {norm(t)} selects the branch that reads z")
                    else:
                        run.violation("F-PATH/z-reaches-jacobian", c, where(f, call),
                                      f"on the Cartesian path (latlon=False) compute_face_areas passes dim={dim}; in get_all_face_area_from_coords '{norm(t)}' is then "
                                      f"{'true' if taken_then else 'false'}, so the z coordinates are replaced by zeros: Cartesian areas are computed for points with z=0")
        elif ctype == "spherical":
            run.holds("F-PATH/z-reaches-jacobian", c, where(f, call), "spherical path: z is not an input (lon/lat in x/y)", nontrivial=False)
    if "cartesian" not in seen:
        run.incomplete("F-PATH/z-reaches-jacobian", "Grid.compute_face_areas:path[coords_type=cartesian]:z-live", where(f), "no path with constant coords_type='cartesian' reaches the area routine")
    # ---- fan triangulation and quadrature pairing in calculate_face_area
    g = P.func(f"{AREA}:calculate_face_area")
    xp = g.params()[0]
    consts = {}
    loop = None
    for st in iter_stmts(g.node.body):
        if isinstance(st, ast.Assign) and len(st.targets) == 1 and isinstance(st.targets[0], ast.Name):
            consts[st.targets[0].id] = st.value
        if isinstance(st, ast.For) and loop is None and isinstance(st.iter, ast.Call) and norm(st.iter.func) == "range":
            loop = st
    c = f"{g.key}:fan"
    if loop is None or not isinstance(loop.target, ast.Name):
        run.incomplete("IDX/fan-triangulation", c, where(g), "triangle loop not found")
    else:
        j = loop.target.id
        def aff(node, depth=0):
            """a*n + b where n = len(x)"""
            if isinstance(node, ast.Call) and norm(node.func) == "len" and node.args and norm(node.args[0]) == xp:
                return (Fraction(1), Fraction(0))
            if isinstance(node, ast.Name) and node.id in consts and depth < 5:
                return aff(consts[node.id], depth + 1)
            return lit._affine(node, {}, lambda n: isinstance(n, ast.Call) and norm(n.func) == "len" and n.args and norm(n.args[0]) == xp) if not isinstance(node, ast.Name) else (_ for _ in ()).throw(ValueError(node.id))
        def aff2(node, depth=0):
            if isinstance(node, ast.Name) and node.id in consts and depth < 5 and node.id != j:
                return aff2(consts[node.id], depth + 1)
            if isinstance(node, ast.BinOp):
                l, r = aff2(node.left, depth), aff2(node.right, depth)
                if isinstance(node.op, ast.Add):
                    return (l[0] + r[0], l[1] + r[1])
                if isinstance(node.op, ast.Sub):
                    return (l[0] - r[0], l[1] - r[1])
                raise ValueError("op")
            if isinstance(node, ast.Constant) and isinstance(node.value, int):
                return (Fraction(0), Fraction(node.value))
            if isinstance(node, ast.Call) and norm(node.func) == "len" and node.args and norm(node.args[0]) == xp:
                return (Fraction(1), Fraction(0))
            raise ValueError(norm(node))
        try:
            rng = loop.iter.args
            start = aff2(rng[0]) if len(rng) == 2 else (Fraction(0), Fraction(0))
            stop = aff2(rng[-1])
            ok_range = start == (0, 0) and stop == (1, -2)
        except ValueError as e:
            ok_range = None
        idxs = set()
        loop_defs = {}
        for st_ in iter_stmts(loop.body):
            if isinstance(st_, ast.Assign) and len(st_.targets) == 1 and isinstance(st_.targets[0], ast.Name):
                loop_defs.setdefault(st_.targets[0].id, []).append(st_.value)

        def jaff(node, depth=0):
            """(a, b) with index = a*j + b, resolving single-definition locals of the loop body and function-level constants"""
            if isinstance(node, ast.Constant) and isinstance(node.value, int) and not isinstance(node.value, bool):
                return (0, node.value)
            if isinstance(node, ast.Name):
                if node.id == j:
                    return (1, 0)
                if depth < 4 and len(loop_defs.get(node.id, [])) == 1:
                    return jaff(loop_defs[node.id][0], depth + 1)
                if depth < 4 and node.id in consts and node.id not in loop_defs:
                    return jaff(consts[node.id], depth + 1)
                raise ValueError(node.id)
            if isinstance(node, ast.BinOp) and isinstance(node.op, (ast.Add, ast.Sub)):
                l, r = jaff(node.left, depth), jaff(node.right, depth)
                sg = 1 if isinstance(node.op, ast.Add) else -1
                return (l[0] + sg * r[0], l[1] + sg * r[1])
            raise ValueError(norm(node))
        for n_ in ast.walk(loop):
            if isinstance(n_, ast.Subscript) and isinstance(n_.value, ast.Name) and n_.value.id == xp:
                try:
                    a_, b_ = jaff(n_.slice)
                    idxs.add(("c", b_) if a_ == 0 else ("j", b_) if a_ == 1 else ("?", norm(n_.slice)))
                except ValueError:
                    idxs.add(("?", norm(n_.slice)))
        want = {("c", 0), ("j", 1), ("j", 2)}
        if ok_range and idxs == want:
            run.holds("IDX/fan-triangulation", c, where(g, loop), "triangles (0, j+1, j+2) for j in range(0, len(x)-2): the fan covers the polygon once")
        elif ok_range is None or any(k == "?" for k, _v in idxs):
            run.incomplete("IDX/fan-triangulation", c, where(g, loop), f"loop bounds / corner indices not affine in len(x) and the loop variable: {sorted(map(str, idxs))}")
        else:
            run.violation("IDX/fan-triangulation", c, where(g, loop),
                          f"fan triangulation is not (0, j+1, j+2) for j in range(0, n-2): loop {norm(loop.iter)}, corner indices {sorted(map(str, idxs))}")
        # quadrature pairing
        _pairing(run, g, loop, consts)
    # ---- units, gather fill-safety in area.py and its callers in grid.py
    R = dataflow(P, run.tier)
    ok, bad = emit(run, R, {"UNIT/deg->trig", "UNIT/double-conversion", "IDX/fill-safety", "IDX/space"}, files=[AREA])
    emit(run, R, {"UNIT/deg->trig", "UNIT/double-conversion", "IDX/fill-safety", "IDX/space"}, funcs=[f"{GRID}:Grid.compute_face_areas", f"{GRID}:Grid.calculate_total_face_area"])
    # ---- cached face_areas filled by an all-default compute_face_areas(); compute_face_areas never reads the cache
    fa = P.cls(f"{GRID}:Grid").methods["face_areas"]
    call = next((c2 for c2 in ast.walk(fa.node) if isinstance(c2, ast.Call) and (dotted(c2.func) or [""])[-1] == "compute_face_areas"), None)
    c = "Grid.face_areas:default-computation"
    if call is None:
        run.incomplete("F-CACHE/face-areas", c, where(fa), "compute_face_areas() call not found")
    elif not call.args and not call.keywords:
        run.holds("F-CACHE/face-areas", c, where(fa, call), "cached face_areas come from compute_face_areas() with all-default arguments")
    else:
        run.violation("F-CACHE/face-areas", c, where(fa, call), f"cached face_areas are computed by {norm(call)}: they differ from a fresh default computation")
    _who_stores_face_areas(run, P)
    # the value stored as face_areas is, on every path, the first result of THAT all-default call (not an attribute another call may have written)
    c = "Grid.face_areas:stored-value-from-default-call"
    bad = None
    n_store = 0
    for p in enumerate_paths(fa.node.body):
        env = {}
        for e in p.events:
            if isinstance(e, ast.Assign) and len(e.targets) == 1:
                t, v = e.targets[0], e.value
                if isinstance(t, ast.Tuple) and isinstance(v, ast.Call) and (dotted(v.func) or [""])[-1] == "compute_face_areas" and not v.args and not v.keywords and isinstance(t.elts[0], ast.Name):
                    env[t.elts[0].id] = "default-areas"
                if isinstance(t, ast.Subscript) and str_const(t.slice) == "face_areas":
                    n_store += 1
                    data = None
                    if isinstance(v, ast.Call):
                        data = next((k.value for k in v.keywords if k.arg == "data"), v.args[0] if v.args else None)
                    if not (isinstance(data, ast.Name) and env.get(data.id) == "default-areas"):
                        bad = (e, norm(data) if data is not None else norm(v)[:40])
    if bad:
        run.violation("F-CACHE/face-areas", c, where(fa, bad[0]), f"the cached face_areas are taken from {bad[1]}, not from the result of compute_face_areas() with default arguments on this path: after compute_face_areas(other rule/order) the cached areas are those of the other rule")
    elif n_store:
        run.holds("F-CACHE/face-areas", c, where(fa), "face_areas is stored from the first result of the all-default compute_face_areas() call on every path")
    else:
        run.incomplete("F-CACHE/face-areas", c, where(fa), "no store of face_areas found in the getter")
    _point_equalities(run, P)
    # default areas of a Cartesian-supplied grid use lon/lat derived through _xyz_to_lonlat_*: a widened pole window moves corners
    from .c04 import _xyz_helpers
    _xyz_helpers(run, P)
    _memo_paths(run, P, f)
    reads_cache = any(str_const(n.slice) == "face_areas" for n in ast.walk(f.node) if isinstance(n, ast.Subscript)) or any(isinstance(n, ast.Attribute) and n.attr == "face_areas" for n in ast.walk(f.node))
    c = "Grid.compute_face_areas:ignores-cache"
    if reads_cache:
        run.violation("F-CACHE/face-areas", c, where(f), "compute_face_areas reads the cached face_areas: a call with another rule/order returns the cached default")
    else:
        run.holds("F-CACHE/face-areas", c, where(f), "compute_face_areas recomputes from coordinates")
    lazy.check_getters(run, P, ["face_areas"])


def _memo_paths(run, P, f):
    """compute_face_areas(rule, order, latlon) must compute from the grid's CURRENT coordinates: every returning path passes
    through the area routine.  A path that returns stored attributes instead is a memo of a quantity derived from the node
    coordinates; it is only sound if every public coordinate setter of Grid resets it (none does today)."""
    from ..flow import enumerate_paths
    paths = [p for p in enumerate_paths(f.node.body) if p.exit == "return"]
    c = "Grid.compute_face_areas:every-return-computes"
    short = []
    for p in paths:
        computed = any(isinstance(n, ast.Call) and (dotted(n.func) or [""])[-1] == "get_all_face_area_from_coords" for e in p.events for n in ast.walk(e))
        if not computed:
            short.append(p)
    if not paths:
        run.incomplete("F-CACHE/face-areas", c, where(f), "no returning path found")
        return
    if not short:
        run.holds("F-CACHE/face-areas", c, where(f), f"all {len(paths)} returning paths call the area routine on the current coordinates")
        return
    # memo present: which attributes guard it, and do the coordinate setters reset them?
    guard_attrs = sorted({n.attr for p in short for t, _v in p.conds for n in ast.walk(t) if isinstance(n, ast.Attribute) and isinstance(n.value, ast.Name) and n.value.id == "self" and n.attr.startswith("_")})
    ci = P.cls("uxarray/grid/grid.py:Grid")
    setters = [m for m in ci.all_methods if any(norm(d).endswith(".setter") for d in m.node.decorator_list) and m.name.split("_")[-1] in ("lon", "lat", "x", "y", "z") and m.name.startswith("node_")] if hasattr(ci, "all_methods") else []
    if not setters:
        # fall back: scan the class body
        for st in ci.node.body:
            if isinstance(st, ast.FunctionDef) and any(norm(d).endswith(".setter") for d in st.decorator_list) and st.name.startswith("node_"):
                setters.append(st)
    def resets(fnode):
        node = getattr(fnode, "node", fnode)
        return any(isinstance(s2, ast.Assign) and isinstance(s2.targets[0], ast.Attribute) and s2.targets[0].attr in guard_attrs for s2 in ast.walk(node))
    stale = [getattr(m, "name", None) or m.name for m in setters if not resets(m)]
    if guard_attrs and setters and not stale:
        run.holds("F-CACHE/face-areas", c, where(f), f"memo on {guard_attrs} is reset by every node coordinate setter")
    else:
        run.violation("F-CACHE/face-areas", c, where(f, short[0].events[-1] if short[0].events else None),
                      f"{len(short)} returning path(s) hand back stored areas (guarded by {guard_attrs}) without recomputing; the node coordinate setters {stale[:5]} do not reset that memo, "
                      "so after the geometry is edited compute_face_areas/integrate keep using the areas of the previous geometry")


def _pairing(run, g, loop, consts):
    """Inside the triangle loop every accumulation  area += <weights> * <jacobian>  is collected with its context: the enclosing quadrature loops (canonical p, q
    by nesting), the quadrature rule the enclosing conditions select (names resolved through function-level assignments), and the node arguments of the Jacobian
    call (locals resolved).  gaussian: nodes dG[0][p], dG[0][q], weights dW[p]*dW[q], tensor Jacobian; triangular: nodes dG[p][0], dG[p][1], weight dW[p],
    barycentric Jacobian."""
    RULES = ("gaussian", "triangular")
    WANT = {"gaussian": ({"dG[0][p]", "dG[0][q]"}, {"dW[p]", "dW[q]"}, "calculate_spherical_triangle_jacobian"),
            "triangular": ({"dG[p][0]", "dG[p][1]"}, {"dW[p]"}, "calculate_spherical_triangle_jacobian_barycentric")}
    sites = []
    partial = {}      # accumulator name -> inner accumulation sites
    unreset = []      # (statement, accumulator) added to area without being zeroed inside the triangle loop

    def rule_of(test, depth=0):
        """(rule, True) when the test is  quadrature_rule == "<rule>"  (possibly through a local flag), negations flipped; None otherwise"""
        if isinstance(test, ast.UnaryOp) and isinstance(test.op, ast.Not):
            r = rule_of(test.operand, depth)
            return (r[0], not r[1]) if r else None
        if isinstance(test, ast.Name) and test.id in consts and depth < 3:
            return rule_of(consts[test.id], depth + 1)
        if isinstance(test, ast.Compare) and len(test.ops) == 1 and isinstance(test.ops[0], (ast.Eq, ast.NotEq)):
            l, r = test.left, test.comparators[0]
            for x, y in ((l, r), (r, l)):
                if isinstance(x, ast.Name) and x.id == "quadrature_rule" and str_const(y) in RULES:
                    return (str_const(y), isinstance(test.ops[0], ast.Eq))
        return None

    def walk(stmts, loops, rules, env):
        for st in stmts:
            if isinstance(st, ast.Assign) and len(st.targets) == 1 and isinstance(st.targets[0], ast.Name):
                env[st.targets[0].id] = st.value
            elif isinstance(st, ast.For) and isinstance(st.target, ast.Name):
                walk(st.body, loops + [st.target.id], rules, dict(env))
            elif isinstance(st, ast.If):
                r = rule_of(st.test)
                if r is None:
                    walk(st.body, loops, rules, dict(env))
                    walk(st.orelse, loops, rules, dict(env))
                else:
                    sel = {r[0]} if r[1] else set(RULES) - {r[0]}
                    walk(st.body, loops, rules & sel, dict(env))
                    walk(st.orelse, loops, rules - sel, dict(env))
            elif isinstance(st, ast.AugAssign) and isinstance(st.target, ast.Name) and st.target.id == "area":
                # two-level accumulation  acc += w * J  ...  area += acc : the inner sums count as the sites, provided acc starts from zero for every sub-triangle
                v = st.value
                if isinstance(v, ast.Name) and v.id in partial:
                    inner = partial[v.id]
                    reset = [s_ for s_ in iter_stmts(loop.body) if isinstance(s_, ast.Assign) and len(s_.targets) == 1 and norm(s_.targets[0]) == v.id and norm(s_.value) in ("0", "0.0") and s_.lineno < inner[0][0].lineno]
                    if not reset:
                        unreset.append((st, v.id))
                    for ist, iloops, irules, ienv in inner:
                        sites.append((ist, iloops, set(irules) & set(rules), ienv))
                else:
                    sites.append((st, list(loops), set(rules), dict(env)))
            elif isinstance(st, ast.AugAssign) and isinstance(st.target, ast.Name) and isinstance(st.op, ast.Add) and st.target.id != "jacobian":
                partial.setdefault(st.target.id, []).append((st, list(loops), set(rules), dict(env)))

    walk(loop.body, [], set(RULES), {})

    def resolve(e, env, depth=0):
        while isinstance(e, ast.Name) and e.id in env and depth < 4:
            e = env[e.id]
            depth += 1
        return e

    def factors(e):
        if isinstance(e, ast.BinOp) and isinstance(e.op, ast.Mult):
            return factors(e.left) + factors(e.right)
        return [e]

    for st_, acc in unreset:
        run.violation("IDX/quadrature-pairing", f"{g.key}:partial-sum[{acc}]", where(g, st_), f"area += {acc}: the partial sum {acc} is not reset to zero for each sub-triangle, so every sub-triangle adds the "
                      "running total of all previous ones as well (faces with more than three corners get too large an area)")
    for rule_name in RULES:
        cc = f"{g.key}:pairing[{rule_name}]"
        mine = [s_ for s_ in sites if rule_name in s_[2]]
        if not mine:
            run.incomplete("IDX/quadrature-pairing", cc, where(g, loop), "no accumulation into area found under this quadrature rule")
            continue
        want_g, want_w, want_callee = WANT[rule_name]
        bad, unknown, desc = [], [], []
        for st, loops, rules, env in mine:
            canon = dict(zip(loops, ["p", "q", "r"]))

            def cn(node):
                t = norm(node)
                for a_, b_ in canon.items():
                    t = t.replace(f"[{a_}]", f"[{b_}]")
                return t
            if not isinstance(st.op, ast.Add):
                bad.append(f"{norm(st)[:50]} does not add")
                continue
            ws, jac = set(), None
            for fct in factors(st.value):
                r = resolve(fct, env)
                if isinstance(r, ast.Subscript) and cn(r).startswith("dW"):
                    ws.add(cn(r))
                elif isinstance(r, ast.Call) and (dotted(r.func) or [""])[-1].startswith("calculate_spherical_triangle_jacobian"):
                    jac = r
                else:
                    unknown.append(f"factor {norm(fct)[:40]} of {norm(st)[:50]}")
            if jac is None:
                if not unknown:
                    bad.append(f"{norm(st)[:60]} is not a product with the Jacobian")
                continue
            callee = (dotted(jac.func) or [""])[-1]
            nodes = {cn(resolve(a_, env)) for a_ in jac.args[3:5]}
            desc.append(f"nodes {sorted(nodes)}, weights {sorted(ws)}, {callee}")
            if len(rules) > 1:
                unknown.append(f"{norm(st)[:50]} is not under a condition that selects one quadrature rule")
            if any(not t.startswith("dG") for t in nodes):
                unknown.append(f"quadrature node arguments {sorted(nodes)}")
            elif nodes != want_g:
                bad.append(f"nodes {sorted(nodes)} (expected {sorted(want_g)})")
            if ws != want_w:
                bad.append(f"weights {sorted(ws)} (expected {sorted(want_w)})")
            if callee != want_callee:
                bad.append(f"Jacobian {callee} (expected {want_callee})")
        if bad:
            run.violation("IDX/quadrature-pairing", cc, where(g, mine[0][0]), f"{rule_name} quadrature accumulates with " + "; ".join(bad))
        elif unknown:
            run.incomplete("IDX/quadrature-pairing", cc, where(g, mine[0][0]), "idiom not recognised: " + "; ".join(unknown))
        else:
            run.holds("IDX/quadrature-pairing", cc, where(g, mine[0][0]), "; ".join(desc) + ": area += product of the weights and the Jacobian")


def _point_equalities(run, P):
    """In the area routines a corner is (x, y, z): any test that two corners coincide must compare all three components
    (on the Cartesian path z distinguishes corners mirrored across the equator; on the lon/lat path z is a dummy, which hides the omission)."""
    n = 0
    for f in P.all_functions():
        if f.module.relpath != AREA or not {"x", "y", "z"} <= set(f.params()):
            continue
        for t in ast.walk(f.node):
            if not isinstance(t, (ast.If, ast.IfExp, ast.While)):
                continue
            comps = [c for c in ast.walk(t.test) if isinstance(c, ast.Compare) and len(c.ops) == 1 and isinstance(c.ops[0], (ast.Eq, ast.NotEq))]
            vars_ = set()
            for c in comps:
                for side in (c.left, c.comparators[0]):
                    if isinstance(side, ast.Subscript) and isinstance(side.value, ast.Name) and side.value.id in ("x", "y", "z"):
                        vars_.add(side.value.id)
            calls = [c for c in ast.walk(t.test) if isinstance(c, ast.Call) and (dotted(c.func) or [""])[-1] in ("isclose", "allclose", "array_equal")]
            for c in calls:
                for a in c.args[:2]:
                    if isinstance(a, ast.Subscript) and isinstance(a.value, ast.Name) and a.value.id in ("x", "y", "z"):
                        vars_.add(a.value.id)
            if vars_ and len(vars_) >= 2:
                n += 1
                c0 = f"{f.key}:corner-equality@{norm(t.test)[:50]}"
                if vars_ == {"x", "y", "z"}:
                    run.holds("F-GUARD/corner-equality", c0, where(f, t), "corner coincidence tested on x, y and z")
                else:
                    run.violation("F-GUARD/corner-equality", c0, where(f, t), f"two corners are declared identical by comparing {sorted(vars_)} only: corners (x, y, z) and (x, y, -z) coincide for this test, so a face loses a sub-triangle on the Cartesian path")
    run.stats["corner_equality_tests"] = n


# who may store face_areas (frozen from the pinned tree, each confirmed by reading): the getter/setter pair of Grid and the MPAS reader, whose areaCell the MPAS
# specification defines on the sphere the mesh itself lives on.
FACE_AREA_WRITERS = {
    "uxarray/grid/grid.py:Grid.face_areas": "the lazy getter (default computation) and its setter",
    "uxarray/io/_mpas.py:_parse_face_areas": "areaCell / areaTriangle of the MPAS mesh specification",
}


def _who_stores_face_areas(run, P):
    """`face_areas` is what Grid.face_areas hands out without computing: a store of that variable anywhere else bypasses the quadrature.  A reader that copies an area
    variable of its format there makes the grid report the file's numbers - in the file's unit and for the file's sphere radius (ESMF elementArea, SCRIP grid_area are
    in whatever the generating tool used) - so `face_areas` and `compute_face_areas()` disagree."""
    from ..astutil import LocalDefs
    n = 0
    for f in P.all_functions():
        if not f.module.relpath.startswith("uxarray/"):
            continue
        stores = [st for st in ast.walk(f.node) if isinstance(st, ast.Assign) and isinstance(st.targets[0], ast.Subscript) and str_const(st.targets[0].slice) == "face_areas"]
        if not stores:
            continue
        key = f.key if f.key in FACE_AREA_WRITERS else next((k for k in FACE_AREA_WRITERS if f.key.startswith(k)), None)
        if key is None and f.name.startswith("_") and f.name in (getattr(f.module, "normalised", {}) or {}).get("inlined_helpers", []):
            from ..rules.lazy import _has_call_site
            if not _has_call_site(P, f):
                continue      # a private helper whose body the normaliser has put into its only caller(s): judged there
        for st in stores:
            n += 1
            c = f"{f.key}:store[face_areas]"
            if key is not None:
                run.holds("F-TABLE/face-area-writers", c, where(f, st), FACE_AREA_WRITERS[key])
                if f.module.relpath.endswith("io/_mpas.py"):
                    # areaCell / areaTriangle belong to the sphere of radius `sphere_radius` (global attribute): unit-sphere areas need the division by its square
                    defs_ = LocalDefs(f.node)
                    nodes_, _ = defs_.closure(st.value)
                    divs = [(x, defs_) for e in nodes_ for x in ast.walk(e) if isinstance(x, ast.BinOp) and isinstance(x.op, ast.Div)]
                    divs += [(ast.BinOp(left=a.target, op=ast.Div(), right=a.value), defs_) for a in ast.walk(f.node) if isinstance(a, ast.AugAssign) and isinstance(a.op, ast.Div)]
                    # ... or in a helper of the module the stored value is passed through
                    from ..loader import FuncInfo as _FI
                    for e in nodes_:
                        for cl in ast.walk(e):
                            if isinstance(cl, ast.Call):
                                t_ = P.resolve_expr(f.module, cl.func, f)
                                if isinstance(t_, _FI) and t_.module is f.module:
                                    hd = LocalDefs(t_.node)
                                    divs += [(x, hd) for x in ast.walk(t_.node) if isinstance(x, ast.BinOp) and isinstance(x.op, ast.Div)]
                    ok_ = False
                    for d_, dd_ in divs:
                        den, _n = dd_.closure(d_.right)
                        mentions = any(isinstance(x, ast.Constant) and x.value == "sphere_radius" for e in den for x in ast.walk(e)) or any(isinstance(x, ast.Attribute) and x.attr == "sphere_radius" for e in den for x in ast.walk(e))
                        squared = any((isinstance(x, ast.BinOp) and isinstance(x.op, ast.Pow) and isinstance(x.right, ast.Constant) and x.right.value == 2) or
                                      (isinstance(x, ast.BinOp) and isinstance(x.op, ast.Mult) and norm(x.left) == norm(x.right)) or
                                      (isinstance(x, ast.Call) and (dotted(x.func) or [""])[-1] in ("square",)) for e in [d_.right] + den for x in ast.walk(e))
                        if mentions and squared:
                            ok_ = True
                    c2 = f"{f.key}:store[face_areas]:unit-sphere"
                    if ok_:
                        run.holds("F-UNIT/mpas-area-radius", c2, where(f, st), "file areas divided by sphere_radius**2")
                    else:
                        run.violation("F-UNIT/mpas-area-radius", c2, where(f, st), "the MPAS areas (areaCell / areaTriangle) are stored as face_areas without the division by sphere_radius**2: for a mesh whose "
                                      "sphere_radius is not 1 Grid.face_areas are not unit-sphere areas and differ from compute_face_areas() by that factor")
                continue
            nodes, _ = LocalDefs(f.node).closure(st.value)
            src = [x for e in nodes for x in ast.walk(e) if isinstance(x, ast.Subscript) and isinstance(x.value, ast.Name) and x.value.id in ("in_ds", "ext_ds", "ds", "dataset", "grid_ds") and str_const(x.slice)]
            if src:
                run.violation("F-TABLE/face-area-writers", c, where(f, st), f"{f.name} stores the file's `{str_const(src[0].slice)}` as face_areas: Grid.face_areas then reports the file's numbers (its unit, its sphere radius) "
                              "while compute_face_areas() integrates on the unit sphere")
            else:
                run.incomplete("F-TABLE/face-area-writers", c, where(f, st), f"{f.name} stores face_areas; it is not one of the writers confirmed for the pinned tree ({sorted(FACE_AREA_WRITERS)})")
    run.floor("F-TABLE/face-area-writers", n, 2)
    # ... and through the setter: `<grid>.face_areas = v` outside the Grid class caches v as THE face areas
    for f in P.all_functions():
        if not f.module.relpath.startswith("uxarray/") or (f.cls is not None and f.cls.name == "Grid"):
            continue
        for st in ast.walk(f.node):
            if isinstance(st, ast.Assign) and any(isinstance(t, ast.Attribute) and t.attr in ("face_areas", "_face_areas") for t in st.targets):
                c = f"{f.key}:setter[face_areas]"
                nodes, _ = LocalDefs(f.node).closure(st.value)
                calls = [x for e in nodes for x in ast.walk(e) if isinstance(x, ast.Call) and (dotted(x.func) or [""])[-1] == "compute_face_areas"]
                if calls and any(cl.args or cl.keywords for cl in calls):
                    run.violation("F-TABLE/face-area-writers", c, where(f, st), f"{f.qualname} caches the result of `{norm(calls[0])[:60]}` as the grid's face_areas: after a call with another rule or order "
                                  "Grid.face_areas no longer equals a fresh default computation")
                else:
                    run.incomplete("F-TABLE/face-area-writers", c, where(f, st), f"{f.qualname} assigns the grid's face_areas; it is not one of the writers confirmed for the pinned tree")

