"""C01  Readers decode every supported format to the faces the source describes.

Decided: the format dispatch is total and consistent (sniffer results = branches of Grid.from_dataset = readers of the matching module);
every connectivity a reader emits is in standard form on every path (typestate dtype x sentinel x base x padding from the format specification's source state to the sink);
each emitted variable is built from the source variables the format specification assigns to that role (MPAS primal and dual, ICON, ESMF, SCRIP, Exodus, GEOS);
radian sources are converted and lon/lat/x/y/z roles preserved, incl. tuple returns of the polygon readers;
attribute-presence tests address attributes; every Exodus connect block reaches the output in file order; longitudes are normalised on every construction path.
the smallest index in use serves as index base only where the start_index attribute is known to be absent; readers normalise the file's Cartesian coordinates by their length; polygon vertices come from the exterior ring only.
open_grid hands **kwargs to xarray unchanged; ICON tables are transposed unconditionally; the constants of uxarray/constants.py keep the pinned values."""

import ast

from ..astutil import LocalDefs, iter_stmts, norm, str_const, where
from ..flow import enumerate_paths
from ..loader import FuncInfo, dotted
from ..rules import conn as C
from ..rules import guard, readers
from ..rules.common import dataflow, emit

GRID = "uxarray/grid/grid.py"
IO = "uxarray/io/"

# module of the reader that must serve each sniffed format
FORMAT_READER = {
    "Exodus": ("_exodus", "_read_exodus"),
    "Scrip": ("_scrip", "_read_scrip"),
    "UGRID": ("_ugrid", "_read_ugrid"),
    "MPAS": ("_mpas", "_read_mpas"),
    "ESMF": ("_esmf", "_read_esmf"),
    "GEOS-CS": ("_geos", "_read_geos_cs"),
    "ICON": ("_icon", "_read_icon"),
}

# role tables frozen from the format documents (target <- exact set of source variables)
ROLE_TABLES = {
    "uxarray/io/_icon.py:_primal_to_ugrid": {
        "node_lon": {"vlon"}, "node_lat": {"vlat"}, "edge_lon": {"elon"}, "edge_lat": {"elat"}, "face_lon": {"clon"}, "face_lat": {"clat"},
        "face_node_connectivity": {"vertex_of_cell"}, "face_edge_connectivity": {"edge_of_cell"},
        "face_face_connectivity": {"neighbor_cell_index"}, "edge_face_connectivity": {"adjacent_cell_of_edge"},
        "edge_node_connectivity": {"edge_vertices"},
    },
    "uxarray/io/_esmf.py:_read_esmf": {
        "node_lon": {"nodeCoords#0"}, "node_lat": {"nodeCoords#1"}, "face_lon": {"centerCoords#0"}, "face_lat": {"centerCoords#1"},
        "n_nodes_per_face": {"numElementConn"}, "face_node_connectivity": {"elementConn"},
    },
    "uxarray/io/_scrip.py:_to_ugrid": {
        "face_lon": {"grid_center_lon"}, "face_lat": {"grid_center_lat"},
    },
    "uxarray/io/_geos.py:_read_geos_cs": {
        "node_lon": {"corner_lons"}, "node_lat": {"corner_lats"}, "face_lon": {"lons"}, "face_lat": {"lats"},
    },
    "uxarray/io/_exodus.py:_read_exodus": {
        "node_x": {"coord#0", "coordx"}, "node_y": {"coord#1", "coordy"}, "node_z": {"coord#2", "coordz"},
    },
}
# source variables that MAY additionally take part in a target (the format document gives them a part in decoding it, and whether they show up in the backward slice
# depends on how the reader is written: a count used as a slice bound in a loop does not, the same count used as a mask does)
ROLE_MAY = {
    "uxarray/io/_esmf.py:_read_esmf": {"face_node_connectivity": {"numElementConn"}},     # entries past numElementConn[i] are padding (ESMFMESH)
}
# radians in the source (must be converted before the degree-valued *_lon/*_lat store)
RADIAN_SOURCES = {"vlon", "vlat", "elon", "elat", "clon", "clat", "lonVertex", "latVertex", "lonCell", "latCell", "lonEdge", "latEdge"}


def _source_refs(expr, dsnames):
    """source-variable references in an expression:  ds["k"], ds.k, ds.k[i], ds["k"].isel(dim=i) -> 'k' / 'k#i'"""
    out = set()
    for n in ast.walk(expr):
        key = None
        if isinstance(n, ast.Subscript) and isinstance(n.value, ast.Name) and n.value.id in dsnames and str_const(n.slice) is not None:
            key = str_const(n.slice)
        elif isinstance(n, ast.Attribute) and isinstance(n.value, ast.Name) and n.value.id in dsnames and n.attr not in ("sizes", "dims", "variables", "attrs", "coords", "data_vars", "rename_dims", "rename", "copy"):
            key = n.attr
        if key is not None:
            out.add((key, n))
    return out


def _component_refs(expr, dsnames):
    """like _source_refs but resolves the component selection  X[i] / X.isel(<dim>=i)  to 'k#i'."""
    comps = set()
    plain = {id(n): k for k, n in _source_refs(expr, dsnames)}
    used = set()
    for n in ast.walk(expr):
        if isinstance(n, ast.Subscript) and id(n.value) in plain and isinstance(n.slice, ast.Constant) and isinstance(n.slice.value, int):
            comps.add(f"{plain[id(n.value)]}#{n.slice.value}")
            used.add(id(n.value))
        if isinstance(n, ast.Call) and isinstance(n.func, ast.Attribute) and n.func.attr == "isel" and id(n.func.value) in plain:
            for k in n.keywords:
                if isinstance(k.value, ast.Constant) and isinstance(k.value.value, int):
                    comps.add(f"{plain[id(n.func.value)]}#{k.value.value}")
                    used.add(id(n.func.value))
    for i, k in plain.items():
        if i not in used:
            comps.add(k)
    return comps


def role_table_of(f: FuncInfo, dsnames):
    """{target: (set(source refs), stmt)} via backward slices over locals (flow-insensitive, branch-local defs merged)."""
    defs = LocalDefs(f.node)
    out = {}
    for st in iter_stmts(f.node.body):
        if not (isinstance(st, ast.Assign) and len(st.targets) == 1 and isinstance(st.targets[0], ast.Subscript)):
            continue
        t = st.targets[0]
        key = str_const(t.slice)
        if key is None:
            # ugrid.NODE_COORDINATES[0] style keys are resolved by the caller
            key = norm(t.slice)
        nodes, _ = defs.closure(st.value)
        srcs = set()
        opaque = False
        for e in nodes:
            srcs |= _component_refs(e, dsnames)
            # the dataset itself handed to a function: which of its variables end up in this value is not visible here
            for c_ in ast.walk(e):
                if isinstance(c_, ast.Call) and any(isinstance(a, ast.Name) and a.id in dsnames for a in list(c_.args) + [k.value for k in c_.keywords]):
                    opaque = True
        out.setdefault(key, []).append((srcs, st, opaque))
    return out


def check(run):
    P = run.program
    from ..rules import consts as _consts
    _consts.check(run, P)
    run.explanation = (
        "F-TABLE: literals returned by _parse_grid_type, literals tested in Grid.from_dataset and the reader each branch calls are compared with the frozen "
        "format->reader-module map.  F-CONN: a typestate interpreter (uxsa/rules/conn.py) starts every source connectivity variable in the state its FORMAT "
        "SPECIFICATION gives it (MPAS: 1-based, 0 = none, rows padded beyond nEdgesOnCell; ICON: 1-based, <=0 = none; ESMF: base from attribute start_index default 1, "
        "entries beyond numElementConn undefined; Exodus: 1-based blocks; UGRID: any declared _FillValue/NaN, any declared start_index; from_topology: caller's fill/start index) "
        "and interprets the reader's own statements (casts, masked stores of INT_FILL_VALUE, masked/whole index arithmetic, _replace_fill_values, block assembly, helper calls inlined) on every "
        "branch; at each *_connectivity sink the state must be INT_DTYPE / INT_FILL_VALUE-or-no-sentinel / zero-based / padding replaced.  A definite other state is a violation: "
        "an admissible file exists for which the Grid is not in standard form.  F-TABLE roles: the backward slice of every emitted variable must reference exactly the source variables "
        "the specification assigns to that role.  Same number/order/positions of faces for all meshes (np.unique node rebuilding, GEOS corner arithmetic, polygon ring extraction) is NOT decided."
    )
    run.rule_text = "F-TABLE(dispatch, roles) + F-CONN typestate + F-UNIT + F-GUARD + F-PATH(block order, lon normalisation)"
    run.assumptions = [
        "format specifications: MPAS Mesh Spec 1.0, ICON grid description, ESMFMESH, SCRIP, Exodus II, UGRID 1.0 (tables in uxsa/rules/conn.py and uxsa/rules/readers.py)",
        "_replace_fill_values(grid_var, original_fill, new_fill, new_dtype) replaces exactly the entries equal to original_fill (NaN-aware) and casts to new_dtype (its body is checked by the obligation F-CONN/helper)",
        "np.unique(..., return_inverse=True) yields zero-based platform-int positions",
    ]
    _dispatch(run, P)
    _conn(run, P)
    n = readers.check_mpas_roles(run, P)
    run.floor("F-TABLE/mpas-roles", n, 40)
    _roles(run, P)
    _units(run, P)
    n = guard.check_attr_membership_on_dataarray(run, P, [f"{IO}_ugrid.py:_read_ugrid", f"{IO}_ugrid.py:_standardize_connectivity", f"{IO}_esmf.py:_read_esmf"])
    run.floor("F-GUARD/attrs-membership", n, 6)
    _exodus_blocks(run, P)
    _construct_paths(run, P)
    # Cartesian-only sources (Exodus, face vertices) get their lon/lat through _xyz_to_lonlat_*: normalisation by the length, pole window
    from .c04 import _xyz_helpers
    _xyz_helpers(run, P)
    _readers_normalise(run, P)
    _polygon_rings(run, P)
    _open_grid_kwargs(run, P)
    _icon_layout(run, P)
    _vertices_exact(run, P)


# ------------------------------------------------------------------------------------------------ dispatch
def _dispatch(run, P):
    sn = P.func(f"{IO}utils.py:_parse_grid_type")
    produced = set()
    for st in iter_stmts(sn.node.body):
        if isinstance(st, ast.Assign) and len(st.targets) == 1 and norm(st.targets[0]) == "mesh_type" and str_const(st.value):
            produced.add(str_const(st.value))
        if isinstance(st, ast.Return) and str_const(st.value):
            produced.add(str_const(st.value))
    fd = P.func(f"{GRID}:Grid.from_dataset")
    handled = {}
    # the dispatch may live in from_dataset itself or in module-level helpers it calls (two levels)
    scope, seen = [fd], {fd.key}
    for _lvl in range(2):
        for g in list(scope):
            for c in ast.walk(g.node):
                if isinstance(c, ast.Call):
                    r = P.resolve_expr(g.module, c.func, g)
                    if isinstance(r, FuncInfo) and r.module is fd.module and r.key not in seen and r.cls is None:
                        seen.add(r.key)
                        scope.append(r)

    def reader_of(g, e):
        """(FuncInfo | "opaque" | None): the reader a table value / called expression stands for"""
        if isinstance(e, ast.Call) and (dotted(e.func) or [None])[-1] == "partial" and e.args:
            return reader_of(g, e.args[0])
        if isinstance(e, ast.Lambda) and isinstance(e.body, ast.Call):
            return reader_of(g, e.body.func)
        r = P.resolve_expr(g.module, e, g) if isinstance(e, (ast.Name, ast.Attribute)) else None
        if isinstance(r, FuncInfo) and r.module.relpath.startswith("uxarray/io/"):
            return r
        return None
    unpacks = any(isinstance(s, ast.Assign) and isinstance(s.targets[0], ast.Tuple) and len(s.targets[0].elts) == 2 and isinstance(s.value, ast.Call) for s in iter_stmts(fd.node.body))
    for g in scope:
        for st in iter_stmts(g.node.body):
            if isinstance(st, ast.If) and isinstance(st.test, ast.Compare) and len(st.test.ops) == 1 and isinstance(st.test.ops[0], ast.Eq):
                lit = str_const(st.test.comparators[0]) or str_const(st.test.left)
                other = st.test.left if str_const(st.test.comparators[0]) else st.test.comparators[0]
                if lit is None or not isinstance(other, ast.Name) or lit in handled:
                    continue
                if lit not in produced and lit not in FORMAT_READER:
                    continue
                raises = any(isinstance(s, ast.Raise) for s in st.body)
                tgt = None
                unpack2 = False
                for s in st.body:
                    if isinstance(s, (ast.Assign, ast.Return)) and isinstance(s.value, ast.Call):
                        r = reader_of(g, s.value.func)
                        if isinstance(r, FuncInfo):
                            tgt = r
                            unpack2 = (isinstance(s.targets[0], ast.Tuple) and len(s.targets[0].elts) == 2) if isinstance(s, ast.Assign) else (g is not fd and unpacks)
                handled[lit] = (tgt, unpack2, raises, st, g)
        # a table  {"<format>": reader | partial(reader, ...) | lambda ds: reader(ds, ...)}  looked up with the sniffed format
        for d in ast.walk(g.node):
            if isinstance(d, ast.Dict) and d.keys and all(k is not None and str_const(k) is not None for k in d.keys):
                vals = [reader_of(g, v) for v in d.values]
                if sum(isinstance(v, FuncInfo) for v in vals) < 2:
                    continue
                for k, v, ve in zip(d.keys, vals, d.values):
                    if str_const(k) in handled:
                        continue
                    handled[str_const(k)] = (v if v is not None else "opaque", unpacks, False, ve, g)
    for lit in sorted(produced | set(FORMAT_READER)):
        c = f"dispatch[{lit}]"
        if lit not in produced:
            run.violation("F-TABLE/dispatch", c, where(sn), f'the format sniffer never yields "{lit}", a supported format: such files are not recognised')
            continue
        if lit not in handled:
            if not handled:
                run.incomplete("F-TABLE/dispatch", c, where(fd), "Grid.from_dataset neither branches on the sniffed format nor looks it up in a table of readers: dispatch idiom not recognised")
            else:
                run.violation("F-TABLE/dispatch", c, where(fd), f'_parse_grid_type can return "{lit}" but Grid.from_dataset has neither a branch nor a table entry for it (falls into "Unsupported Grid Format")')
            continue
        tgt, unpack2, raises, st, g = handled[lit]
        want = FORMAT_READER.get(lit)
        if want is None:
            run.note("F-TABLE/dispatch", c, where(g, st), f'"{lit}" is produced and handled but is not in the frozen format table')
            continue
        if tgt == "opaque":
            run.incomplete("F-TABLE/dispatch", c, where(g, st), f'the entry for "{lit}" in the reader table is an expression this rule does not resolve to a reader: {norm(st)[:80]}')
        elif tgt is None:
            run.violation("F-TABLE/dispatch", c, where(g, st), f'branch for "{lit}" does not call a reader')
        elif not tgt.module.relpath.endswith(f"io/{want[0]}.py") or tgt.name != want[1]:
            run.violation("F-TABLE/dispatch", c, where(g, st), f'branch for "{lit}" calls {tgt.key}; the reader of that format is {want[0]}.{want[1]}')
        elif not unpack2:
            run.violation("F-TABLE/dispatch", c, where(g, st), f"result of {tgt.name} is not unpacked into (grid_ds, source_dims_dict)")
        else:
            run.holds("F-TABLE/dispatch", c, where(g, st), f'"{lit}" -> {tgt.key}')
    # sniffer tests: each literal is decided by a key of its own format (frozen)
    SNIFF = {"Exodus": {"coord", "coordx"}, "Scrip": {"grid_center_lon"}, "MPAS": {"verticesOnCell"}, "ESMF": {"maxNodePElement"}, "GEOS-CS": {"nf", "YCdim", "XCdim"}, "ICON": {"vertex_of_cell"}}

    def walk(stmts):
        for st in stmts:
            if isinstance(st, ast.If):
                lits = {str_const(s.value) for s in st.body if isinstance(s, ast.Assign) and str_const(s.value)}
                keys = {n.value for n in ast.walk(st.test) if isinstance(n, ast.Constant) and isinstance(n.value, str)}
                for lit in lits:
                    if lit in SNIFF:
                        c = f"sniff[{lit}]"
                        if keys and keys <= SNIFF[lit]:
                            run.holds("F-TABLE/sniffer", c, where(sn, st), f'"{lit}" recognised by {sorted(keys)}')
                        else:
                            run.violation("F-TABLE/sniffer", c, where(sn, st), f'"{lit}" is recognised by {sorted(keys)}; the format is identified by {sorted(SNIFF[lit])}')
                walk(st.orelse)
    walk(sn.node.body)
    # the writers' output must be sniffed as the format that reads it back (C07 shares this): checked there.


# ------------------------------------------------------------------------------------------------ connectivity typestate
CONN_ENTRIES = [
    (f"{IO}_icon.py:_primal_to_ugrid", ["in_ds", "out_ds"], {}),
    (f"{IO}_esmf.py:_read_esmf", ["in_ds"], {}),
    (f"{IO}_exodus.py:_read_exodus", ["ext_ds"], {}),
    (f"{IO}_scrip.py:_to_ugrid", ["in_ds", "out_ds"], {}),
    (f"{IO}_geos.py:_read_geos_cs", ["in_ds"], {}),
    (f"{IO}_ugrid.py:_standardize_connectivity", ["ds"], {"conn_name": C.Scal("name", "*")}),
]


def _emit_sinks(run, I, f, n_found, only=None):
    by_key = {}
    for (g, node, key, v, facts) in I.sinks:
        by_key.setdefault((g.key, key), []).append((node, v, facts))
    for (gk, key), lst in sorted(by_key.items()):
        if only is not None and not (key in only or key.startswith("<")):
            continue
        c = f"{gk}:sink[{key}]"
        bad = []
        unknown = []
        for node, v, facts in lst:
            ok, probs = C.verdict(I, v)
            if ok is None:
                unknown.append((node, v))
            elif not ok:
                bad.append((node, v, probs))
        g = run.program.func(gk)
        if bad:
            node, v, probs = bad[0]
            run.violation("F-CONN/standard-form", c, where(g, node),
                          f"{key} can reach the Grid in non-standard form on {len(bad)} of {len(lst)} path(s): " + "; ".join(probs),
                          facts=C.describe(v))
        elif unknown:
            run.incomplete("F-CONN/standard-form", c, where(g, unknown[0][0]), f"value stored under {key} not understood by the typestate interpreter on {len(unknown)} path(s)")
        else:
            run.holds("F-CONN/standard-form", c, where(g, lst[0][0]), f"INT_DTYPE, INT_FILL_VALUE, zero-based, padding replaced on all {len(lst)} path(s)", facts=C.describe(lst[0][1]))
        n_found[0] += 1


def _conn(run, P, only=None):
    n = [0]
    try:
        m = P.module("uxarray.io._mpas")
        for f in m.all_funcs:
            if f.name.startswith("_parse_") and m.defs.get(f.name) is f and "in_ds" in f.params():
                I = C.analyse_reader(P, f, ["in_ds", "out_ds"])
                if I.sinks:
                    _emit_sinks(run, I, f, n, only)
        for key, ds, extra in CONN_ENTRIES:
            f = P.func(key)
            I = C.analyse_reader(P, f, ds, extra)
            if not I.sinks and only is None:
                run.incomplete("F-CONN/standard-form", f"{key}:sinks", where(f), "no connectivity sink found in this reader")
            _emit_sinks(run, I, f, n, only)
            if key.endswith(":_standardize_connectivity") and only is None:
                # the standardiser's contract: on EVERY return the variable has been rewritten in standard form.  A path that returns without passing the store keeps
                # the source's representation - whatever that path established about dtype and fill value, nothing on it touches the index base.
                c = f"{key}:every-return-stores"
                bare = [s_ for s_ in getattr(I, "exits", []) if s_.hit == 0]
                if not bare:
                    run.holds("F-CONN/standard-form", c, where(f), f"all {len(getattr(I, 'exits', []))} returning paths pass the store of the standardised array")
                elif any("start_index" in t for s_ in bare for t, _v in s_.conds):
                    run.incomplete("F-CONN/standard-form", c, where(f), f"a path returns without storing; it is conditioned on start_index ({[t for t, _v in bare[0].conds][:3]}): not decided")
                else:
                    conds = [f"{t} is {v}" for t, v in bare[0].conds][:4]
                    run.violation("F-CONN/standard-form", c, where(f), f"{len(bare)} path(s) return without storing a standardised array (taken when {conds}): the source's index base (start_index, or the inferred "
                                  "smallest index) is never removed on them, so a one-based file whose dtype and fill value already match comes out one-based")
    except C.Incomplete as e:
        run.incomplete("F-CONN/standard-form", "typestate", "-", str(e))
    if only is not None:
        return
    # from_topology: summary of _process_connectivity for a caller-supplied array, fill value and start index ...
    f = P.func(f"{IO}_topology.py:_process_connectivity")
    I = C.ConnInterp(P, f.module.relpath)
    params = f.params()
    src = C.Arr(dtype="src", sent=("decl", "param"), base=("decl", "param", None), srcs=frozenset({"param"}), why=("caller's array: any dtype, declared fill value, declared start index",))
    st0 = C.State({params[0]: src, params[1]: C.Scal("sentinel_var", "param"), params[2]: C.Scal("param", "start_index")})
    outs = I.block(f.node.body, [st0], f, 0)
    rets = [s.ret for s in outs if s.ret is not None]
    c = f"{f.key}:return"
    bad = [(r, C.verdict(I, r)[1]) for r in rets if C.verdict(I, r)[0] is False]
    unk = [r for r in rets if C.verdict(I, r)[0] is None]
    if bad:
        run.violation("F-CONN/standard-form", c, where(f), f"_process_connectivity returns a non-standard array on {len(bad)} of {len(rets)} path(s): " + "; ".join(bad[0][1]), facts=C.describe(bad[0][0]))
    elif unk or not rets:
        run.incomplete("F-CONN/standard-form", c, where(f), "return value not understood")
    else:
        run.holds("F-CONN/standard-form", c, where(f), f"standard form on all {len(rets)} return paths", facts=C.describe(rets[0]))
    n[0] += 1
    # ... and every connectivity stored by _read_topology goes through it
    rt = P.func(f"{IO}_topology.py:_read_topology")
    for st in iter_stmts(rt.node.body):
        if isinstance(st, ast.Assign) and isinstance(st.targets[0], ast.Subscript) and isinstance(st.value, ast.Call) and (dotted(st.value.func) or [""])[-1] == "DataArray":
            tkey = norm(st.targets[0].slice)
            if tkey != "conn":
                continue
            data = next((k.value for k in st.value.keywords if k.arg == "data"), st.value.args[0] if st.value.args else None)
            c = f"{rt.key}:sink[<conn>]"
            through = isinstance(data, ast.Call) and (dotted(data.func) or [""])[-1] == "_process_connectivity"
            passes = through and [norm(a) for a in data.args[1:3]] == ["fill_value", "start_index"]
            if passes:
                run.holds("F-CONN/standard-form", c, where(rt, st), "every supplied connectivity is stored as _process_connectivity(array, fill_value, start_index)")
            else:
                run.violation("F-CONN/standard-form", c, where(rt, st), f"supplied connectivity stored as {norm(data)[:80]}: not standardised with the caller's fill_value/start_index")
            n[0] += 1
    # constructed tables (unique-inverse based): final cast only
    for key, var in ((f"{IO}_vertices.py:_read_face_vertices", "face_node_connectivity"), (f"{IO}_geopandas.py:_extract_geometry_info", None)):
        f = P.func(key)
        c = f"{key}:constructed-dtype"
        casts = [n_ for n_ in ast.walk(f.node) if isinstance(n_, ast.Call) and ((isinstance(n_.func, ast.Attribute) and n_.func.attr == "astype") or (dotted(n_.func) or [""])[-1] in ("full", "array", "zeros", "ones", "empty"))
                 and any(isinstance(a, ast.Name) and a.id == "INT_DTYPE" for a in list(n_.args) + [k.value for k in n_.keywords])]
        if casts:
            run.holds("F-CONN/constructed-dtype", c, where(f, casts[0]), "constructed connectivity is created/cast with INT_DTYPE")
        else:
            run.violation("F-CONN/constructed-dtype", c, where(f), "constructed connectivity is never given INT_DTYPE")
        n[0] += 1
    run.floor("F-CONN/standard-form", n[0], 20)
    # helper semantics the summaries rely on
    _helper_obligations(run, P)


def _helper_obligations(run, P):
    """_replace_fill_values: the mask is (array == original_fill) or isnan(array) on the ORIGINAL array, the array is converted with new_dtype, new_fill is written
    through that mask and the array is returned.  The mask may be computed inline or by a same-module helper (parameters substituted).  A definite counter-fact
    (mask compares something else, other value stored, no NaN arm, new_dtype never used to produce the array) is a violation; an unrecognised idiom is incomplete."""
    f = P.func("uxarray/grid/connectivity.py:_replace_fill_values")
    params = f.params()
    c = f"{f.key}:semantics"
    arr, ofill, nfill, ndt = params[:4]

    def classify(expr, env, depth=0):
        """-> set of {'eq','nan','bad:<why>','unknown:<what>'} for a mask-valued expression; env maps helper parameter names to caller expressions (normalised)"""
        sub = lambda e: env.get(norm(e), norm(e))
        if isinstance(expr, ast.Compare) and len(expr.ops) == 1:
            l, r = sub(expr.left), sub(expr.comparators[0])
            if isinstance(expr.ops[0], ast.Eq):
                return {"eq"} if {l, r} == {arr, ofill} else {f"bad:mask compares {l} == {r}"}
            return {f"bad:mask uses {type(expr.ops[0]).__name__} on {l}, {r}"}
        if isinstance(expr, ast.Call):
            d = dotted(expr.func) or [""]
            if d[-1] == "isnan" and expr.args:
                a0 = sub(expr.args[0])
                return {"nan"} if a0 == arr else {f"bad:isnan of {a0}"}
            if d[-1] in ("logical_or", "bitwise_or") and len(expr.args) == 2:
                return classify(expr.args[0], env, depth) | classify(expr.args[1], env, depth)
            if len(d) == 1 and depth < 2:
                h = P.try_func(f"uxarray/grid/connectivity.py:{d[0]}")
                if h is not None:
                    hp = h.params()
                    henv = {hp[i]: sub(a) for i, a in enumerate(expr.args) if i < len(hp)}
                    henv.update({k.arg: sub(k.value) for k in expr.keywords if k.arg})
                    out = set()
                    local = {}
                    for st in iter_stmts(h.node.body):
                        if isinstance(st, ast.Assign) and isinstance(st.targets[0], ast.Name):
                            local.setdefault(st.targets[0].id, []).append(st.value)
                    rets = [st.value for st in iter_stmts(h.node.body) if isinstance(st, ast.Return) and st.value is not None]
                    if not rets:
                        return {f"unknown:{d[0]} returns nothing"}
                    for r in rets:
                        if isinstance(r, ast.Name) and r.id in local:
                            for v in local[r.id]:
                                out |= classify(v, henv, depth + 1)
                        else:
                            out |= classify(r, henv, depth + 1)
                    return out
            return {f"unknown:{norm(expr)[:60]}"}
        if isinstance(expr, ast.BinOp) and isinstance(expr.op, ast.BitOr):
            return classify(expr.left, env, depth) | classify(expr.right, env, depth)
        if isinstance(expr, ast.IfExp):
            return classify(expr.body, env, depth) | classify(expr.orelse, env, depth)
        return {f"unknown:{norm(expr)[:60]}"}

    defs = {}
    for st in iter_stmts(f.node.body):
        if isinstance(st, ast.Assign) and isinstance(st.targets[0], ast.Name):
            defs.setdefault(st.targets[0].id, []).append(st.value)
    stores = [st for st in iter_stmts(f.node.body) if isinstance(st, ast.Assign) and isinstance(st.targets[0], ast.Subscript) and norm(st.targets[0].value) == arr]
    bad, unknown = [], []
    kinds = set()
    if not stores:
        unknown.append(f"no store {arr}[mask] = {nfill} found")
    for st in stores:
        if norm(st.value) != nfill:
            bad.append(f"{norm(st)[:70]} stores something other than {nfill}")
        idx = st.targets[0].slice
        vals = defs.get(idx.id, []) if isinstance(idx, ast.Name) else [idx]
        if not vals:
            unknown.append(f"mask {norm(idx)} has no local definition")
        for v in vals:
            kinds |= classify(v, {})
    bad += sorted(k[4:] for k in kinds if k.startswith("bad:"))
    unknown += sorted(k[8:] for k in kinds if k.startswith("unknown:"))
    if stores and not unknown and not bad:
        if "eq" not in kinds:
            bad.append(f"mask never compares {arr} == {ofill}")
        if "nan" not in kinds:
            bad.append(f"mask has no isnan({arr}) arm: a NaN fill value would never be matched")
    # conversion: some assignment to the array uses new_dtype
    conv = [v for v in defs.get(arr, []) if any(isinstance(n_, ast.Name) and n_.id == ndt for n_ in ast.walk(v))]
    if not conv:
        bad.append(f"{arr} is never converted using {ndt}")
    elif not any(isinstance(v, ast.Call) and isinstance(v.func, ast.Attribute) and v.func.attr == "astype" and v.args and norm(v.args[0]) == ndt and norm(v.func.value) == arr for v in conv) \
            and not any(isinstance(v, ast.Call) and (dotted(v.func) or [""])[-1] in ("asarray", "array") and any(k.arg == "dtype" and norm(k.value) == ndt for k in v.keywords) for v in conv):
        unknown.append(f"conversion {norm(conv[0])[:60]} not recognised")
    rets = [st for st in iter_stmts(f.node.body) if isinstance(st, ast.Return)]
    if not any(st.value is not None and norm(st.value) == arr for st in rets):
        (bad if all(st.value is None or isinstance(st.value, (ast.Name, ast.Constant)) for st in rets) else unknown).append(f"{arr} is not what is returned")
    if bad:
        run.violation("F-CONN/helper", c, where(f), "_replace_fill_values no longer has the semantics the reader summaries rely on: " + "; ".join(bad))
    elif unknown:
        run.incomplete("F-CONN/helper", c, where(f), "idiom not recognised: " + "; ".join(unknown))
    else:
        run.holds("F-CONN/helper", c, where(f), "mask = (array == original_fill | isnan(array)), converted with new_dtype, array[mask] = new_fill, array returned")


# ------------------------------------------------------------------------------------------------ roles
def _roles(run, P):
    n = 0
    consts = {"ugrid.NODE_COORDINATES[0]": "node_lon", "ugrid.NODE_COORDINATES[1]": "node_lat", "ugrid.FACE_COORDINATES[0]": "face_lon", "ugrid.FACE_COORDINATES[1]": "face_lat",
              "ugrid.EDGE_COORDINATES[0]": "edge_lon", "ugrid.EDGE_COORDINATES[1]": "edge_lat"}
    for key, table in ROLE_TABLES.items():
        f = P.func(key)
        dsn = {p for p in f.params() if p in ("in_ds", "ext_ds", "ds")}
        got = role_table_of(f, dsn)
        got = {consts.get(k, k): v for k, v in got.items()}
        for target, want in sorted(table.items()):
            c = f"{key}:role[{target}]"
            if target not in got:
                run.incomplete("F-TABLE/reader-roles", c, where(f), f"no store of {target} found")
                continue
            n += 1
            for srcs, st, opaque in got[target]:
                vocab = set().union(*table.values())
                base = lambda s: s.split("#")[0]
                rel = {s for s in srcs if s in vocab or base(s) in {base(v) for v in vocab}}
                # Exodus: either storage form (coord[i] or coordx/y/z) is acceptable per store
                if key.endswith("_read_exodus"):
                    ok = len(rel) == 1 and rel <= want
                else:
                    may = ROLE_MAY.get(key, {}).get(target, set())
                    ok = want <= rel <= (want | may)
                if ok:
                    run.holds("F-TABLE/reader-roles", c, where(f, st), f"{target} <- {sorted(rel)}")
                elif opaque:
                    run.incomplete("F-TABLE/reader-roles", c, where(f, st), f"{target} is built from {sorted(rel)} plus whatever a helper that receives the whole dataset reads; the format assigns {sorted(want)}")
                else:
                    run.violation("F-TABLE/reader-roles", c, where(f, st), f"{target} is built from {sorted(rel)}; the format assigns {sorted(want)}")
    run.floor("F-TABLE/reader-roles", n, 25)
    # SCRIP: node coordinates come from the corner arrays in (lon, lat) column order and the unique-inverse is reshaped to (grid_size, grid_corners)
    f = P.func(f"{IO}_scrip.py:_to_ugrid")
    defs = LocalDefs(f.node)
    for target, colname, want in (("node_lon", 0, "grid_corner_lon"), ("node_lat", 1, "grid_corner_lat")):
        got = role_table_of(f, {"in_ds"})
        key = {"node_lon": "ugrid.NODE_COORDINATES[0]", "node_lat": "ugrid.NODE_COORDINATES[1]"}[target]
        c = f"{f.key}:role[{target}]"
        ent = got.get(key) or got.get(target)
        if not ent:
            run.incomplete("F-TABLE/reader-roles", c, where(f), f"no store of {target}")
            continue
        srcs, st, opaque = ent[0]
        if opaque:
            run.incomplete("F-TABLE/reader-roles", c, where(f, st), f"{target} comes out of a helper that receives the whole dataset: which corner column it carries is not followed")
            continue
        # column taken from the stacked (lon, lat) table
        val = st.value
        nodes, _ = defs.closure(val)
        cols = {n_.slice.elts[1].value for e in nodes for n_ in ast.walk(e) if isinstance(n_, ast.Subscript) and isinstance(n_.slice, ast.Tuple) and len(n_.slice.elts) == 2 and isinstance(n_.slice.elts[1], ast.Constant)}
        stack = [n_ for e in nodes for n_ in ast.walk(e) if isinstance(n_, ast.Call) and (dotted(n_.func) or [""])[-1] in ("vstack", "column_stack", "stack") and n_.args and isinstance(n_.args[0], (ast.Tuple, ast.List))]
        order = [norm(x) for x in stack[0].args[0].elts] if stack else []
        first_src = None
        if order:
            nn, _ = defs.closure(stack[0].args[0].elts[colname])
            first_src = {k for e in nn for k, _n in _source_refs(e, {"in_ds"})}
        if cols == {colname} and first_src == {want}:
            run.holds("F-TABLE/reader-roles", c, where(f, st), f"{target} <- column {colname} of the (lon, lat) corner table <- {want}")
        else:
            run.violation("F-TABLE/reader-roles", c, where(f, st), f"{target} takes column {sorted(cols)} of the stacked corner table whose column {colname} comes from {first_src}; expected column {colname} <- {want}")


def _units(run, P):
    R = dataflow(P, run.tier)
    rules = {"UNIT/store", "ROLE/store", "ROLE/unpack", "UNIT/double-conversion", "RANGE/store-lon"}
    files = [f"{IO}_mpas.py", f"{IO}_icon.py", f"{IO}_esmf.py", f"{IO}_scrip.py", f"{IO}_exodus.py", f"{IO}_geos.py", f"{IO}_geopandas.py", f"{IO}_vertices.py", f"{IO}_topology.py", f"{IO}_ugrid.py"]
    ok, bad = emit(run, R, rules, files=files)
    run.floor("F-UNIT@readers", ok + bad, 10)
    # radian sources are converted exactly once before the store (syntactic cross-check of the interpreter's verdict)
    n = 0
    for key in [f"{IO}_icon.py:_primal_to_ugrid"] + [f.key for f in P.module("uxarray.io._mpas").all_funcs if f.name.startswith("_parse_") and "latlon" in f.name]:
        f = P.func(key)
        dsn = {p for p in f.params() if p in ("in_ds",)}
        defs = LocalDefs(f.node)
        for st in iter_stmts(f.node.body):
            if isinstance(st, ast.Assign) and isinstance(st.targets[0], ast.Subscript) and (str_const(st.targets[0].slice) or "").endswith(("_lon", "_lat")):
                nodes, _ = defs.closure(st.value)
                srcs = {k for e in nodes for k, _n in _source_refs(e, dsn)}
                rad = srcs & RADIAN_SOURCES
                if not rad:
                    continue
                n += 1
                conv = [c_ for e in nodes for c_ in ast.walk(e) if isinstance(c_, ast.Call) and (dotted(c_.func) or [""])[-1] in ("rad2deg", "degrees")]
                c = f"{f.key}:rad2deg[{str_const(st.targets[0].slice)}]"
                if len(conv) >= 1:
                    run.holds("F-UNIT/radian-source", c, where(f, st), f"{sorted(rad)} (radians) converted with rad2deg before the store")
                else:
                    run.violation("F-UNIT/radian-source", c, where(f, st), f"{sorted(rad)} is in radians by the format specification and is stored under a degree-valued variable without np.rad2deg")
    run.floor("F-UNIT/radian-source", n, 10)


# ------------------------------------------------------------------------------------------------ Exodus blocks
def _exodus_blocks(run, P):
    f = P.func(f"{IO}_exodus.py:_read_exodus")
    loop = None
    for st in iter_stmts(f.node.body):
        if isinstance(st, ast.For) and any(isinstance(n, ast.Constant) and n.value == "connect" for n in ast.walk(st)):
            loop = st
    c0 = f"{f.key}:blocks"
    if loop is None:
        run.incomplete("F-PATH/exodus-blocks", c0, where(f), "loop over the connect blocks not found")
        return
    # (1) file order: iteration over the dataset's own variable mapping (netCDF definition order = connect1..N)
    it = loop.iter
    c = f"{f.key}:block-order"
    txt = norm(it)
    if isinstance(it, ast.Call) and isinstance(it.func, ast.Name) and it.func.id == "sorted":
        has_key = any(k.arg == "key" for k in it.keywords)
        if has_key:
            run.incomplete("F-PATH/exodus-blocks", c, where(f, loop), f"blocks visited in a custom sort order ({txt}): not decidable here")
        else:
            run.violation("F-PATH/exodus-blocks", c, where(f, loop), f"blocks are visited in lexicographic name order ({txt}): connect10 precedes connect2, so files with ten or more element blocks get their faces reordered")
    elif isinstance(it, ast.Call) and isinstance(it.func, ast.Attribute) and it.func.attr in ("items", "keys", "values") or isinstance(it, (ast.Attribute, ast.Name)):
        run.holds("F-PATH/exodus-blocks", c, where(f, loop), f"blocks visited in the file's own variable order ({txt})")
    else:
        run.incomplete("F-PATH/exodus-blocks", c, where(f, loop), f"iteration order of {txt} not recognised")
    # (2) accumulation: the value assigned to the accumulator inside the connect branch depends on its previous value
    acc = None
    for st in iter_stmts(loop.body):
        if isinstance(st, ast.Assign) and isinstance(st.targets[0], ast.Name):
            nm = st.targets[0].id
            uses_prev = any(isinstance(n, ast.Name) and n.id == nm for n in ast.walk(st.value))
            stacks = any(isinstance(n, ast.Call) and (dotted(n.func) or [""])[-1] in ("vstack", "concatenate", "append", "row_stack") for n in ast.walk(st.value))
            if stacks:
                acc = (nm, st, uses_prev)
    c = f"{f.key}:block-accumulation"
    if acc is None:
        run.violation("F-PATH/exodus-blocks", c, where(f, loop), "no statement stacks a connect block onto the blocks read so far: only one block can reach face_node_connectivity")
    elif not acc[2]:
        run.violation("F-PATH/exodus-blocks", c, where(f, acc[1]), f"{norm(acc[1])[:80]} does not include the previously read blocks")
    else:
        # the accumulator must be what reaches the sink
        defs = LocalDefs(f.node)
        sink = [st for st in iter_stmts(f.node.body) if isinstance(st, ast.Assign) and isinstance(st.targets[0], ast.Subscript) and str_const(st.targets[0].slice) == "face_node_connectivity"]
        reach = False
        if sink:
            nodes, names = defs.closure(sink[0].value)
            reach = acc[0] in names
        if reach:
            run.holds("F-PATH/exodus-blocks", c, where(f, acc[1]), f"{acc[0]} accumulates every block and reaches face_node_connectivity")
        else:
            run.violation("F-PATH/exodus-blocks", c, where(f, acc[1]), f"the accumulated blocks ({acc[0]}) do not reach the face_node_connectivity store")
    # (3) narrower blocks are padded at the END of each row (columns [0:k) receive the block)
    pad_ok = False
    for st in iter_stmts(loop.body):
        if isinstance(st, ast.Assign) and isinstance(st.targets[0], ast.Subscript) and isinstance(st.targets[0].slice, ast.Tuple) and len(st.targets[0].slice.elts) == 2:
            col = st.targets[0].slice.elts[1]
            if isinstance(col, ast.Slice) and (col.lower is None or (isinstance(col.lower, ast.Constant) and col.lower.value == 0)) and col.upper is not None:
                pad_ok = True
    c = f"{f.key}:block-padding-at-end"
    if pad_ok:
        run.holds("F-PATH/exodus-blocks", c, where(f, loop), "a narrower block fills columns [0:k) of the padded rows")
    else:
        run.incomplete("F-PATH/exodus-blocks", c, where(f, loop), "placement of a narrower block inside the padded rows not recognised")


# ------------------------------------------------------------------------------------------------ constructors
def _construct_paths(run, P):
    init = P.func(f"{GRID}:Grid.__init__")
    paths = enumerate_paths(init.node.body)
    bad = 0
    for p in paths:
        if p.exit == "raise":
            continue
        if not any(isinstance(c, ast.Call) and (dotted(c.func) or [""])[-1] == "_set_desired_longitude_range" for e in p.events for c in ast.walk(e)):
            bad += 1
    c = "Grid.__init__:must-pass:_set_desired_longitude_range"
    if bad:
        run.violation("F-PATH/lon-normalised-at-construction", c, where(init), f"{bad} non-raising path(s) through Grid.__init__ skip the longitude normalisation")
    else:
        run.holds("F-PATH/lon-normalised-at-construction", c, where(init), f"all {len(paths)} paths normalise longitudes to [-180, 180]")
    # every classmethod constructor ends in cls(...) / a call of another constructor
    n = 0
    for name in ("from_dataset", "from_topology", "from_face_vertices", "from_file"):
        f = P.try_func(f"{GRID}:Grid.{name}")
        if f is None:
            run.incomplete("F-PATH/constructors", f"Grid.{name}", "-", "constructor not found")
            continue
        n += 1
        rets = [r for r in ast.walk(f.node) if isinstance(r, ast.Return)]
        bad = [r for r in rets if not (isinstance(r.value, ast.Call) and (norm(r.value.func) == "cls" or norm(r.value.func).startswith("cls.")))]
        c = f"Grid.{name}:returns-cls"
        if rets and not bad:
            run.holds("F-PATH/constructors", c, where(f), f"all {len(rets)} return(s) construct the Grid through cls(...)")
        else:
            run.violation("F-PATH/constructors", c, where(f, bad[0]) if bad else where(f), "a return path does not construct the Grid through cls(...): Grid.__init__'s normalisation is bypassed")


def _readers_normalise(run, P):
    """A reader converts the FILE's Cartesian coordinates; nothing makes them unit length (Exodus meshes come on spheres of any radius).  Every call of
    _xyz_to_lonlat_deg/_rad in uxarray/io therefore leaves `normalize` at its default (True): with normalize=False the latitude is arcsin(z) of the raw z."""
    n = 0
    for f in P.all_functions():
        if not f.module.relpath.startswith(IO):
            continue
        for call in ast.walk(f.node):
            if not (isinstance(call, ast.Call) and (dotted(call.func) or [""])[-1] in ("_xyz_to_lonlat_deg", "_xyz_to_lonlat_rad")):
                continue
            n += 1
            c = f"{f.key}:call({(dotted(call.func) or [''])[-1]}):normalize"
            kwv = next((k.value for k in call.keywords if k.arg == "normalize"), call.args[3] if len(call.args) > 3 else None)
            if kwv is None or (isinstance(kwv, ast.Constant) and kwv.value is True):
                run.holds("F-UNIT/reader-normalises", c, where(f, call), "file coordinates are normalised by their length before arcsin/arctan2")
            elif isinstance(kwv, ast.Constant) and kwv.value is False:
                run.violation("F-UNIT/reader-normalises", c, where(f, call), "the file's Cartesian coordinates are converted with normalize=False: for a mesh on a sphere of radius != 1 the latitude is arcsin of the raw z")
            else:
                run.incomplete("F-UNIT/reader-normalises", c, where(f, call), f"normalize={norm(kwv)[:60]} is decided at run time: whether exactly the unit-length inputs skip the normalisation is not decided here")
    run.floor("F-UNIT/reader-normalises", n, 1)


def _polygon_rings(run, P):
    """A polygon of a GeoJSON/shapefile source describes ONE face: its exterior ring.  The reader therefore takes vertices from `<polygon>.exterior.coords` only; an
    extraction that returns the vertices of all rings (shapely.get_coordinates / .get_coordinates() on polygons, `.interiors`, `.boundary`) turns a polygon with a hole
    into a face with the hole's vertices appended."""
    n_ext = 0
    bad = []
    for f in P.all_functions():
        if f.module.relpath != f"{IO}_geopandas.py":
            continue
        for n in ast.walk(f.node):
            if isinstance(n, ast.Attribute) and n.attr == "coords" and isinstance(n.value, ast.Attribute) and n.value.attr == "exterior":
                n_ext += 1
            elif isinstance(n, ast.Attribute) and n.attr in ("interiors", "boundary"):
                bad.append((f, n, f"`{norm(n)[:50]}`"))
            elif isinstance(n, ast.Call) and (n.func.attr if isinstance(n.func, ast.Attribute) else getattr(n.func, "id", "")) in ("get_coordinates", "get_rings", "get_parts") and (n.func.attr if isinstance(n.func, ast.Attribute) else n.func.id) != "get_parts":
                # applied to an exterior ring it is fine
                arg = n.args[0] if n.args else (n.func.value if isinstance(n.func, ast.Attribute) else None)
                if not (arg is not None and "exterior" in norm(arg)):
                    bad.append((f, n, f"`{norm(n)[:60]}` (vertices of ALL rings of its argument)"))
    c = f"{IO}_geopandas.py:vertices-from-exterior-ring"
    for f, n, what in bad:
        run.violation("F-SRC/polygon-exterior", f"{f.key}:{norm(n)[:40]}", where(f, n), f"polygon vertices are taken through {what}: a polygon with an interior ring is decoded as a face that also lists the hole's vertices")
    if not bad:
        if n_ext >= 1:
            run.holds("F-SRC/polygon-exterior", c, "-", f"{n_ext} reads of <polygon>.exterior.coords; no extraction that returns all rings")
        else:
            run.incomplete("F-SRC/polygon-exterior", c, "-", "no read of <polygon>.exterior.coords found in the GeoDataFrame reader: how polygon vertices are extracted is not recognised")


def _open_grid_kwargs(run, P):
    """open_grid hands the caller's keyword arguments to xarray.open_dataset as they are: the readers rely on xarray's own defaults (CF decoding: scale_factor/add_offset,
    masking, decode_times).  A default injected there (`kwargs.setdefault("mask_and_scale", False)`, `decode_cf=False`) changes what every reader receives."""
    f = P.func("uxarray/core/api.py:open_grid")
    c = f"{f.key}:kwargs-unchanged"
    kw = f.node.args.kwarg.arg if f.node.args.kwarg else None
    calls = [x for x in ast.walk(f.node) if isinstance(x, ast.Call) and (dotted(x.func) or [""])[-1] in ("open_dataset", "open_mfdataset") and (dotted(x.func) or [""])[0] in ("xr", "xarray")]
    if kw is None or not calls:
        run.incomplete("F-SIG/open-kwargs", c, where(f), "open_grid has no **kwargs or does not call xarray.open_dataset")
        return
    muts = []
    for x in ast.walk(f.node):
        if isinstance(x, ast.Call) and isinstance(x.func, ast.Attribute) and isinstance(x.func.value, ast.Name) and x.func.value.id == kw and x.func.attr in ("setdefault", "update", "pop", "clear", "__setitem__"):
            muts.append(x)
        if isinstance(x, (ast.Assign, ast.AugAssign)):
            for t in (x.targets if isinstance(x, ast.Assign) else [x.target]):
                if isinstance(t, ast.Subscript) and isinstance(t.value, ast.Name) and t.value.id == kw:
                    muts.append(x)
                if isinstance(t, ast.Name) and t.id == kw:
                    muts.append(x)
    extra = [k for cl in calls for k in cl.keywords if k.arg in ("mask_and_scale", "decode_cf", "decode_times", "decode_coords", "use_cftime", "concat_characters")]
    if muts or extra:
        what = norm(muts[0])[:60] if muts else f"{extra[0].arg}={norm(extra[0].value)}"
        run.violation("F-SIG/open-kwargs", c, where(f, muts[0] if muts else calls[0]), f"open_grid changes the decoding options it passes to xarray ({what}): packed or masked variables of a grid file reach the readers "
                      "as raw stored values")
    elif all(any(k.arg is None and norm(k.value) == kw for k in cl.keywords) for cl in calls):
        run.holds("F-SIG/open-kwargs", c, where(f, calls[0]), "**kwargs handed to xarray unchanged")
    else:
        run.incomplete("F-SIG/open-kwargs", c, where(f, calls[0]), "the caller's keyword arguments are not passed as **kwargs")


def _icon_layout(run, P):
    """ICON stores its connectivity tables entry-major, (n_entries, n_elements); the Grid wants (n_elements, n_entries).  The reader transposes every table exactly once and
    unconditionally: a transposition decided by comparing the two extents misreads a table with at most as many elements as entries (3 cells x 3 vertices is square,
    2 cells are "wider than long")."""
    n = 0
    for f in P.all_functions():
        if f.module.relpath != f"{IO}_icon.py":
            continue
        tr = []

        def walk(stmts, guards):
            for st in stmts:
                if isinstance(st, ast.If):
                    walk(st.body, guards + [st.test])
                    walk(st.orelse, guards + [st.test])
                elif isinstance(st, (ast.For, ast.While, ast.With, ast.Try)):
                    for fld in ("body", "orelse", "finalbody"):
                        walk(getattr(st, fld, []) or [], guards)
                else:
                    for x in ast.walk(st):
                        if (isinstance(x, ast.Attribute) and x.attr == "T") or (isinstance(x, ast.Call) and (dotted(x.func) or [""])[-1] in ("transpose", "swapaxes")):
                            tr.append((st, x, guards))
        walk(f.node.body, [])
        if not tr:
            continue
        for st, x, guards in tr:
            n += 1
            c = f"{f.key}:transposition"
            shape_guard = next((g for g in guards if any(isinstance(y, ast.Attribute) and y.attr in ("shape", "ndim", "size") for y in ast.walk(g))), None)
            if shape_guard is not None:
                run.violation("F-CONN/icon-layout", c, where(f, st), f"the ICON tables are transposed only when `{norm(shape_guard)[:50]}`: the layout is guessed from the extents, so a grid with no more cells than "
                              "entries per cell keeps the file's entry-major layout")
            elif guards:
                run.incomplete("F-CONN/icon-layout", c, where(f, st), f"transposition under `{norm(guards[-1])[:50]}`")
            else:
                run.holds("F-CONN/icon-layout", c, where(f, st), "entry-major file tables transposed unconditionally")
    if n == 0:
        run.incomplete("F-CONN/icon-layout", f"{IO}_icon.py:transposition", f"{IO}_icon.py", "no transposition (.T / transpose / swapaxes) of the ICON connectivity tables found: how the file's (n_entries, n_elements) layout is turned is not recognised")


def _vertices_exact(run, P):
    """Face-vertex input: two corners are the same node iff their coordinates are identical.  np.unique is applied to the vertices as given - a quantised copy
    (np.round / rint / floor / a cast to a coarser type) merges corners that differ, so the Grid reports one node where the source describes two (and two inputs that
    differ in such a coordinate give equal grids)."""
    f = P.func(f"{IO}_vertices.py:_read_face_vertices")
    defs = LocalDefs(f.node)
    c = f"{f.key}:nodes-by-exact-coordinates"
    uniq = [x for x in ast.walk(f.node) if isinstance(x, ast.Call) and (dotted(x.func) or [""])[-1] == "unique" and x.args]
    if not uniq:
        run.incomplete("F-SRC/vertex-identity", c, where(f), "no np.unique over the vertices found: how corners are identified as nodes is not recognised")
        return
    for u in uniq:
        nodes, _ = defs.closure(u.args[0])
        q = next((x for e in nodes for x in ast.walk(e) if isinstance(x, ast.Call) and (dotted(x.func) or [""])[-1] in ("round", "around", "round_", "rint", "floor", "ceil", "trunc", "fix", "digitize")), None)
        if q is not None:
            run.violation("F-SRC/vertex-identity", c, where(f, u), f"corners are identified as nodes after `{norm(q)[:50]}`: vertices that differ by less than the quantisation step become one node with the coordinates of "
                          "only one of them")
        else:
            run.holds("F-SRC/vertex-identity", c, where(f, u), "np.unique over the vertex coordinates as given")

