"""C03  Incidence tables are exact transposes of one another.

Decided: in the three builders (edge->face, node->face, face->face) loop variables and stores are index-space consistent (the row index of a store lives in the row space of the table, the stored value in its value space);
values that may be the fill value are guarded before being used as an index; every neighbour pair is recorded symmetrically and unconditionally (once per shared edge, no de-duplication);
rows are padded at the end with INT_FILL_VALUE only; all outputs are INT_DTYPE; hole_edge_indices tests the second face column against INT_FILL_VALUE; lazy keys agree.
Grid.hole_edge_indices stores nothing but what that test finds in edge_face_connectivity."""

import ast

from ..astutil import LocalDefs, iter_stmts, norm, str_const, where
from ..loader import dotted
from ..rules import lazy
from ..rules import shape as S

CONN = "uxarray/grid/connectivity.py"


def _guards_of(body, target, acc=()):
    for st in body:
        if st is target:
            return list(acc)
        if isinstance(st, ast.If):
            r = _guards_of(st.body, target, acc + ((st.test, True),))
            if r is not None:
                return r
            r = _guards_of(st.orelse, target, acc + ((st.test, False),))
            if r is not None:
                return r
        elif isinstance(st, (ast.For, ast.While, ast.With, ast.Try)):
            for fld in ("body", "orelse", "finalbody"):
                r = _guards_of(getattr(st, fld, []) or [], target, acc)
                if r is not None:
                    return r
    return None


def _ne_fill_names(test):
    """names proven != INT_FILL_VALUE when `test` is true"""
    from ..flow import _split_test
    out = set()
    for t, v in _split_test(test, True):
        ft = S.fill_test(t)
        if ft and ((ft[0] == "ne" and v) or (ft[0] == "eq" and not v)) and isinstance(ft[1], ast.Name):
            out.add(ft[1].id)
    return out


def check(run):
    P = run.program
    run.explanation = (
        "Each builder of grid/connectivity.py is read as a set of loops over a table: the loop variable bound by enumerate() lives in the ROW space of the iterated table, the "
        "inner loop variable in its VALUE space.  Obligations: a store table[i, k] = v needs i in the row space and v in the value space of the table being built (edge_face: rows edge, values face; "
        "node_face: rows node, values face; face_face: rows face, values face); a value-space variable used as an index must be proven != INT_FILL_VALUE (guard, or slice by the per-row count); "
        "neighbour pairs are appended symmetrically and under no other condition than the fill guard (so a face sharing two edges with another lists it twice); padding is (0, n - len) with INT_FILL_VALUE; "
        "dtype INT_DTYPE at every output.  Exact transposition for all manifold meshes (values) is NOT decided."
    )
    run.rule_text = "IDX-1 index spaces, IDX-2 fill guards, F-CONN dtype, F-LAZY"
    run.assumptions = ["face_edge_connectivity rows are faces with edge values; face_node_connectivity rows are faces with node values; edge_face_connectivity rows are edges with face values (schema)"]
    _edge_face(run, P)
    _node_face(run, P)
    _face_face(run, P)
    _holes(run, P)
    _holes_getter(run, P)
    # incidence tables SUPPLIED by a source (MPAS cellsOnVertex/cellsOnEdge/cellsOnCell, ICON, UGRID files) reach the grid in standard form
    # and are built from the source variables of that role: the typestate and role rules of the readers, restricted to the three tables
    from .c01 import _conn
    from ..rules import readers
    INC = {"node_face_connectivity", "edge_face_connectivity", "face_face_connectivity"}
    _conn(run, P, only=INC)
    readers.check_mpas_roles(run, P, targets=INC)
    keys = ["edge_face_connectivity", "node_face_connectivity", "face_face_connectivity"]
    n = lazy.check_getters(run, P, keys)
    run.floor("F-LAZY/getters", n, 3)
    lazy.check_no_overwrite(run, P, keys=set(keys), files=(CONN,))


def _edge_face(run, P):
    f = P.func(f"{CONN}:_build_edge_face_connectivity")
    fn = f.node
    params = f.params()  # face_edges, n_nodes_per_face, n_edge
    c = f"{f.key}:table"
    alloc = None
    for st in iter_stmts(fn.body):
        if isinstance(st, ast.Assign) and isinstance(st.targets[0], ast.Name):
            info = S.alloc_info(st.value)
            if info:
                alloc = (st.targets[0].id, st, info)
                break
    if alloc is None:
        run.incomplete("IDX/edge-face", c, where(f), "allocation of edge_faces not found")
        return
    name, st, (sh, fill, dt) = alloc
    probs = []
    if not (len(sh) == 2 and sh[0] == S.P(params[2]) and sh[1] == {(): 2}):
        probs.append(f"table allocated as {norm(st.value)[:70]}; one row per edge with two face slots is (n_edge, 2)")
    if not S.is_fill(fill):
        probs.append("table not initialised with INT_FILL_VALUE (boundary edges need the fill value in column 1)")
    dt_ok = S.is_intdtype(dt) or (isinstance(dt, ast.Attribute) and dt.attr == "dtype" and norm(dt.value) == params[0])
    if not dt_ok:
        probs.append(f"dtype is {norm(dt) if dt is not None else 'default float'}, not INT_DTYPE")
    if probs:
        run.violation("IDX/edge-face", c, where(f, st), "; ".join(probs))
    else:
        run.holds("IDX/edge-face", c, where(f, st), "(n_edge, 2) table of INT_FILL_VALUE with the connectivity dtype")
    # loops
    outer = next((s for s in iter_stmts(fn.body) if isinstance(s, ast.For)), None)
    c = f"{f.key}:loops"
    if outer is None:
        run.incomplete("IDX/edge-face", c, where(f), "loop over the faces not found")
        return
    face_var = row_var = cnt_var = None
    it = outer.iter
    if isinstance(it, ast.Call) and (dotted(it.func) or [""])[-1] == "enumerate" and isinstance(outer.target, ast.Tuple):
        face_var = outer.target.elts[0].id if isinstance(outer.target.elts[0], ast.Name) else None
        inner_t = outer.target.elts[1]
        z = it.args[0]
        if isinstance(z, ast.Call) and (dotted(z.func) or [""])[-1] == "zip" and isinstance(inner_t, ast.Tuple) and len(inner_t.elts) == 2:
            zargs = [norm(a) for a in z.args]
            if zargs == [params[0], params[1]]:
                row_var, cnt_var = inner_t.elts[0].id, inner_t.elts[1].id
    if not (face_var and row_var and cnt_var):
        run.incomplete("IDX/edge-face", c, where(f, outer), "expected `for face_idx, (row, count) in enumerate(zip(face_edges, n_nodes_per_face))`")
        return
    # the valid edges of the row: row[:count]
    defs = LocalDefs(fn)
    inner = next((s for s in iter_stmts(outer.body) if isinstance(s, ast.For)), None)
    if inner is None or not isinstance(inner.target, ast.Name):
        run.incomplete("IDX/edge-face", c, where(f, outer), "inner loop over the face's edges not found")
        return
    edge_var = inner.target.id
    nodes, _ = defs.closure(inner.iter)
    sliced = any(isinstance(n, ast.Subscript) and norm(n.value) == row_var and isinstance(n.slice, ast.Slice) and n.slice.lower is None and n.slice.upper is not None and norm(n.slice.upper) == cnt_var for e in nodes for n in ast.walk(e))
    guarded_inner = False
    stores = [s for s in iter_stmts(inner.body) if isinstance(s, ast.Assign) and isinstance(s.targets[0], ast.Subscript) and norm(s.targets[0].value) == name]
    for s in stores:
        g = _guards_of(inner.body, s) or []
        if any(t and edge_var in _ne_fill_names(te) for te, t in g):
            guarded_inner = True
    cg = f"{f.key}:fill-guard"
    if sliced or guarded_inner:
        run.holds("IDX/fill-safety", cg, where(f, inner), f"only the first {cnt_var} entries of the row (the face's real edges) are used as edge indices")
    else:
        run.violation("IDX/fill-safety", cg, where(f, inner), f"the face's row of face_edge_connectivity is iterated without the [:{cnt_var}] slice or a != INT_FILL_VALUE guard: padding is used as an edge index")
    # stores: edge_faces[edge_var, k] = face_var, first free slot then second
    cs = f"{f.key}:stores"
    probs = []
    cols = set()
    for s in stores:
        ax = s.targets[0].slice
        elts = ax.elts if isinstance(ax, ast.Tuple) else [ax]
        if len(elts) != 2 or norm(elts[0]) != edge_var:
            probs.append(f"{norm(s.targets[0])}: row index is not the edge index {edge_var}")
            continue
        if norm(s.value) != face_var:
            probs.append(f"{norm(s)}: stored value is not the face index {face_var}")
        if isinstance(elts[1], ast.Constant):
            cols.add(elts[1].value)
    if cols != {0, 1}:
        probs.append(f"face slots written: {sorted(cols)} (both 0 and 1 are needed)")
    # slot 0 is taken when free
    first_test = next((s for s in iter_stmts(inner.body) if isinstance(s, ast.If)), None)
    if first_test is not None:
        ft = S.fill_test(first_test.test)
        ok = ft and ft[0] == "eq" and isinstance(ft[1], ast.Subscript) and norm(ft[1].value) == name
        if not ok:
            probs.append("the free-slot test does not compare the table entry with INT_FILL_VALUE")
    if probs:
        run.violation("IDX/edge-face", cs, where(f, inner), "; ".join(probs))
    else:
        run.holds("IDX/edge-face", cs, where(f, inner), f"{name}[{edge_var}, 0|1] = {face_var}: edge row, face value, first free slot first")
    # call site
    g = P.func(f"{CONN}:_populate_edge_face_connectivity")
    call = [n for n in ast.walk(g.node) if isinstance(n, ast.Call) and (dotted(n.func) or [""])[-1] == "_build_edge_face_connectivity"]
    cc = f"{g.key}:call"
    if call and len(call[0].args) == 3 and "face_edge_connectivity" in norm(call[0].args[0]) and "n_nodes_per_face" in norm(call[0].args[1]) and norm(call[0].args[2]).endswith("n_edge"):
        run.holds("IDX/edge-face", cc, where(g, call[0]), "called with (face_edge_connectivity, n_nodes_per_face, n_edge)")
    else:
        run.violation("IDX/edge-face", cc, where(g), f"builder called with {[norm(a) for a in call[0].args] if call else 'nothing'}")


def _node_face(run, P):
    f = P.func(f"{CONN}:_build_node_faces_connectivity")
    fn = f.node
    params = f.params()  # face_nodes, n_node
    outer = next((s for s in iter_stmts(fn.body) if isinstance(s, ast.For) and isinstance(s.iter, ast.Call) and (dotted(s.iter.func) or [""])[-1] == "enumerate" and norm(s.iter.args[0]) == params[0]), None)
    c = f"{f.key}:gather"
    if outer is None or not isinstance(outer.target, ast.Tuple):
        run.incomplete("IDX/node-face", c, where(f), "loop `for face_i, row in enumerate(face_nodes)` not found")
        return
    face_var = outer.target.elts[0].id
    row_var = outer.target.elts[1].id
    inner = next((s for s in iter_stmts(outer.body) if isinstance(s, ast.For) and norm(s.iter) == row_var), None)
    if inner is None:
        run.incomplete("IDX/node-face", c, where(f, outer), "inner loop over the face's nodes not found")
        return
    node_var = inner.target.id
    app = [n for s in iter_stmts(inner.body) for n in ast.walk(s) if isinstance(n, ast.Call) and isinstance(n.func, ast.Attribute) and n.func.attr == "append"]
    probs = []
    if not app:
        probs.append("no append inside the node loop")
    for a in app:
        recv = a.func.value
        if not (isinstance(recv, ast.Subscript) and norm(recv.slice) == node_var):
            probs.append(f"{norm(a)[:60]}: list selected by something else than the node index {node_var}")
        if norm(a.args[0]) != face_var:
            probs.append(f"{norm(a)[:60]}: appended value is not the face index {face_var}")
        st = [s for s in iter_stmts(inner.body) if any(n is a for n in ast.walk(s))][-1]  # innermost statement
        g = _guards_of(inner.body, st) or []
        if not any(t and node_var in _ne_fill_names(te) for te, t in g):
            run.violation("IDX/fill-safety", f"{f.key}:fill-guard", where(f, a), f"{node_var} is used as a key without a != INT_FILL_VALUE guard: padding slots of short faces are counted as a node")
        else:
            run.holds("IDX/fill-safety", f"{f.key}:fill-guard", where(f, a), f"{node_var} != INT_FILL_VALUE before it is used as a node index")
        extra = [te for te, t in g if not (t and node_var in _ne_fill_names(te) and len(_ne_fill_names(te)) >= 1 and not isinstance(te, ast.BoolOp))]
        if extra:
            probs.append(f"the append is conditioned on {[norm(e)[:50] for e in extra]} besides the fill guard")
    if probs:
        run.violation("IDX/node-face", c, where(f, inner), "; ".join(probs))
    else:
        run.holds("IDX/node-face", c, where(f, inner), f"lists[{node_var}].append({face_var}) for every real corner of every face")
    # output table
    alloc = None
    for st in iter_stmts(fn.body):
        if isinstance(st, ast.Assign) and isinstance(st.targets[0], ast.Name):
            info = S.alloc_info(st.value)
            if info:
                alloc = (st.targets[0].id, st, info)
    c = f"{f.key}:table"
    if alloc is None:
        run.incomplete("IDX/node-face", c, where(f), "allocation of the output table not found")
        return
    name, st, (sh, fill, dt) = alloc
    probs = []
    if not (len(sh) == 2 and sh[0] == S.P(params[1])):
        probs.append("table does not have one row per node")
    if not S.is_fill(fill):
        probs.append("table not initialised with INT_FILL_VALUE")
    if not S.is_intdtype(dt):
        probs.append("table not INT_DTYPE")
    # rows filled from the start:  table[node_idx, 0:n] = faces
    ok_row = False
    for s in S.stores_into(fn, name):
        ax = S.subscript_axes(s.targets[0])
        if len(ax) == 2 and ax[1] is not None and ax[1][0] == "range" and ax[1][1] == 0:
            ok_row = True
    if not ok_row:
        probs.append("rows are not filled from column 0 (padding must be at the end of each row)")
    if probs:
        run.violation("IDX/node-face", c, where(f, st), "; ".join(probs))
    else:
        run.holds("IDX/node-face", c, where(f, st), "(n_node, max) table of INT_FILL_VALUE, INT_DTYPE, rows filled from column 0")
    g = P.func(f"{CONN}:_populate_node_face_connectivity")
    call = [n for n in ast.walk(g.node) if isinstance(n, ast.Call) and (dotted(n.func) or [""])[-1] == "_build_node_faces_connectivity"]
    cc = f"{g.key}:call"
    if call and len(call[0].args) == 2 and "face_node_connectivity" in norm(call[0].args[0]) and norm(call[0].args[1]).endswith("n_node"):
        run.holds("IDX/node-face", cc, where(g, call[0]), "called with (face_node_connectivity, n_node)")
    else:
        run.violation("IDX/node-face", cc, where(g), "builder not called with (face_node_connectivity, n_node)")


def _face_face(run, P):
    f = P.func(f"{CONN}:_build_face_face_connectivity")
    fn = f.node
    loop = next((s for s in iter_stmts(fn.body) if isinstance(s, ast.For) and "edge_face_connectivity" in norm(s.iter)), None)
    c = f"{f.key}:pairs"
    if loop is None:
        run.incomplete("IDX/face-face", c, where(f), "loop over edge_face_connectivity not found")
        return
    # face1, face2 = row
    names = None
    if isinstance(loop.target, ast.Tuple) and len(loop.target.elts) == 2:
        names = [e.id for e in loop.target.elts]
    else:
        for s in iter_stmts(loop.body):
            if isinstance(s, ast.Assign) and isinstance(s.targets[0], ast.Tuple) and len(s.targets[0].elts) == 2 and norm(s.value) == norm(loop.target):
                names = [e.id for e in s.targets[0].elts]
    if names is None:
        run.incomplete("IDX/face-face", c, where(f, loop), "the two faces of an edge are not unpacked")
        return
    a, b = names
    apps = []
    for s in iter_stmts(loop.body):
        if isinstance(s, ast.Expr) and isinstance(s.value, ast.Call) and isinstance(s.value.func, ast.Attribute) and s.value.func.attr == "append":
            recv = s.value.func.value
            if isinstance(recv, ast.Subscript):
                apps.append((norm(recv.slice), norm(s.value.args[0]), s))
    probs = []
    pairs = {(k, v) for k, v, _ in apps}
    if pairs != {(a, b), (b, a)}:
        probs.append(f"neighbour appends are {sorted(pairs)}; each interior edge must add {b} to {a}'s list and {a} to {b}'s list")
    for k, v, s in apps:
        g = _guards_of(loop.body, s) or []
        proven = set()
        extra = []
        for te, t in g:
            nn = _ne_fill_names(te) if t else set()
            proven |= nn
            from ..flow import _split_test
            for atom, val in _split_test(te, t):
                ft = S.fill_test(atom)
                if not (ft and isinstance(ft[1], ast.Name) and ft[1].id in (a, b)):
                    extra.append(norm(atom)[:60])
        if not {a, b} <= proven:
            probs.append(f"append under {k} is not guarded by both faces being != INT_FILL_VALUE (boundary edges would index with the fill value)")
        if extra:
            probs.append(f"append is additionally conditioned on {sorted(set(extra))}: a neighbour sharing several edges is then listed fewer times than edges are shared")
    if probs:
        run.violation("IDX/face-face", c, where(f, loop), "; ".join(sorted(set(probs))))
    else:
        run.holds("IDX/face-face", c, where(f, loop), "for every interior edge both faces record each other, under the fill guard only")
    # padding at the end with FILL, INT_DTYPE
    c = f"{f.key}:padding"
    pads = [n for n in ast.walk(fn) if isinstance(n, ast.Call) and (dotted(n.func) or [""])[-1] == "pad"]
    probs = []
    if not pads:
        run.incomplete("IDX/face-face", c, where(f), "np.pad not found")
    else:
        p = pads[0]
        width = p.args[1] if len(p.args) > 1 else None
        cv = next((k.value for k in p.keywords if k.arg == "constant_values"), None)
        if not (isinstance(width, ast.Tuple) and len(width.elts) == 2 and isinstance(width.elts[0], ast.Constant) and width.elts[0].value == 0):
            probs.append("padding is not (0, n) — fill values must only follow the real entries")
        if not S.is_fill(cv):
            probs.append("padding value is not INT_FILL_VALUE")
        inner = p.args[0]
        typed = isinstance(inner, ast.Call) and any(k.arg == "dtype" and S.is_intdtype(k.value) for k in inner.keywords)
        rets = [r for r in ast.walk(fn) if isinstance(r, ast.Return)]
        ret_typed = all(isinstance(r.value, ast.Call) and any(k.arg == "dtype" and S.is_intdtype(k.value) for k in r.value.keywords) for r in rets) if rets else False
        if not (typed and ret_typed) and not ret_typed:
            probs.append("the rows / the returned table are not created with INT_DTYPE: a face without neighbours yields a float row and the whole table becomes float64")
        if probs:
            run.violation("IDX/face-face", c, where(f, p), "; ".join(probs))
        else:
            run.holds("IDX/face-face", c, where(f, p), "rows padded at the end with INT_FILL_VALUE, INT_DTYPE")


def _holes(run, P):
    f = P.func("uxarray/grid/geometry.py:_construct_hole_edge_indices")
    p0 = f.params()[0]
    c = f"{f.key}:test"
    found = None
    any_fill_test = False
    from ..astutil import Resolver
    RZ = Resolver(f.node)
    for n in ast.walk(f.node):
        if not isinstance(n, ast.Compare):
            continue
        # locals standing for a column of the table are looked through:  second = efc[:, 1]; second == INT_FILL_VALUE
        rn = RZ.resolve(n)
        ft = S.fill_test(rn)
        if ft:
            any_fill_test = True
        if ft and isinstance(ft[1], ast.Subscript) and norm(ft[1].value) == p0:
            found = (ft, n)
    if found is None:
        if any_fill_test:
            run.incomplete("IDX/hole-edges", c, where(f), "a comparison with INT_FILL_VALUE exists but its operand is not recognised as a column of edge_face_connectivity")
        else:
            run.violation("IDX/hole-edges", c, where(f), "no comparison of edge_face_connectivity with INT_FILL_VALUE")
        return
    ft, n = found
    ax = S.subscript_axes(ft[1])
    if ft[0] == "eq" and len(ax) == 2 and ax[0] == ("all",) and ax[1] == ("idx", 1):
        run.holds("IDX/hole-edges", c, where(f, n), "boundary edges = rows whose second face slot is INT_FILL_VALUE")
    else:
        run.violation("IDX/hole-edges", c, where(f, n), f"hole edges are taken from {norm(n)}; a boundary edge is one whose SECOND face slot (column 1) equals INT_FILL_VALUE (slot 0 is always filled first)")

def _holes_getter(run, P):
    """Grid.hole_edge_indices stores nothing but the rows _construct_hole_edge_indices finds in edge_face_connectivity.  "Exactly the edges with a single adjacent face"
    cannot be known without looking at which faces the edges have: a value stored from anything else (an empty table under a counting argument such as Euler's formula,
    which two disjoint patches also satisfy; a constant) is not that set."""
    from ..astutil import LocalDefs
    f = P.func("uxarray/grid/grid.py:Grid.hole_edge_indices")
    defs = LocalDefs(f.node)
    c = "Grid.hole_edge_indices:stored-from-edge-faces"
    stores = [st for st in ast.walk(f.node) if isinstance(st, ast.Assign) and isinstance(st.targets[0], ast.Subscript) and str_const(st.targets[0].slice) == "hole_edge_indices"]
    if not stores:
        run.incomplete("IDX/hole-edges", c, where(f), "no store of hole_edge_indices in the getter")
        return

    def leaves(e, depth=0):
        """the defining expressions of e (all bindings of a local are alternatives)"""
        if isinstance(e, ast.Name) and e.id in defs.defs and depth < 5:
            out = []
            for v, _i, _l in defs.defs[e.id]:
                out += leaves(v, depth + 1)
            return out
        return [e]
    for st in stores:
        for v in leaves(st.value):
            call = v if isinstance(v, ast.Call) else None
            nm = (dotted(call.func) or [""])[-1] if call is not None and dotted(call.func) else ""
            if nm == "DataArray" and call is not None:
                inner = call.args[0] if call.args else next((k.value for k in call.keywords if k.arg == "data"), None)
                vv = leaves(inner)[0] if inner is not None else None
                call = vv if isinstance(vv, ast.Call) else None
                nm = (dotted(call.func) or [""])[-1] if call is not None and dotted(call.func) else ""
            if nm == "_construct_hole_edge_indices" and call.args and "edge_face_connectivity" in norm(call.args[0]):
                run.holds("IDX/hole-edges", c, where(f, st), "stored from _construct_hole_edge_indices(edge_face_connectivity)")
            elif nm in ("empty", "zeros", "array", "asarray", "arange", "full") or isinstance(v, (ast.List, ast.Tuple, ast.Constant)):
                if any("edge_face_connectivity" in norm(x) or "face_edge_connectivity" in norm(x) for x in ast.walk(v) if isinstance(x, (ast.Attribute, ast.Subscript))):
                    run.incomplete("IDX/hole-edges", c, where(f, st), f"stored from {norm(v)[:60]}: an own derivation from the incidence tables, not read by this rule")
                else:
                    run.violation("IDX/hole-edges", c, where(f, st), f"on one path hole_edge_indices is stored from `{norm(v)[:60]}`, which looks at no edge-face incidence at all: whether an edge has a single "
                                  "adjacent face cannot follow from element counts (two disjoint patches have Euler characteristic 2 and nothing but boundary edges)")
            else:
                run.incomplete("IDX/hole-edges", c, where(f, st), f"stored from {norm(v)[:60]}: not recognised as the single-face rows of edge_face_connectivity")

