"""C17  Topological aggregations reduce over exactly each element's nodes.

Decided: the name table (ten aggregations <-> methods <-> literals); the partition gather: column bound and face subset
come from the same partition record, gathers index the node axis with node indices and results are stored at face positions;
unsupported combinations raise; result dims renamed node->destination on the same grid."""

import ast

from ..astutil import iter_stmts, norm, str_const, where
from ..loader import dotted
from ..rules import table
from ..rules.common import dataflow, emit

AGG = "uxarray/core/aggregation.py"
CONN = "uxarray/grid/connectivity.py"


def _uniform_reduction(run, P):
    """all ten aggregations take the same route: every value returned/stored by the numpy kernels is aggregation_func(<gather>, axis=-1, **kwargs);
    a per-function shortcut (e.g. an arithmetic mean written out) computes in the input's dtype and bypasses the kwargs"""
    for key in ("uxarray/core/aggregation.py:_apply_node_to_edge_aggregation_numpy", "uxarray/core/aggregation.py:_apply_node_to_face_aggregation_numpy"):
        f = P.func(key)
        from ..astutil import LocalDefs
        defs = LocalDefs(f.node)
        c = f"{f.key}:every-result-through-aggregation-func"
        bad = unknown = None
        n = 0
        for r in ast.walk(f.node):
            if isinstance(r, ast.Return) and r.value is not None:
                n += 1
                nodes, names = defs.closure(r.value)
                direct = any(isinstance(x, ast.Call) and isinstance(x.func, ast.Name) and x.func.id == "aggregation_func" for e in nodes for x in ast.walk(e))
                via_result = "result" in names and any(isinstance(st, ast.Assign) and isinstance(st.targets[0], ast.Subscript) and norm(st.targets[0].value) == "result" for st in iter_stmts(f.node.body))
                handed_on = any(isinstance(x, ast.Call) and any(isinstance(a_, ast.Name) and a_.id == "aggregation_func" for a_ in list(x.args) + [k.value for k in x.keywords]) for e in nodes for x in ast.walk(e))
                if not (direct or via_result):
                    if handed_on:
                        unknown = r
                    else:
                        bad = r
        if bad is not None:
            run.violation("F-PATH/uniform-reduction", c, where(f, bad), f"{norm(bad)[:90]} does not come from aggregation_func(...): this shortcut computes in the dtype of the data (bool/narrow integers wrap or saturate) and ignores the keyword arguments")
        elif unknown is not None:
            run.incomplete("F-PATH/uniform-reduction", c, where(f, unknown), f"{norm(unknown)[:80]}: aggregation_func is handed to another function whose use of it is not followed")
        elif n:
            run.holds("F-PATH/uniform-reduction", c, where(f), f"all {n} return(s) carry results of aggregation_func(gather, axis=-1, **kwargs)")
        else:
            run.incomplete("F-PATH/uniform-reduction", c, where(f), "no return found")


def _single_reduction_table(run, P):
    """the ten named aggregations are the entries of ONE table, NUMPY_AGGREGATIONS: np.sum/np.prod/np.mean ... with their numpy dtype rules (bool and narrow integers
    are promoted before summing).  A second table of "equivalent" functions for a fast path (np.add for sum, np.multiply for prod, np.logical_and for all ...) has other
    dtype rules and ignores the keyword arguments, so the same aggregation gives different results depending on destination or data layout."""
    m = next(mm for mm in P.modules.values() if mm.relpath == "uxarray/core/aggregation.py")
    tables = {}
    for st in m.tree.body:
        if isinstance(st, ast.Assign) and len(st.targets) == 1 and isinstance(st.targets[0], ast.Name) and isinstance(st.value, ast.Dict):
            vals = st.value.values
            keys = [k.value for k in st.value.keys if isinstance(k, ast.Constant)]
            if keys and all(isinstance(v, (ast.Attribute, ast.Name)) for v in vals) and len(set(keys) & {"sum", "mean", "min", "max", "prod", "all", "any", "std", "var", "median"}) >= 2:
                tables[st.targets[0].id] = st
    c = "uxarray/core/aggregation.py:one-reduction-table"
    extra = sorted(t for t in tables if t not in ("NUMPY_AGGREGATIONS", "DASK_AGGREGATIONS"))
    used = set()
    for f in m.all_funcs:
        for n in ast.walk(f.node):
            if isinstance(n, ast.Name) and n.id in extra and isinstance(n.ctx, ast.Load):
                used.add(n.id)
    if "NUMPY_AGGREGATIONS" not in tables:
        run.incomplete("F-PATH/uniform-reduction", c, "uxarray/core/aggregation.py", "table NUMPY_AGGREGATIONS not found")
    elif used:
        st = tables[sorted(used)[0]]
        run.violation("F-PATH/uniform-reduction", c, f"uxarray/core/aggregation.py:{st.lineno}", f"a second table of reduction functions ({sorted(used)}) is consulted next to NUMPY_AGGREGATIONS: "
                      f"{norm(st.value)[:90]} - binary ufuncs do not promote bool/narrow integers the way np.sum/np.prod do and take no keyword arguments")
    else:
        run.holds("F-PATH/uniform-reduction", c, f"uxarray/core/aggregation.py:{tables['NUMPY_AGGREGATIONS'].lineno}", "NUMPY_AGGREGATIONS is the only table of reduction functions")


def _partition_order_restored(run, P):
    """every consumer of get_face_node_partitions puts partition results back at the faces they were computed for: a scatter  result[..., sorted_ind[start:end]] = ...
    or a gather through the INVERSE permutation np.argsort(sorted_ind); indexing the size-ordered results with sorted_ind itself permutes them a second time"""
    for f in P.all_functions():
        if f.module.relpath != "uxarray/core/aggregation.py":
            continue
        unp = next((st for st in iter_stmts(f.node.body) if isinstance(st, ast.Assign) and isinstance(st.targets[0], ast.Tuple) and isinstance(st.value, ast.Call) and (dotted(st.value.func) or [""])[-1] == "get_face_node_partitions"), None)
        if unp is None:
            continue
        names = [norm(e) for e in unp.targets[0].elts]
        if len(names) < 2:
            continue
        sorted_ind = names[1]
        c = f"{f.key}:partition-order-restored"
        wrong = [n for n in ast.walk(f.node) if isinstance(n, ast.Subscript) and isinstance(n.ctx, ast.Load) and isinstance(n.slice, ast.Tuple) and len(n.slice.elts) == 2 and norm(n.slice.elts[1]) == sorted_ind
                 and not (isinstance(n.value, ast.Name))]
        wrong += [n for n in ast.walk(f.node) if isinstance(n, ast.Subscript) and isinstance(n.ctx, ast.Load) and norm(n.slice) == sorted_ind and isinstance(n.value, ast.Call)]
        if wrong:
            run.violation("IDX/partition-order", c, where(f, wrong[0]), f"{norm(wrong[0])[:80]}: results ordered by face size are gathered with {sorted_ind}; restoring the grid order needs the inverse permutation (np.argsort({sorted_ind})) or a scatter at {sorted_ind}[start:end]")
        else:
            run.holds("IDX/partition-order", c, where(f, unp), f"no gather of size-ordered results through {sorted_ind}")


def check(run):
    P = run.program
    _uniform_reduction(run, P)
    _single_reduction_table(run, P)
    _partition_order_restored(run, P)
    from ..rules import dtype as _dt
    _dt.check_float_results(run, P, ["uxarray/core/aggregation.py:_apply_node_to_face_aggregation_numpy", "uxarray/core/aggregation.py:_apply_node_to_edge_aggregation_numpy",
                                    "uxarray/core/aggregation.py:_node_to_face_aggregation", "uxarray/core/aggregation.py:_node_to_edge_aggregation"])
    run.explanation = (
        "Structural decision of the node->face/edge aggregation: NUMPY_AGGREGATIONS maps each of the ten names to the numpy "
        "function of the same name and each topological_<name> passes its own name; in the numpy implementation the loop "
        "variables (size e, start, end) come from one zip over get_face_node_partitions' records, the face subset is "
        "sorted_ind[start:end], the gather is face_node_conn[face_inds, 0:e] (prefix of exactly e columns), the reduction runs over "
        "axis=-1 of data[..., gathered] and is stored at result[..., face_inds]; get_face_node_partitions sorts sizes "
        "ascending with cumulative change indices; every unsupported source/destination combination raises.  The value of each "
        "reduction per dtype is numpy's (assumed)."
    )
    run.rule_text = "F-TABLE names; IDX partition-consistent gather; F-PATH raises"
    run.assumptions = ["numpy reductions with axis=-1 reduce exactly the gathered corner axis"]
    table.check_aggregation_table(run, P)
    f = P.func(f"{AGG}:_apply_node_to_face_aggregation_numpy")
    loop = next((s for s in iter_stmts(f.node.body) if isinstance(s, ast.For)), None)
    R = "IDX/partition-gather"
    if loop is None:
        run.incomplete(R, f"{f.key}:loop", where(f), "partition loop not found")
    else:
        # for e, start, end in zip(element_sizes, change_ind[:-1], change_ind[1:])
        tg = [n.id for n in loop.target.elts] if isinstance(loop.target, ast.Tuple) else []
        it = loop.iter
        c = f"{f.key}:zip-records"
        ok = False
        if isinstance(it, ast.Call) and (dotted(it.func) or [""])[-1] == "zip" and len(it.args) == 3 and len(tg) == 3:
            a = [norm(x) for x in it.args]
            ok = a[1].endswith("[:-1]") and a[2].endswith("[1:]") and a[1][:-5] == a[2][:-4]
            sizes_name, change_name = a[0], a[1][:-5]
        if ok:
            run.holds(R, c, where(f, loop), f"(size, start, end) zipped from {a}")
            e, start, end = tg
            body_txt = {}
            for st in iter_stmts(loop.body):
                if isinstance(st, ast.Assign) and len(st.targets) == 1:
                    body_txt[norm(st.targets[0])] = st
            # face subset
            fi = next((k for k, st in body_txt.items() if isinstance(st.value, ast.Subscript) and isinstance(st.value.slice, ast.Slice)
                       and norm(st.value.slice.lower or "") == start and norm(st.value.slice.upper or "") == end), None)
            c = f"{f.key}:face-subset"
            if fi:
                run.holds(R, c, where(f, body_txt[fi]), f"{fi} = {norm(body_txt[fi].value)}")
            else:
                run.violation(R, c, where(f, loop), f"no face subset of the form sorted_ind[{start}:{end}] in the partition loop")
            # gather prefix
            g = None
            for k, st in body_txt.items():
                v = st.value
                if isinstance(v, ast.Subscript) and isinstance(v.slice, ast.Tuple) and len(v.slice.elts) == 2 and isinstance(v.slice.elts[1], ast.Slice):
                    g = (k, st, v)
            c = f"{f.key}:column-prefix"
            if g and fi:
                k, st, v = g
                rows, cols = v.slice.elts
                lo = cols.lower
                lo_ok = lo is None or (isinstance(lo, ast.Constant) and lo.value == 0)
                if norm(rows) == fi and lo_ok and cols.upper is not None and norm(cols.upper) == e and cols.step is None:
                    run.holds(R, c, where(f, st), f"{k} = {norm(v)}: rows of this partition, exactly the first {e} columns")
                else:
                    run.violation(R, c, where(f, st), f"gather {norm(v)} does not take exactly the first '{e}' columns of the rows '{fi}' of this partition: padding enters or corners are dropped")
            else:
                run.incomplete(R, c, where(f, loop), "gather of the form conn[face_inds, 0:e] not found")
            # reduction over data[..., gathered], axis=-1 ; store at result[..., face_inds]
            red = None
            for st in iter_stmts(loop.body):
                if isinstance(st, ast.Assign) and isinstance(st.value, ast.Call):
                    axis = next((kw for kw in st.value.keywords if kw.arg == "axis"), None)
                    if axis is not None and st.value.args and isinstance(st.value.args[0], ast.Subscript):
                        red = (st, axis)
            c = f"{f.key}:reduce-axis"
            if red and g:
                st, axis = red
                sub = st.value.args[0]
                idx = sub.slice.elts if isinstance(sub.slice, ast.Tuple) else [sub.slice]
                good = len(idx) == 2 and isinstance(idx[0], ast.Constant) and idx[0].value is Ellipsis and norm(idx[1]) == g[0] and norm(axis.value) == "-1"
                if good:
                    run.holds(R, c, where(f, st), f"{norm(st.value)[:80]}")
                else:
                    run.violation(R, c, where(f, st), f"reduction {norm(st.value)[:90]} is not over axis=-1 of data[..., {g[0]}]")
                store = next((s for s in iter_stmts(loop.body) if isinstance(s, ast.Assign) and isinstance(s.targets[0], ast.Subscript) and norm(s.value) == norm(st.targets[0])), None)
                c = f"{f.key}:store-positions"
                if store is not None:
                    t = store.targets[0]
                    idx = t.slice.elts if isinstance(t.slice, ast.Tuple) else [t.slice]
                    if len(idx) == 2 and isinstance(idx[0], ast.Constant) and idx[0].value is Ellipsis and norm(idx[1]) == fi:
                        run.holds(R, c, where(f, store), f"stored at [..., {fi}]")
                    else:
                        run.violation(R, c, where(f, store), f"partition result stored at {norm(t)}, not at the faces '{fi}' it was computed for")
                else:
                    run.incomplete(R, c, where(f, loop), "store of the partition result not found")
            else:
                run.incomplete(R, c, where(f, loop), "reduction call with axis= over a gather not found")
        else:
            run.incomplete(R, c, where(f, loop), "loop is not a zip over (sizes, change[:-1], change[1:])")
    # get_face_node_partitions summary (def-use, not text): returned (change_ind, sorted_ind, sizes, counts)
    from ..astutil import LocalDefs
    g = P.func(f"{CONN}:get_face_node_partitions")
    defs = LocalDefs(g.node)
    param = g.params()[0]
    ret = next((r for r in ast.walk(g.node) if isinstance(r, ast.Return) and isinstance(r.value, ast.Tuple)), None)
    c = f"{g.key}:summary"
    if ret is None or len(ret.value.elts) != 4:
        run.incomplete("IDX/partition-summary", c, where(g), "helper does not return a 4-tuple")
    else:
        from ..loader import FuncInfo

        def calls_in_closure(expr, _defs=None, _f=None, depth=0):
            """calls in the backward slice of expr; a call to a function of this package is looked through (its whole body), two levels deep"""
            nodes, _ = (_defs or defs).closure(expr)
            out = []
            for e in nodes:
                for n in ast.walk(e):
                    if isinstance(n, ast.Call):
                        tgt = P.resolve_expr((_f or g).module, n.func, _f or g)
                        if isinstance(tgt, FuncInfo) and depth < 2:
                            for st_ in iter_stmts(tgt.node.body):
                                for m in ast.walk(st_):
                                    if isinstance(m, ast.Call):
                                        out.append(m)
                        else:
                            out.append(n)
            return out
        VOCAB = {"cumsum", "concatenate", "array", "argsort", "unique", "zeros", "len", "asarray", "intp", "int64"}

        def has(expr, fname, pred=lambda c: True):
            return any((dotted(cc.func) or [""])[-1] == fname and pred(cc) for cc in calls_in_closure(expr))

        def understood(expr):
            return all((dotted(cc.func) or ["?"])[-1] in VOCAB for cc in calls_in_closure(expr))
        e0, e1, e2, e3 = ret.value.elts

        def starts_with_zero(cc):
            a = cc.args[0] if cc.args else None
            return isinstance(a, (ast.Tuple, ast.List)) and a.elts and "0" in norm(a.elts[0]) and "1" not in norm(a.elts[0])

        def cumsum_into_tail_of_zeros(expr):
            """b = np.zeros(len(c) + 1, ...); np.cumsum(c, out=b[1:])"""
            cs = [cc for cc in calls_in_closure(expr) if (dotted(cc.func) or [""])[-1] == "cumsum"]
            zs = [cc for cc in calls_in_closure(expr) if (dotted(cc.func) or [""])[-1] == "zeros"]
            for cc in cs:
                out_ = next((k.value for k in cc.keywords if k.arg == "out"), None)
                if isinstance(out_, ast.Subscript) and isinstance(out_.slice, ast.Slice) and norm(out_.slice.lower or ast.Constant(0)) == "1" and out_.slice.upper is None and zs:
                    if any(z.args and norm(z.args[0]).replace(" ", "") in (f"len({norm(cc.args[0])})+1", f"1+len({norm(cc.args[0])})", f"{norm(cc.args[0])}.size+1") for z in zs):
                        return True
            return False
        problems, unknown = [], []
        if not has(e0, "cumsum"):
            (problems if understood(e0) else unknown).append("change indices are not a cumulative sum of the size counts")
        elif not (has(e0, "concatenate", starts_with_zero) or cumsum_into_tail_of_zeros(e0)):
            (problems if understood(e0) and not has(e0, "zeros") else unknown).append("change indices are not prefixed with 0 (first partition would be skipped)")
        if not has(e1, "argsort", lambda cc: cc.args and norm(cc.args[0]) == param):
            (problems if understood(e1) else unknown).append(f"sorted face indices are not argsort({param})")
        if not (has(e2, "unique", lambda cc: cc.args and norm(cc.args[0]) == param) and has(e3, "unique", lambda cc: any(k.arg == "return_counts" for k in cc.keywords))):
            if has(e3, "bincount", lambda cc: cc.args and norm(cc.args[0]) == param):
                # histogram idiom: counts = bincount(n); sizes and counts must then be restricted to the SAME occupied bins
                def occupied_filter(expr):
                    """the returned name itself is (re)defined through a mask of occupied bins / nonzero positions (direct definitions only)"""
                    vals = [v for (v, _i, _l) in defs.defs.get(expr.id, [])] if isinstance(expr, ast.Name) else [expr]
                    for v in vals:
                        if any(isinstance(x, ast.Compare) and isinstance(x.ops[0], (ast.Gt, ast.NotEq)) and norm(x.comparators[0]) == "0" for x in ast.walk(v)):
                            return True
                        if any(isinstance(x, ast.Call) and (dotted(x.func) or [""])[-1] in ("flatnonzero", "nonzero") for x in ast.walk(v)):
                            return True
                    return False
                if occupied_filter(e3) and has(e2, "arange") and not occupied_filter(e2):
                    problems.append("counts come from np.bincount restricted to the occupied bins while the sizes enumerate every value of an arange: sizes and counts are misaligned as soon as a size in between does not occur")
                elif occupied_filter(e3) and occupied_filter(e2):
                    unknown.append("sizes/counts come from a bincount histogram (both restricted to occupied bins); alignment not verified")
                else:
                    unknown.append("sizes/counts come from a bincount histogram in a form that is not recognised")
            else:
                (problems if understood(e2) and understood(e3) else unknown).append("sizes/counts do not come from np.unique(n_nodes_per_face, return_counts=True)")
        if problems:
            run.violation("IDX/partition-summary", c, where(g, ret), "; ".join(problems))
        elif unknown:
            run.incomplete("IDX/partition-summary", c, where(g, ret), "idiom not recognised: " + "; ".join(unknown))
        else:
            run.holds("IDX/partition-summary", c, where(g, ret), "argsort of sizes; unique sizes with counts; cumulative change indices prefixed by 0")
    # node->edge: gather over edge_node_connectivity, axis=-1
    h = P.func(f"{AGG}:_apply_node_to_edge_aggregation_numpy")
    call = next((c2 for c2 in ast.walk(h.node) if isinstance(c2, ast.Call) and any(k.arg == "axis" for k in c2.keywords)), None)
    c = f"{h.key}:gather"
    if call is not None and call.args and isinstance(call.args[0], ast.Subscript):
        axis = next(k for k in call.keywords if k.arg == "axis")
        run.ob("IDX/partition-gather", c, where(h, call), "holds" if norm(axis.value) == "-1" else "violation",
               f"reduction over axis={norm(axis.value)} of {norm(call.args[0])}")
    else:
        run.incomplete("IDX/partition-gather", c, where(h), "edge aggregation call not recognised")
    # dataflow: index spaces of the gathers
    Rf = dataflow(P, run.tier)
    emit(run, Rf, {"IDX/space", "IDX/fill-safety"}, files=[AGG])
    # error paths of the dispatcher
    d = P.func(f"{AGG}:_uxda_grid_aggregate")
    n_raise = 0
    for st in iter_stmts(d.node.body):
        if isinstance(st, ast.If):
            for body in (st.body, st.orelse):
                if body and not (len(body) == 1 and isinstance(body[0], ast.If)):
                    term = any(isinstance(s, (ast.Raise, ast.Return)) for s in body) or any(isinstance(s, ast.If) for s in body)
                    n_raise += 1
                    c = f"{d.key}:branch@{norm(st.test)[:40]}:{'then' if body is st.body else 'else'}"
                    if term:
                        run.holds("F-PATH/unsupported-raises", c, where(d, body[0]), "branch returns an aggregation or raises")
                    else:
                        run.violation("F-PATH/unsupported-raises", c, where(d, body[0]), "a dispatch branch neither raises nor returns an aggregation")
    rets = [r for r in ast.walk(d.node) if isinstance(r, ast.Return)]
    for r in rets:
        c = f"{d.key}:return:{norm(r.value)[:50]}"
        from ..loader import FuncInfo

        def reaches_kernel(fi, depth=0, seen=None):
            """the function refers (as a call or as a value it passes on) to one of the numpy kernels, possibly through other module functions"""
            seen = seen or set()
            if fi.key in seen or depth > 3:
                return False
            seen.add(fi.key)
            for n in ast.walk(fi.node):
                if isinstance(n, ast.Name) and n.id in ("_apply_node_to_face_aggregation_numpy", "_apply_node_to_edge_aggregation_numpy"):
                    return True
                if isinstance(n, ast.Call):
                    t = P.resolve_expr(fi.module, n.func, fi)
                    if isinstance(t, FuncInfo) and t.module is fi.module and reaches_kernel(t, depth + 1, seen):
                        return True
            return False
        tgt = P.resolve_expr(d.module, r.value.func, d) if isinstance(r.value, ast.Call) else None
        if isinstance(r.value, ast.Call) and (dotted(r.value.func) or [""])[-1] in ("_node_to_face_aggregation", "_node_to_edge_aggregation"):
            run.holds("F-PATH/unsupported-raises", c, where(d, r), "returns an aggregation result")
        elif isinstance(tgt, FuncInfo) and reaches_kernel(tgt):
            run.holds("F-PATH/unsupported-raises", c, where(d, r), f"returns the result of {tgt.name}, which runs a node aggregation kernel")
        elif isinstance(tgt, FuncInfo):
            run.incomplete("F-PATH/unsupported-raises", c, where(d, r), f"dispatcher returns {norm(r.value)[:60]}; whether {tgt.name} aggregates is not followed")
        else:
            run.violation("F-PATH/unsupported-raises", c, where(d, r), f"dispatcher returns {norm(r.value)[:60]} instead of an aggregation (numbers without reduction)")
    # result dims: rename n_node -> destination on the same grid
    for fn, dest in (("_node_to_face_aggregation", "n_face"), ("_node_to_edge_aggregation", "n_edge")):
        ff = P.func(f"{AGG}:{fn}")
        r = next((x for x in ast.walk(ff.node) if isinstance(x, ast.Return) and x.value is not None), None)
        c = f"{ff.key}:result"
        txt = norm(r.value) if r is not None else ""
        ok = ("uxgrid=uxda.uxgrid" in txt) and (f".rename({{'n_node': '{dest}'}})" in txt) and "dims=uxda.dims" in txt
        if ok:
            run.holds("F-PATH/result-construction", c, where(ff, r), f"same grid, n_node renamed to {dest}")
        else:
            run.violation("F-PATH/result-construction", c, where(ff, r) if r is not None else where(ff), f"result is not built on uxda.uxgrid with n_node renamed to {dest}: {txt[:100]}")
