"""C18  The dual mesh swaps nodes and faces with correct ring order.

Decided: JIT-independent comparisons in construct_faces/_order_nodes; dual node coordinates are the primal face centres and dual connectivity values are primal face indices read from the valid prefix of node_face_connectivity;
rows are exactly the primal nodes with at least three faces (count, skip and row offset agree); arguments reach construct_faces/_order_nodes in the roles their parameters name;
the angular sort uses the SIGN of the side product only (no absolute tolerance on a quantity that scales with the cell size), reflects angles on the positive side to (pi, 2 pi) and picks strictly increasing angles;
rows are padded at the end with INT_FILL_VALUE in INT_DTYPE; the three get_dual siblings agree (duplicate-node guard, construction from face_lon/face_lat in that order, dimension involution by name, data attached to the dual grid)."""

import ast

from ..astutil import LocalDefs, iter_stmts, norm, where
from ..loader import dotted
from ..rules import njit
from ..rules import shape as S
from .c10 import _get_dual_dims

DUAL = "uxarray/grid/dual.py"
GRID = "uxarray/grid/grid.py"


def check(run):
    P = run.program
    run.explanation = (
        "Structural reading of grid/dual.py and the three get_dual methods. Roles: each positional argument of construct_faces/_order_nodes is compared with the parameter it binds to (same coordinate family and component). "
        "Row bookkeeping: the table has sum(n_edges > 2) rows, nodes with n_edges < 3 are skipped and counted, and rows are written at i - (number skipped). "
        "Angular sort: the comparison that decides on which side of the reference great circle a corner lies must compare the scalar triple product with the literal 0 (sign test): the product scales with the square of the cell size, "
        "so any absolute tolerance misorders fine meshes. Counter-clockwise order for every mesh (geometry) is NOT decided."
    )
    run.rule_text = "F-NJIT + role agreement of call arguments + row bookkeeping + sign-only orientation test + sibling agreement"
    run.assumptions = ["node_face_connectivity rows list the faces of a node first and the fill value after them (C03)"]
    n = njit.check_identity_comparisons(run, P, files=[DUAL])
    _construct_dual(run, P)
    _construct_faces(run, P)
    _order_nodes(run, P)
    _siblings(run, P)


def _construct_dual(run, P):
    f = P.func(f"{DUAL}:construct_dual")
    defs = LocalDefs(f.node)
    call = next((n for n in ast.walk(f.node) if isinstance(n, ast.Call) and (dotted(n.func) or [""])[-1] == "construct_faces"), None)
    c = f"{f.key}:call(construct_faces)"
    if call is None:
        run.incomplete("F-TABLE/dual-roles", c, where(f), "call of construct_faces not found")
        return
    g = P.func(f"{DUAL}:construct_faces")
    params = g.params()
    want = {
        "n_node": {"grid.n_node"},
        "dual_node_x": {"grid.face_x"}, "dual_node_y": {"grid.face_y"}, "dual_node_z": {"grid.face_z"},
        "node_x": {"grid.node_x"}, "node_y": {"grid.node_y"}, "node_z": {"grid.node_z"},
        "node_face_connectivity": {"grid.node_face_connectivity"},
    }
    probs = []
    for p, a in zip(params, call.args):
        if p not in want:
            continue
        nodes, _ = defs.closure(a)
        attrs = {norm(S.strip_copy(n)) for e in nodes for n in ast.walk(e) if isinstance(n, ast.Attribute) and isinstance(n.value, ast.Name) and n.value.id == f.params()[0]}
        attrs |= {norm(n.value) for e in nodes for n in ast.walk(e) if isinstance(n, ast.Attribute) and n.attr == "values" and isinstance(n.value, ast.Attribute)}
        if not (want[p] & attrs):
            probs.append(f"parameter {p} receives {norm(a)} (from {sorted(attrs)}); expected {sorted(want[p])}")
    if len(call.args) != len(params):
        probs.append(f"{len(call.args)} arguments for {len(params)} parameters")
    if probs:
        run.violation("F-TABLE/dual-roles", c, where(f, call), "; ".join(probs))
    else:
        run.holds("F-TABLE/dual-roles", c, where(f, call), "dual nodes = primal face centres (x, y, z), primal nodes, node_face_connectivity passed in the roles construct_faces names")
    # all per-node arguments run over the SAME node axis: none of them (or all of them, by one mask) may be row-filtered
    cx = f"{f.key}:node-axis-consistent"
    per_node = [p_ for p_ in params if p_ in ("n_edges", "node_face_connectivity", "node_x", "node_y", "node_z")]
    filt = {}
    for p_, a in zip(params, call.args):
        if p_ in per_node:
            nodes, _ = defs.closure(a)
            masks = sorted({norm(n.slice) for e in nodes for n in ast.walk(e) if isinstance(n, ast.Subscript) and isinstance(n.slice, ast.Name) and not norm(n.slice).isdigit()
                            and any(isinstance(v, ast.Compare) for v, _i, _l in defs.defs.get(norm(n.slice), []))})
            filt[p_] = tuple(masks)
    if len(set(filt.values())) <= 1:
        run.holds("IDX/dual-rows", cx, where(f, call), f"per-node arguments {sorted(filt)} share one node axis")
    else:
        run.violation("IDX/dual-rows", cx, where(f, call), f"per-node arguments run over different node sets: {filt} - after a skipped node each dual face is ordered about the wrong primal node")
    # n_edges = number of non-fill entries per row
    c = f"{f.key}:faces-per-node"
    ok = False
    for st in S.assigns(f.node, "n_edges"):
        nodes, _ = defs.closure(st.value)
        has_ne = any(S.fill_test(n) and S.fill_test(n)[0] == "ne" and "node_face_connectivity" in norm(S.fill_test(n)[1]) for e in nodes for n in ast.walk(e) if isinstance(n, ast.Compare))
        summed = any(isinstance(n, ast.Call) and (dotted(n.func) or [""])[-1] == "sum" and any(k.arg == "axis" and norm(k.value) == "1" for k in n.keywords) for e in nodes for n in ast.walk(e))
        ok = has_ne and summed
    if ok:
        run.holds("F-TABLE/dual-roles", c, where(f), "n_edges = count of non-fill entries along each node's row")
    else:
        run.violation("F-TABLE/dual-roles", c, where(f), "the number of faces around a node is not the count of non-fill entries of its node_face_connectivity row")


def _construct_faces(run, P):
    f = P.func(f"{DUAL}:construct_faces")
    fn = f.node
    # table rows
    alloc = None
    returned = {norm(r.value) for r in ast.walk(fn) if isinstance(r, ast.Return) and r.value is not None}
    for st in iter_stmts(fn.body):
        if isinstance(st, ast.Assign) and isinstance(st.targets[0], ast.Name) and isinstance(st.value, ast.Call) and (dotted(st.value.func) or [""])[-1] == "full" and st.targets[0].id in returned:
            alloc = st
    c = f"{f.key}:rows"
    if alloc is None:
        run.incomplete("IDX/dual-rows", c, where(f), "allocation of the dual table not found")
        return
    tname = alloc.targets[0].id
    sh = alloc.value.args[0]
    rows = sh.elts[0] if isinstance(sh, ast.Tuple) else None
    fill = alloc.value.args[1] if len(alloc.value.args) > 1 else None
    dt = next((k.value for k in alloc.value.keywords if k.arg == "dtype"), None)
    probs = []
    rows_txt = norm(rows) if rows is not None else ""
    thr_alloc = None
    if isinstance(rows, ast.Call) and (dotted(rows.func) or [""])[-1] == "sum" and rows.args and isinstance(rows.args[0], ast.Compare) and norm(rows.args[0].left) == "n_edges":
        op, k = rows.args[0].ops[0], rows.args[0].comparators[0]
        if isinstance(k, ast.Constant):
            thr_alloc = k.value + 1 if isinstance(op, ast.Gt) else k.value if isinstance(op, ast.GtE) else None
    if thr_alloc is None:
        probs.append(f"row count is {rows_txt}: expected the number of nodes with enough faces (np.sum(n_edges > 2))")
    if not S.is_fill(fill):
        probs.append("table not initialised with INT_FILL_VALUE")
    if not S.is_intdtype(dt):
        probs.append("table not INT_DTYPE")
    # skip test and dense row numbering
    from ..astutil import Resolver, InterDefs
    RZ = Resolver(fn)
    loop = next((s for s in iter_stmts(fn.body) if isinstance(s, ast.For)), None)
    skip = None
    unknown = []
    rowvar, filt_thr = None, None
    if loop is not None:
        ivar = norm(loop.target)
        # `for r, i in enumerate(NODES)` / `for i in NODES` where NODES = np.flatnonzero(n_edges[...] >= K) (or np.where(...)[0]): the filter IS the skip test,
        # and the enumerate index numbers the constructed faces densely by construction
        it_ = loop.iter
        tgt_ = loop.target
        if isinstance(it_, ast.Call) and (dotted(it_.func) or [""])[-1] == "enumerate" and it_.args and isinstance(tgt_, ast.Tuple) and len(tgt_.elts) == 2 and all(isinstance(e_, ast.Name) for e_ in tgt_.elts):
            rowvar, ivar = tgt_.elts[0].id, tgt_.elts[1].id
            it_ = it_.args[0]
        src_ = RZ.resolve(it_) if isinstance(it_, ast.Name) else it_
        if isinstance(src_, ast.Name):
            d_ = RZ.defs.defs.get(src_.id, [])
            src_ = d_[0][0] if len(d_) == 1 else src_
        if isinstance(src_, ast.Subscript) and isinstance(src_.value, ast.Call) and (dotted(src_.value.func) or [""])[-1] in ("where", "nonzero"):
            src_ = ast.Call(func=ast.Name(id="flatnonzero", ctx=ast.Load()), args=src_.value.args, keywords=[])
        if isinstance(src_, ast.Call) and (dotted(src_.func) or [""])[-1] == "flatnonzero" and src_.args and isinstance(src_.args[0], ast.Compare) and len(src_.args[0].ops) == 1:
            cmp_ = src_.args[0]
            lhs_ = cmp_.left.value if isinstance(cmp_.left, ast.Subscript) and isinstance(cmp_.left.slice, ast.Slice) and cmp_.left.slice.lower is None else cmp_.left
            k_ = cmp_.comparators[0]
            if norm(lhs_) == "n_edges" and isinstance(k_, ast.Constant):
                filt_thr = k_.value if isinstance(cmp_.ops[0], ast.GtE) else k_.value + 1 if isinstance(cmp_.ops[0], ast.Gt) else None
        if filt_thr is not None:
            skip = (filt_thr, ast.If(test=ast.Constant(value=False), body=[], orelse=[], lineno=loop.lineno, col_offset=0))
        for s in ([] if filt_thr is not None else loop.body):
            if isinstance(s, ast.If) and isinstance(s.test, ast.Compare) and len(s.test.ops) == 1 and RZ.norm(s.test.left) == f"n_edges[{ivar}]" and any(isinstance(x, ast.Continue) for x in s.body) and isinstance(s.test.comparators[0], ast.Constant):
                op, k = s.test.ops[0], s.test.comparators[0]
                thr = k.value if isinstance(op, ast.Lt) else k.value + 1 if isinstance(op, ast.LtE) else None
                skip = (thr, s)
    if skip is None:
        probs.append("nodes with fewer than three faces are not skipped")
    else:
        thr, s = skip
        if thr != 3 or thr_alloc not in (None, 3) or (thr_alloc is not None and thr != thr_alloc):
            probs.append(f"nodes are skipped below {thr} faces but the table has rows for nodes with at least {thr_alloc}: a dual face needs at least 3 corners and the two counts must agree")
        stores = [x for x in iter_stmts(loop.body) if isinstance(x, ast.Assign) and isinstance(x.targets[0], ast.Subscript) and norm(x.targets[0].value) == tname]
        incs_skip = [x for x in s.body if isinstance(x, ast.AugAssign) and isinstance(x.op, ast.Add) and norm(x.value) == "1" and isinstance(x.target, ast.Name)]
        if not stores:
            unknown.append("no store into the dual table found in the loop")
        for x in stores:
            sl = x.targets[0].slice
            pl = S.poly(sl)
            if isinstance(sl, ast.Name) and rowvar is not None and sl.id == rowvar:
                pass     # enumerate index over the filtered nodes: dense by construction
            elif isinstance(sl, ast.Name) and sl.id != ivar:
                # idiom B: a row counter that starts at 0 and advances once for every node that is NOT skipped
                r = sl.id
                init = [st_ for st_ in iter_stmts(fn.body) if isinstance(st_, ast.Assign) and norm(st_.targets[0]) == r and st_.lineno < loop.lineno]
                incs = [st_ for st_ in iter_stmts(loop.body) if isinstance(st_, ast.AugAssign) and norm(st_.target) == r]
                in_skip = [st_ for st_ in incs if any(st_ is y for y in ast.walk(s))]
                if not (init and norm(init[-1].value) == "0"):
                    probs.append(f"row counter {r} does not start at 0")
                if in_skip:
                    probs.append(f"row counter {r} also advances for skipped nodes: rows of the table are left unwritten and later rows overflow")
                good = [st_ for st_ in incs if isinstance(st_.op, ast.Add) and norm(st_.value) == "1" and st_.lineno > s.lineno and not any(st_ is y for y in ast.walk(s))]
                if len(good) != 1 or len(incs) != 1:
                    (unknown if incs else probs).append(f"row counter {r} is not advanced exactly once per constructed face")
                elif good[0].lineno < x.lineno and any(good[0] is y for y in loop.body):
                    probs.append(f"row counter {r} is advanced before the row is written: row 0 stays empty and the last row overflows")
            elif len(pl or {}) == 2 and pl.get((ivar,)) == 1:
                # idiom A: i - (number of nodes skipped so far)
                cname = next((k_[0] for k_ in pl if k_ != (ivar,)), None)
                if pl.get((cname,)) != -1:
                    probs.append(f"rows are stored at {norm(sl)}, not at {ivar} - (skipped so far)")
                elif not any(norm(i_.target) == cname for i_ in incs_skip):
                    probs.append("skipped nodes are not counted: later rows are written at the wrong position")
                else:
                    other = [st_ for st_ in iter_stmts(loop.body) if isinstance(st_, ast.AugAssign) and norm(st_.target) == cname and not any(st_ is y for y in ast.walk(s))]
                    if other:
                        probs.append(f"{cname} also changes outside the skip branch")
            elif isinstance(sl, ast.Name) and sl.id == ivar:
                probs.append(f"rows are stored at {ivar}: after a skipped node the table (one row per node with >= 3 faces) overflows / leaves gaps")
            else:
                unknown.append(f"row position {norm(sl)[:40]} not recognised")
    if probs:
        run.violation("IDX/dual-rows", c, where(f, alloc), "; ".join(probs))
    elif unknown:
        run.incomplete("IDX/dual-rows", c, where(f, alloc), "idiom not recognised: " + "; ".join(unknown))
    else:
        run.holds("IDX/dual-rows", c, where(f, alloc), "one row per primal node with >= 3 faces, INT_FILL_VALUE/INT_DTYPE, rows numbered densely over the nodes that are not skipped")
    # valid prefix of the node's faces
    c = f"{f.key}:valid-prefix"
    ivar = (ivar if loop is not None else "i")
    reads = [n for n in ast.walk(fn) if isinstance(n, ast.Subscript) and isinstance(n.ctx, ast.Load) and "node_face_connectivity" in norm(n.value) and not norm(n).startswith("node_face_connectivity[0]")
             and not (isinstance(n.slice, ast.Name) and n.slice.id == ivar and any(isinstance(p_, ast.Subscript) and p_.value is n for p_ in ast.walk(fn)))]
    pref = [n for n in reads if isinstance(n.slice, ast.Slice)]
    if pref and all(RZ.norm(n.slice.upper) == f"n_edges[{ivar}]" and (n.slice.lower is None or norm(n.slice.lower) == "0") and n.slice.step is None for n in pref if n.slice.upper is not None) and all(n.slice.upper is not None for n in pref):
        run.holds("IDX/fill-safety", c, where(f, pref[0]), "only the first n_edges[i] entries (the node's real faces) are used as dual node indices")
    elif pref or any(norm(n) == f"node_face_connectivity[{ivar}]" for n in reads):
        run.violation("IDX/fill-safety", c, where(f), "the node's row of node_face_connectivity is not restricted to its first n_edges[i] entries: the fill value is used as a dual node index")
    else:
        run.incomplete("IDX/fill-safety", c, where(f), "read of the node's row of node_face_connectivity not recognised")
    # arguments of _order_nodes
    g = P.func(f"{DUAL}:_order_nodes")
    call = next((n for n in ast.walk(fn) if isinstance(n, ast.Call) and (dotted(n.func) or [""])[-1] == "_order_nodes"), None)
    c = f"{f.key}:call(_order_nodes)"
    if call is None:
        run.incomplete("F-TABLE/dual-roles", c, where(f), "call of _order_nodes not found")
        return
    gp = g.params()
    bound = dict(zip(gp, call.args))
    bound.update({k.arg: k.value for k in call.keywords if k.arg})
    # roles by the callee's parameter names; locals resolved
    ring = norm(bound["temp_face"]) if "temp_face" in bound else None
    want = {"n_edges": {f"n_edges[{ivar}]"}, "dual_node_x": {"dual_node_x"}, "dual_node_y": {"dual_node_y"}, "dual_node_z": {"dual_node_z"}, "max_edges": {"max_edges", "len(node_face_connectivity[0])", "node_face_connectivity.shape[1]"}}
    wrong = {p_: RZ.norm(bound[p_]) for p_, w in want.items() if p_ in bound and RZ.norm(bound[p_]) not in w}
    missing = [p_ for p_ in gp if p_ not in bound]
    if missing:
        run.incomplete("F-TABLE/dual-roles", c, where(f, call), f"parameters {missing} of _order_nodes are not bound at the call")
    elif wrong:
        run.violation("F-TABLE/dual-roles", c, where(f, call), f"_order_nodes called with {wrong}")
    else:
        run.holds("F-TABLE/dual-roles", c, where(f, call), "count, dual node coordinates and row width bound to the parameters of those roles")
    # node_central = primal node i ; node_0 = first dual node of the ring
    c = f"{f.key}:reference-vectors"

    def vec_of(e):
        """[x, y, z component texts] of np.array([a, b, c]) (locals resolved)"""
        e = RZ.resolve(e)
        nodes = [e]
        if isinstance(e, ast.Name):
            nodes = [v for v, _i, _l in RZ.defs.defs.get(e.id, [])]
        for v in nodes:
            if isinstance(v, ast.Call) and (dotted(v.func) or [""])[-1] in ("array", "asarray") and v.args and isinstance(v.args[0], (ast.List, ast.Tuple)) and len(v.args[0].elts) == 3:
                return [RZ.norm(x) for x in v.args[0].elts]
        return None
    vc = vec_of(bound["node_central"]) if "node_central" in bound else None
    v0 = vec_of(bound["node_0"]) if "node_0" in bound else None
    if vc is None or v0 is None or ring is None:
        run.incomplete("F-TABLE/dual-roles", c, where(f, call), "ring centre / reference corner are not np.array([x, y, z]) literals")
    else:
        first = [f"dual_node_{a_}[{ring}[0]]" for a_ in "xyz"]
        if vc == [f"node_{a_}[{ivar}]" for a_ in "xyz"] and v0 == first:
            run.holds("F-TABLE/dual-roles", c, where(f, call), "ring centre = primal node (x, y, z); reference corner = first dual node (x, y, z)")
        else:
            run.violation("F-TABLE/dual-roles", c, where(f, call), f"ring centre {vc} / reference corner {v0} are not (x, y, z) of the primal node / first dual node of the ring")


def _order_nodes(run, P):
    """Read over _order_nodes AND the functions of its module it calls (extracted kernels), with def-use followed across those calls; names are not relied on."""
    from ..astutil import InterDefs
    f = P.func(f"{DUAL}:_order_nodes")
    fn = f.node
    I = InterDefs(P, f)
    R = "F-PATH/orientation-sign"

    def calls_behind(g, e):
        return [(h, n) for h, x in I.closure(g, e) for n in ast.walk(x) if isinstance(n, ast.Call)]

    def cname(n):
        return (dotted(n.func) or [""])[-1]
    # ---- the side test: sign of the triple product only
    c = f"{f.key}:side-test"
    side = None
    for g, st in I.stmts():
        if isinstance(st, ast.If) and isinstance(st.test, ast.Compare) and len(st.test.ops) == 1 and isinstance(st.test.left, ast.Name):
            cs = calls_behind(g, st.test.left)
            dots = [(h, n) for h, n in cs if cname(n) == "dot"]
            if any(any(cname(m) == "cross" for a_ in n.args for _h, m in calls_behind(h, a_)) for h, n in dots):
                side = (g, st)
    if side is None:
        run.incomplete(R, c, where(f), "side test (dot of the reference normal with the corner direction) not found")
    else:
        g, st = side
        rhs = st.test.comparators[0]
        zero = isinstance(rhs, ast.Constant) and rhs.value in (0, 0.0)
        op_ok = isinstance(st.test.ops[0], (ast.Gt, ast.GtE, ast.Lt, ast.LtE))
        if zero and op_ok:
            def reflects(v):
                t = norm(v).replace(" ", "").replace("2*np.pi", "2.0*np.pi").replace("2*pi", "2.0*np.pi").replace("2.0*pi", "2.0*np.pi")
                return (t.startswith("-") and t.endswith("+2.0*np.pi")) or t.startswith("2.0*np.pi-")
            refl = any(isinstance(s_, ast.Assign) and reflects(s_.value) for s_ in st.body) or any(isinstance(s_, ast.Return) and s_.value is not None and reflects(s_.value) for s_ in st.body)
            if refl:
                run.holds(R, c, where(g, st), "side decided by the sign of the triple product (compared with 0); angles on that side reflected to 2 pi - angle")
            elif any(isinstance(s_, (ast.Assign, ast.Return, ast.AugAssign)) for s_ in st.body):
                run.violation(R, c, where(g, st), "corners on the far side are not reflected to 2 pi - angle: the ring is ordered by the unsigned angle only")
            else:
                run.incomplete(R, c, where(g, st), "what happens on the far side is not recognised")
        else:
            run.violation(R, c, where(g, st),
                          f"the side of a corner is decided by {norm(st.test)}: the triple product scales with the square of the cell size, so anything but a comparison with 0 "
                          "(an absolute tolerance) puts every corner of a fine mesh on one side and breaks the counter-clockwise order")
    # ---- cosine limited before arccos
    c = f"{f.key}:arccos-domain"
    acs = [(g, n) for g, n in I.walk() if isinstance(n, ast.Call) and cname(n) == "arccos" and n.args]
    if not acs:
        run.incomplete(R, c, where(f), "no arccos found")
    else:
        bad = None
        for g, n in acs:
            a0 = n.args[0]
            limited = any(cname(m) in ("clip", "minimum", "fmin") for _h, m in calls_behind(g, a0))
            if isinstance(a0, ast.Name):
                for st in iter_stmts(g.node.body):
                    if isinstance(st, ast.If) and isinstance(st.test, ast.Compare) and len(st.test.ops) == 1 and norm(st.test.left) == a0.id and isinstance(st.test.ops[0], (ast.Gt, ast.GtE)) \
                            and any(isinstance(s_, ast.Assign) and norm(s_.targets[0]) == a0.id for s_ in st.body) and st.lineno < n.lineno:
                        limited = True
            if not limited:
                bad = (g, n)
        if bad:
            run.violation(R, c, where(bad[0], bad[1]), "cosine not limited to [-1, 1] before arccos: round-off above 1 yields NaN angles")
        else:
            run.holds(R, c, where(acs[0][0], acs[0][1]), "cosine limited to 1 before arccos")
    # ---- selection: strictly increasing angles
    c = f"{f.key}:selection"
    sels = [(g, n, st) for g, st in I.stmts() if isinstance(st, ast.If) for n in [st.test] if isinstance(n, ast.Compare) and len(n.ops) == 2 and isinstance(n.comparators[0], ast.Subscript)]
    if not sels:
        run.incomplete(R, c, where(f), "corner selection  current < angle[k] < best-so-far  not found")
    else:
        g, n, st = sels[0]
        mid, best = n.comparators[0], n.comparators[1]
        strict = all(isinstance(o, ast.Lt) for o in n.ops)
        upd = any(isinstance(s_, ast.Assign) and norm(s_.targets[0]) == norm(best) and norm(s_.value) == norm(mid) for s_ in st.body)
        if strict and upd and isinstance(best, ast.Name):
            run.holds(R, c, where(g, n), "next corner = smallest angle strictly greater than the current one")
        elif not strict:
            run.violation(R, c, where(g, n), f"corner selection is {norm(n)}: expected current < angle[k] < best-so-far (strict on both sides)")
        elif not upd:
            run.violation(R, c, where(g, n), f"the best-so-far bound {norm(best)} is not lowered to the selected angle: the LAST admissible corner is taken, not the nearest")
        else:
            run.incomplete(R, c, where(g, n), f"corner selection {norm(n)} not recognised")
    # ---- padding: the returned row is FILL-initialised with max_edges slots and filled from slot 0 with the ring's first entry
    c = f"{f.key}:padding"
    rets = [r for r in ast.walk(fn) if isinstance(r, ast.Return) and r.value is not None]
    params = f.params()
    if not rets or not all(isinstance(r.value, ast.Name) for r in rets):
        run.incomplete("IDX/dual-rows", c, where(f), "returned row is not a local array")
    else:
        row = rets[0].value.id
        ff = S.assigns(fn, row)
        txt = norm(ff[0].value) if ff else ""
        ok = bool(ff) and "INT_FILL_VALUE" in txt and "max_edges" in txt and "INT_DTYPE" in txt
        first = any(isinstance(st, ast.Assign) and norm(st.targets[0]) == f"{row}[0]" and norm(st.value) == f"{params[0]}[0]" for st in iter_stmts(fn.body))
        if ok and first:
            run.holds("IDX/dual-rows", c, where(f, ff[0]), "ring written from slot 0 into a row of INT_FILL_VALUE (INT_DTYPE, max_edges wide)")
        elif ff and isinstance(ff[0].value, ast.Call) and (dotted(ff[0].value.func) or [""])[-1] in ("array", "full", "empty", "zeros", "ones"):
            run.violation("IDX/dual-rows", c, where(f, ff[0]), "ring row is not an INT_DTYPE row of INT_FILL_VALUE filled from slot 0")
        else:
            run.incomplete("IDX/dual-rows", c, where(f), "allocation of the returned row not recognised")
    run.stats.setdefault("order_nodes_scope", [g.key for g in I.scope])


def _siblings(run, P):
    keys = [f"{GRID}:Grid.get_dual", "uxarray/core/dataarray.py:UxDataArray.get_dual", "uxarray/core/dataset.py:UxDataset.get_dual"]
    for key in keys:
        f = P.func(key)
        gexpr = "self" if key.startswith(GRID) else "self.uxgrid"
        # duplicate guard
        c = f"{f.key}:duplicate-node-guard"
        g = [st for st in iter_stmts(f.node.body) if isinstance(st, ast.If) and "_check_duplicate_nodes_indices" in norm(st.test) and any(isinstance(x, ast.Raise) for x in st.body)]
        if g and norm(g[0].test) == f"_check_duplicate_nodes_indices({gexpr})":
            run.holds("F-TABLE/dual-siblings", c, where(f, g[0]), "duplicate nodes raise")
        else:
            run.violation("F-TABLE/dual-siblings", c, where(f), "the duplicate-node guard is missing or tests another grid")
        # construction: in the method itself, or in a package function the method hands its grid to (a helper shared by the three siblings)
        from ..loader import FuncInfo
        c = f"{f.key}:construction"
        cands = [(f, gexpr)]
        for n in ast.walk(f.node):
            if isinstance(n, ast.Call):
                t = P.resolve_expr(f.module, n.func, f)
                if isinstance(t, FuncInfo) and t.cls is None:
                    for i, a_ in enumerate(n.args):
                        if norm(a_) == gexpr and i < len(t.params()):
                            cands.append((t, t.params()[i]))
        verdict = None
        for h, ge in cands:
            cd = next((n for n in ast.walk(h.node) if isinstance(n, ast.Call) and (dotted(n.func) or [""])[-1] == "construct_dual"), None)
            ft = next((n for n in ast.walk(h.node) if isinstance(n, ast.Call) and isinstance(n.func, ast.Attribute) and n.func.attr == "from_topology"), None)
            if cd is None and ft is None:
                continue
            probs = []
            if cd is None or not any(k.arg == "grid" and norm(k.value) == ge for k in cd.keywords) and not (cd.args and norm(cd.args[0]) == ge):
                probs.append("construct_dual is not applied to this object's grid")
            if ft is None:
                probs.append("from_topology not called")
            else:
                from ..astutil import Resolver
                RZh = Resolver(h.node)
                bound = [RZh.norm(x) for x in ft.args]
                kws = {k.arg: RZh.norm(k.value) for k in ft.keywords if k.arg}
                lon = bound[0] if bound else kws.get("node_lon")
                lat = bound[1] if len(bound) > 1 else kws.get("node_lat")
                conn = bound[2] if len(bound) > 2 else kws.get("face_node_connectivity")
                if [lon, lat] != [f"{ge}.face_lon.values", f"{ge}.face_lat.values"]:
                    probs.append(f"dual nodes built from {[lon, lat]}: expected the primal face centres (face_lon, face_lat) in that order")
                from ..astutil import LocalDefs
                conn_ok = conn is not None and ("dual_node_face_conn" in conn or "construct_dual" in conn or any(isinstance(x, ast.Call) and (dotted(x.func) or [""])[-1] == "construct_dual"
                                                                                       for e in LocalDefs(h.node).closure(ast.parse(conn, mode="eval").body)[0] for x in ast.walk(e)))
                if not conn_ok:
                    probs.append("dual connectivity not passed")
            verdict = (h, ft or cd, probs)
            break
        if verdict is None:
            if len(cands) > 1:
                run.incomplete("F-TABLE/dual-siblings", c, where(f), "the construction of the dual grid is delegated to a function this rule does not read")
            else:
                run.violation("F-TABLE/dual-siblings", c, where(f), "construct_dual is not applied to this object's grid; from_topology not called")
        elif verdict[2]:
            run.violation("F-TABLE/dual-siblings", c, where(verdict[0], verdict[1]), "; ".join(verdict[2]))
        else:
            run.holds("F-TABLE/dual-siblings", c, where(verdict[0], verdict[1]), "dual = from_topology(face_lon, face_lat, construct_dual(grid))")
    _get_dual_dims(run, P, partial_rule=False)
