"""C18  The dual mesh swaps nodes and faces with correct ring order.

Decided: JIT-independent comparisons in construct_faces/_order_nodes; dual node coordinates are the primal face centres and dual connectivity values are primal face indices read from the valid prefix of node_face_connectivity;
rows are exactly the primal nodes with at least three faces (count, skip and row offset agree); arguments reach construct_faces/_order_nodes in the roles their parameters name;
the angular sort uses the SIGN of the side product only (no absolute tolerance on a quantity that scales with the cell size), reflects angles on the positive side to (pi, 2 pi) and picks strictly increasing angles;
rows are padded at the end with INT_FILL_VALUE in INT_DTYPE; the three get_dual siblings agree (duplicate-node guard, construction from face_lon/face_lat in that order, dimension involution by name, data attached to the dual grid)."""

import ast

from ..astutil import LocalDefs, iter_stmts, norm, where
from ..loader import dotted
from ..rules import njit
from ..rules import shape as S
from .c10 import _get_dual_dims

DUAL = "uxarray/grid/dual.py"
GRID = "uxarray/grid/grid.py"


def check(run):
    P = run.program
    run.explanation = (
        "Structural reading of grid/dual.py and the three get_dual methods. Roles: each positional argument of construct_faces/_order_nodes is compared with the parameter it binds to (same coordinate family and component). "
        "Row bookkeeping: the table has sum(n_edges > 2) rows, nodes with n_edges < 3 are skipped and counted, and rows are written at i - (number skipped). "
        "Angular sort: the comparison that decides on which side of the reference great circle a corner lies must compare the scalar triple product with the literal 0 (sign test): the product scales with the square of the cell size, "
        "so any absolute tolerance misorders fine meshes. Counter-clockwise order for every mesh (geometry) is NOT decided."
    )
    run.rule_text = "F-NJIT + role agreement of call arguments + row bookkeeping + sign-only orientation test + sibling agreement"
    run.assumptions = ["node_face_connectivity rows list the faces of a node first and the fill value after them (C03)"]
    n = njit.check_identity_comparisons(run, P, files=[DUAL])
    _construct_dual(run, P)
    _construct_faces(run, P)
    _order_nodes(run, P)
    _siblings(run, P)


def _construct_dual(run, P):
    f = P.func(f"{DUAL}:construct_dual")
    defs = LocalDefs(f.node)
    call = next((n for n in ast.walk(f.node) if isinstance(n, ast.Call) and (dotted(n.func) or [""])[-1] == "construct_faces"), None)
    c = f"{f.key}:call(construct_faces)"
    if call is None:
        run.incomplete("F-TABLE/dual-roles", c, where(f), "call of construct_faces not found")
        return
    g = P.func(f"{DUAL}:construct_faces")
    params = g.params()
    want = {
        "n_node": {"grid.n_node"},
        "dual_node_x": {"grid.face_x"}, "dual_node_y": {"grid.face_y"}, "dual_node_z": {"grid.face_z"},
        "node_x": {"grid.node_x"}, "node_y": {"grid.node_y"}, "node_z": {"grid.node_z"},
        "node_face_connectivity": {"grid.node_face_connectivity"},
    }
    probs = []
    for p, a in zip(params, call.args):
        if p not in want:
            continue
        nodes, _ = defs.closure(a)
        attrs = {norm(S.strip_copy(n)) for e in nodes for n in ast.walk(e) if isinstance(n, ast.Attribute) and isinstance(n.value, ast.Name) and n.value.id == f.params()[0]}
        attrs |= {norm(n.value) for e in nodes for n in ast.walk(e) if isinstance(n, ast.Attribute) and n.attr == "values" and isinstance(n.value, ast.Attribute)}
        if not (want[p] & attrs):
            probs.append(f"parameter {p} receives {norm(a)} (from {sorted(attrs)}); expected {sorted(want[p])}")
    if len(call.args) != len(params):
        probs.append(f"{len(call.args)} arguments for {len(params)} parameters")
    if probs:
        run.violation("F-TABLE/dual-roles", c, where(f, call), "; ".join(probs))
    else:
        run.holds("F-TABLE/dual-roles", c, where(f, call), "dual nodes = primal face centres (x, y, z), primal nodes, node_face_connectivity passed in the roles construct_faces names")
    # all per-node arguments run over the SAME node axis: none of them (or all of them, by one mask) may be row-filtered
    cx = f"{f.key}:node-axis-consistent"
    per_node = [p_ for p_ in params if p_ in ("n_edges", "node_face_connectivity", "node_x", "node_y", "node_z")]
    filt = {}
    for p_, a in zip(params, call.args):
        if p_ in per_node:
            nodes, _ = defs.closure(a)
            masks = sorted({norm(n.slice) for e in nodes for n in ast.walk(e) if isinstance(n, ast.Subscript) and isinstance(n.slice, ast.Name) and not norm(n.slice).isdigit()
                            and any(isinstance(v, ast.Compare) for v, _i, _l in defs.defs.get(norm(n.slice), []))})
            filt[p_] = tuple(masks)
    if len(set(filt.values())) <= 1:
        run.holds("IDX/dual-rows", cx, where(f, call), f"per-node arguments {sorted(filt)} share one node axis")
    else:
        run.violation("IDX/dual-rows", cx, where(f, call), f"per-node arguments run over different node sets: {filt} - after a skipped node each dual face is ordered about the wrong primal node")
    # n_edges = number of non-fill entries per row
    c = f"{f.key}:faces-per-node"
    ok = False
    for st in S.assigns(f.node, "n_edges"):
        nodes, _ = defs.closure(st.value)
        has_ne = any(S.fill_test(n) and S.fill_test(n)[0] == "ne" and "node_face_connectivity" in norm(S.fill_test(n)[1]) for e in nodes for n in ast.walk(e) if isinstance(n, ast.Compare))
        summed = any(isinstance(n, ast.Call) and (dotted(n.func) or [""])[-1] == "sum" and any(k.arg == "axis" and norm(k.value) == "1" for k in n.keywords) for e in nodes for n in ast.walk(e))
        ok = has_ne and summed
    if ok:
        run.holds("F-TABLE/dual-roles", c, where(f), "n_edges = count of non-fill entries along each node's row")
    else:
        run.violation("F-TABLE/dual-roles", c, where(f), "the number of faces around a node is not the count of non-fill entries of its node_face_connectivity row")


def _construct_faces(run, P):
    f = P.func(f"{DUAL}:construct_faces")
    fn = f.node
    # table rows
    alloc = None
    for st in iter_stmts(fn.body):
        if isinstance(st, ast.Assign) and isinstance(st.targets[0], ast.Name) and isinstance(st.value, ast.Call) and (dotted(st.value.func) or [""])[-1] == "full":
            alloc = st
    c = f"{f.key}:rows"
    if alloc is None:
        run.incomplete("IDX/dual-rows", c, where(f), "allocation of the dual table not found")
        return
    tname = alloc.targets[0].id
    sh = alloc.value.args[0]
    rows = sh.elts[0] if isinstance(sh, ast.Tuple) else None
    fill = alloc.value.args[1] if len(alloc.value.args) > 1 else None
    dt = next((k.value for k in alloc.value.keywords if k.arg == "dtype"), None)
    probs = []
    rows_txt = norm(rows) if rows is not None else ""
    thr_alloc = None
    if isinstance(rows, ast.Call) and (dotted(rows.func) or [""])[-1] == "sum" and rows.args and isinstance(rows.args[0], ast.Compare) and norm(rows.args[0].left) == "n_edges":
        op, k = rows.args[0].ops[0], rows.args[0].comparators[0]
        if isinstance(k, ast.Constant):
            thr_alloc = k.value + 1 if isinstance(op, ast.Gt) else k.value if isinstance(op, ast.GtE) else None
    if thr_alloc is None:
        probs.append(f"row count is {rows_txt}: expected the number of nodes with enough faces (np.sum(n_edges > 2))")
    if not S.is_fill(fill):
        probs.append("table not initialised with INT_FILL_VALUE")
    if not S.is_intdtype(dt):
        probs.append("table not INT_DTYPE")
    # skip test and correction
    loop = next((s for s in iter_stmts(fn.body) if isinstance(s, ast.For)), None)
    skip = None
    if loop is not None:
        for s in loop.body:
            if isinstance(s, ast.If) and isinstance(s.test, ast.Compare) and "n_edges" in norm(s.test.left) and any(isinstance(x, ast.Continue) for x in s.body):
                op, k = s.test.ops[0], s.test.comparators[0]
                thr = k.value if isinstance(op, ast.Lt) else k.value + 1 if isinstance(op, ast.LtE) else None
                inc = any(isinstance(x, ast.AugAssign) and isinstance(x.op, ast.Add) and norm(x.value) == "1" for x in s.body)
                skip = (thr, inc, s, next((norm(x.target) for x in s.body if isinstance(x, ast.AugAssign)), None))
    if skip is None:
        probs.append("nodes with fewer than three faces are not skipped")
    else:
        thr, inc, s, cname = skip
        if thr != 3 or thr_alloc not in (None, 3) or (thr_alloc is not None and thr != thr_alloc):
            probs.append(f"nodes are skipped below {thr} faces but the table has rows for nodes with at least {thr_alloc}: a dual face needs at least 3 corners and the two counts must agree")
        if not inc:
            probs.append("skipped nodes are not counted: later rows are written at the wrong position")
        # row written at i - correction
        ivar = norm(loop.target)
        stores = [x for x in iter_stmts(loop.body) if isinstance(x, ast.Assign) and isinstance(x.targets[0], ast.Subscript) and norm(x.targets[0].value) == tname]
        if not stores or not all(S.poly(x.targets[0].slice) == {(ivar,): 1, (cname,): -1} for x in stores):
            probs.append(f"rows are stored at {[norm(x.targets[0].slice) for x in stores]}, not at {ivar} - {cname}")
    if probs:
        run.violation("IDX/dual-rows", c, where(f, alloc), "; ".join(probs))
    else:
        run.holds("IDX/dual-rows", c, where(f, alloc), "one row per primal node with >= 3 faces, INT_FILL_VALUE/INT_DTYPE, written at i - (nodes skipped so far)")
    # valid prefix of the node's faces
    c = f"{f.key}:valid-prefix"
    pref = [n for n in ast.walk(fn) if isinstance(n, ast.Subscript) and isinstance(n.slice, ast.Slice) and "node_face_connectivity" in norm(n.value)]
    if pref and norm(pref[0].slice.upper).startswith("n_edges[") and (pref[0].slice.lower is None or norm(pref[0].slice.lower) == "0"):
        run.holds("IDX/fill-safety", c, where(f, pref[0]), "only the first n_edges[i] entries (the node's real faces) are used as dual node indices")
    else:
        run.violation("IDX/fill-safety", c, where(f), "the node's row of node_face_connectivity is not restricted to its first n_edges[i] entries: the fill value is used as a dual node index")
    # arguments of _order_nodes
    g = P.func(f"{DUAL}:_order_nodes")
    call = next((n for n in ast.walk(fn) if isinstance(n, ast.Call) and (dotted(n.func) or [""])[-1] == "_order_nodes"), None)
    c = f"{f.key}:call(_order_nodes)"
    if call is None:
        run.incomplete("F-TABLE/dual-roles", c, where(f), "call of _order_nodes not found")
        return
    got = [norm(a) for a in call.args]
    want = ["temp_face", "node_0", "node_central", "n_edges[i]", "dual_node_x", "dual_node_y", "dual_node_z", "max_edges"]
    if got == want and g.params() == ["temp_face", "node_0", "node_central", "n_edges", "dual_node_x", "dual_node_y", "dual_node_z", "max_edges"]:
        run.holds("F-TABLE/dual-roles", c, where(f, call), "arguments bound to the parameters of the same name")
    else:
        run.violation("F-TABLE/dual-roles", c, where(f, call), f"_order_nodes{tuple(g.params())} called with {got}")
    # node_central = primal node i ; node_0 = first dual node of the ring
    defs = LocalDefs(fn)
    c = f"{f.key}:reference-vectors"
    nc = S.assigns(fn, "node_central")
    n0 = S.assigns(fn, "node_0")
    ok = nc and [norm(e) for e in nc[0].value.args[0].elts] == ["node_x[i]", "node_y[i]", "node_z[i]"] and n0 and [norm(e) for e in n0[0].value.args[0].elts] == ["dual_node_x[temp_face[0]]", "dual_node_y[temp_face[0]]", "dual_node_z[temp_face[0]]"]
    if ok:
        run.holds("F-TABLE/dual-roles", c, where(f, nc[0]), "ring centre = primal node (x, y, z); reference corner = first dual node (x, y, z)")
    else:
        run.violation("F-TABLE/dual-roles", c, where(f), "ring centre / reference corner are not built as (x, y, z) of the primal node / first dual node")


def _order_nodes(run, P):
    f = P.func(f"{DUAL}:_order_nodes")
    fn = f.node
    defs = LocalDefs(fn)
    # the side test: sign of the triple product only
    c = f"{f.key}:side-test"
    side = None
    for st in iter_stmts(fn.body):
        if isinstance(st, ast.If) and isinstance(st.test, ast.Compare) and len(st.test.ops) == 1:
            l = st.test.left
            if isinstance(l, ast.Name):
                nodes, _ = defs.closure(l)
                if any(isinstance(n, ast.Call) and (dotted(n.func) or [""])[-1] == "dot" and any("cross" in norm(a) for a in n.args) for e in nodes for n in ast.walk(e)):
                    side = st
    if side is None:
        run.incomplete("F-PATH/orientation-sign", c, where(f), "side test (dot of the reference normal with the corner direction) not found")
    else:
        rhs = side.test.comparators[0]
        zero = isinstance(rhs, ast.Constant) and rhs.value in (0, 0.0)
        op_ok = isinstance(side.test.ops[0], (ast.Gt, ast.GtE, ast.Lt, ast.LtE))
        if zero and op_ok:
            # reflection 2 pi - angle on that side
            refl = any(isinstance(s, ast.Assign) and "2.0 * np.pi" in norm(s.value).replace("2 * np.pi", "2.0 * np.pi") and norm(s.value).lstrip().startswith("-") for s in side.body)
            if refl:
                run.holds("F-PATH/orientation-sign", c, where(f, side), "side decided by the sign of the triple product (compared with 0); angles on that side reflected to 2 pi - angle")
            else:
                run.violation("F-PATH/orientation-sign", c, where(f, side), "corners on the far side are not reflected to 2 pi - angle: the ring is ordered by the unsigned angle only")
        else:
            run.violation("F-PATH/orientation-sign", c, where(f, side),
                          f"the side of a corner is decided by {norm(side.test)}: the triple product scales with the square of the cell size, so anything but a comparison with 0 "
                          "(an absolute tolerance) puts every corner of a fine mesh on one side and breaks the counter-clockwise order")
    # cosine clipped before arccos
    c = f"{f.key}:arccos-domain"
    clip = any(isinstance(st, ast.If) and isinstance(st.test, ast.Compare) and norm(st.test.left) == "d_dot_norm" and isinstance(st.test.ops[0], ast.Gt) for st in iter_stmts(fn.body)) or \
        any(isinstance(n, ast.Call) and (dotted(n.func) or [""])[-1] in ("clip", "minimum") for n in ast.walk(fn))
    if clip:
        run.holds("F-PATH/orientation-sign", c, where(f), "cosine limited to 1 before arccos")
    else:
        run.violation("F-PATH/orientation-sign", c, where(f), "cosine not limited to [-1, 1] before arccos: round-off above 1 yields NaN angles")
    # selection: strictly increasing angles
    c = f"{f.key}:selection"
    sel = None
    for n in ast.walk(fn):
        if isinstance(n, ast.Compare) and len(n.ops) == 2 and "d_angles" in norm(n.comparators[0]):
            sel = n
    if sel is not None and all(isinstance(o, ast.Lt) for o in sel.ops) and norm(sel.left) == "d_current_angle" and norm(sel.comparators[1]) == "d_next_angle":
        run.holds("F-PATH/orientation-sign", c, where(f, sel), "next corner = smallest angle strictly greater than the current one")
    else:
        run.violation("F-PATH/orientation-sign", c, where(f), f"corner selection is {norm(sel) if sel is not None else 'not found'}: expected current < angle[k] < best-so-far")
    # padding: final_face is FILL-initialised with max_edges slots and filled from slot 0
    c = f"{f.key}:padding"
    ff = S.assigns(fn, "final_face")
    ok = bool(ff) and "INT_FILL_VALUE" in norm(ff[0].value) and "max_edges" in norm(ff[0].value) and "INT_DTYPE" in norm(ff[0].value)
    first = any(isinstance(st, ast.Assign) and norm(st.targets[0]) == "final_face[0]" and norm(st.value) == "temp_face[0]" for st in iter_stmts(fn.body))
    if ok and first:
        run.holds("IDX/dual-rows", c, where(f, ff[0]), "ring written from slot 0 into a row of INT_FILL_VALUE (INT_DTYPE, max_edges wide)")
    else:
        run.violation("IDX/dual-rows", c, where(f), "ring row is not an INT_DTYPE row of INT_FILL_VALUE filled from slot 0")


def _siblings(run, P):
    keys = [f"{GRID}:Grid.get_dual", "uxarray/core/dataarray.py:UxDataArray.get_dual", "uxarray/core/dataset.py:UxDataset.get_dual"]
    for key in keys:
        f = P.func(key)
        gexpr = "self" if key.startswith(GRID) else "self.uxgrid"
        # duplicate guard
        c = f"{f.key}:duplicate-node-guard"
        g = [st for st in iter_stmts(f.node.body) if isinstance(st, ast.If) and "_check_duplicate_nodes_indices" in norm(st.test) and any(isinstance(x, ast.Raise) for x in st.body)]
        if g and norm(g[0].test) == f"_check_duplicate_nodes_indices({gexpr})":
            run.holds("F-TABLE/dual-siblings", c, where(f, g[0]), "duplicate nodes raise")
        else:
            run.violation("F-TABLE/dual-siblings", c, where(f), "the duplicate-node guard is missing or tests another grid")
        # construction
        c = f"{f.key}:construction"
        cd = next((n for n in ast.walk(f.node) if isinstance(n, ast.Call) and (dotted(n.func) or [""])[-1] == "construct_dual"), None)
        ft = next((n for n in ast.walk(f.node) if isinstance(n, ast.Call) and isinstance(n.func, ast.Attribute) and n.func.attr == "from_topology"), None)
        probs = []
        if cd is None or not any(k.arg == "grid" and norm(k.value) == gexpr for k in cd.keywords) and not (cd.args and norm(cd.args[0]) == gexpr):
            probs.append("construct_dual is not applied to this object's grid")
        if ft is None:
            probs.append("from_topology not called")
        else:
            a = [norm(x) for x in ft.args]
            if a[:2] != [f"{gexpr}.face_lon.values", f"{gexpr}.face_lat.values"]:
                probs.append(f"dual nodes built from {a[:2]}: expected the primal face centres (face_lon, face_lat) in that order")
            if len(a) < 3 or "dual_node_face_conn" not in a[2]:
                probs.append("dual connectivity not passed")
        if probs:
            run.violation("F-TABLE/dual-siblings", c, where(f), "; ".join(probs))
        else:
            run.holds("F-TABLE/dual-siblings", c, where(f, ft), "dual = from_topology(face_lon, face_lat, construct_dual(grid))")
    _get_dual_dims(run, P, partial_rule=False)
