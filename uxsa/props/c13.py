"""C13  Face latitude-longitude bounds enclose the face and are tight.

Decided (enclosure, structural half): in _populate_face_latlon_bound, on every path through either loop body that does not skip a fill edge, the start corner (lat, lon) of the edge is inserted,
and each extreme latitude of the edge is inserted or stated (by the path condition) to coincide with an endpoint latitude, or forced by the pole store on the correct side; every inserted point is [lat, lon] in that order;
a pole strictly inside the face forces the full longitude circle.  In extreme_gca_latitude every return is max/min over a set containing both endpoint latitudes, and the interior candidate is proven
(exact polynomial identity) to be the stationary point of the latitude along the chord interpolation the code actually uses."""

import ast

from ..astutil import LocalDefs, iter_stmts, norm, where
from ..flow import enumerate_paths
from ..loader import dotted
from ..rules.symalg import NotAlgebraic, Poly, Rat, to_rat

GEO = "uxarray/grid/geometry.py"
ARCS = "uxarray/grid/arcs.py"


def _cls(name):
    """latitude / longitude class of an expression by the names the function itself binds"""
    t = name
    if "lat_max" in t:
        return "lat_max"
    if "lat_min" in t:
        return "lat_min"
    if "node1_lat" in t:
        return "node1_lat"
    if "node2_lat" in t:
        return "node2_lat"
    if "node1_lon" in t:
        return "node1_lon"
    if "node2_lon" in t:
        return "node2_lon"
    return None


def check(run):
    P = run.program
    run.explanation = (
        "Path enumeration (with path conditions) of both per-edge loop bodies of _populate_face_latlon_bound; events are the calls _insert_pt_in_latlonbox(box, np.array([a, b])) and the direct stores of +-pi/2; "
        "expressions are classified by the names the function binds (node1_lat/lon from edge_lonlat[0], lat_max/lat_min from extreme_gca_latitude). Obligations per path: corner inserted; lat_max and lat_min each inserted, "
        "or isclose(node1|node2 latitude, extreme) holds on the path (the endpoint is a corner and is inserted as the start corner of its own edge), or the pole store covers that side. "
        "extreme_gca_latitude: with z(t), |x(t)|^2 built from the code's own interpolation coefficients, 2 z' q - z q' vanishes identically (as a polynomial in z1, z2, n1.n2) at the code's d_a_max. "
        "Tightness, the shortest longitude interval, _pole_point_inside_polygon and _insert_pt_in_latlonbox's interval growth are NOT decided."
    )
    run.rule_text = "F-PATH insertion obligations + F-UNIT roles + exact polynomial identity"
    run.assumptions = ["every corner of a face is the start node of exactly one of its edges (face_edges are the closed ring)", "_insert_pt_in_latlonbox grows the box to contain the inserted point"]
    _insertions(run, P)
    _edge_extremes(run, P)
    _box_growth(run, P)
    _extreme(run, P)


def _insert_events(stmt):
    """(lat_class, lon_class, node) for every insertion call inside a simple statement"""
    out = []
    for n in ast.walk(stmt):
        if isinstance(n, ast.Call) and (dotted(n.func) or [""])[-1] == "_insert_pt_in_latlonbox" and len(n.args) >= 2:
            pt = n.args[1]
            if isinstance(pt, ast.Call) and (dotted(pt.func) or [""])[-1] == "array" and pt.args and isinstance(pt.args[0], (ast.List, ast.Tuple)) and len(pt.args[0].elts) == 2:
                a, b = pt.args[0].elts
                out.append((norm(a), norm(b), n))
            else:
                out.append((norm(pt), None, n))
    return out


def _insertions(run, P):
    f = P.func(f"{GEO}:_populate_face_latlon_bound")
    loops = [s for s in iter_stmts(f.node.body) if isinstance(s, ast.For)]
    if len(loops) < 2:
        run.incomplete("F-PATH/bounds-insertions", f"{f.key}:loops", where(f), f"{len(loops)} per-edge loop(s) found, expected the pole branch and the normal branch (insertion scheme changed)")
        return
    n_paths = 0
    for li, loop in enumerate(loops):
        branch = "pole" if any(isinstance(n, ast.Name) and n.id == "pole_point" for n in ast.walk(loop)) else "normal"
        paths = enumerate_paths(loop.body)
        problems = {}
        for p in paths:
            if p.exit == "continue":
                continue  # fill edge skipped
            n_paths += 1
            facts = p.cond_facts()
            ins_lat, ins_lon = set(), set()
            forced = set()
            role_bad = None
            for e in p.events:
                for a, b, node in _insert_events(e):
                    ca, cb = _cls(a), _cls(b) if b else None
                    if b is None:
                        if "new_pt_latlon" in a:
                            forced.add("pole")
                        continue
                    if (ca and "lon" in ca) or (cb and "lat" in cb):
                        role_bad = (node, f"point inserted as [{a}, {b}]: the box expects [latitude, longitude]")
                    if ca:
                        ins_lat.add(ca)
                    if cb:
                        ins_lon.add(cb)
                if isinstance(e, ast.Assign) and isinstance(e.targets[0], ast.Subscript) and norm(e.targets[0].value).startswith("face_latlon_array"):
                    t = norm(e.targets[0])
                    v = norm(e.value)
                    if t == "face_latlon_array[0][1]" and v in ("np.pi / 2", "pi / 2"):
                        forced.add("upper")
                    if t == "face_latlon_array[0][0]" and v in ("-np.pi / 2", "-(np.pi / 2)", "-pi / 2"):
                        forced.add("lower")

            def close(ext):
                """an endpoint latitude is stated close to the extreme on this path"""
                for k, v in facts.items():
                    if k.startswith("isclose(") and ext in k and v is True and ("node1_lat" in k or "node2_lat" in k):
                        return True
                return False
            is_gca_false = False  # non-GCA edge: lat_max = lat_min = node1_lat by the conditional expression
            probs = []
            if role_bad:
                probs.append(role_bad[1])
            if not ("node1_lat" in ins_lat and "node1_lon" in ins_lon):
                both = {"lat_max", "lat_min"} <= ins_lat and "node1_lon" in ins_lon
                if not both:
                    probs.append("the edge's start corner (node1_lat, node1_lon) is not inserted")
            if not ("lat_max" in ins_lat or close("lat_max") or "upper" in forced):
                probs.append("the edge's maximum latitude is neither inserted nor equal (by the path condition) to an endpoint latitude")
            if not ("lat_min" in ins_lat or close("lat_min") or "lower" in forced):
                probs.append("the edge's minimum latitude is neither inserted nor equal (by the path condition) to an endpoint latitude")
            if branch == "pole":
                # exactly one side is forced, matching the pole tested on the path
                north = facts.get("has_north_pole")
                if north is True and "upper" not in forced:
                    probs.append("north pole inside the face but the upper latitude bound is not forced to pi/2")
                if north is False and "lower" not in forced:
                    probs.append("south pole inside the face but the lower latitude bound is not forced to -pi/2")
            if probs:
                key = "; ".join(probs)
                problems.setdefault(key, []).append([f"{k}={v}" for k, v in facts.items()])
        c = f"{f.key}:{branch}-branch:per-edge-insertions"
        if problems:
            msg, conds = next(iter(problems.items()))
            run.violation("F-PATH/bounds-insertions", c, where(f, loop), f"on {sum(len(v) for v in problems.values())} path(s) through the {branch} loop body: {msg}  (path: {conds[0][:4]})", facts={"paths": conds[:3]})
        else:
            run.holds("F-PATH/bounds-insertions", c, where(f, loop), f"corner, maximum and minimum latitude covered on every path of the {branch} loop body")
    run.stats["bounds_paths_enumerated"] = n_paths
    run.floor("F-PATH/bounds-insertions/paths", n_paths, 6)
    # pole strictly inside -> full circle
    c = f"{f.key}:centre-pole-full-circle"
    full = None
    for st in iter_stmts(f.node.body):
        if isinstance(st, ast.If) and isinstance(st.test, ast.Name) and st.test.id == "is_center_pole":
            for s in st.body:
                if isinstance(s, ast.Assign) and norm(s.targets[0]) == "face_latlon_array[1]":
                    full = (s, norm(s.value))
    if full and full[1].replace(" ", "") in ("[0.0,2*np.pi]", "[0,2*np.pi]", "np.array([0.0,2*np.pi])"):
        run.holds("F-PATH/bounds-insertions", c, where(f, full[0]), "a pole in the interior sets the longitude interval to [0, 2 pi]")
    else:
        run.violation("F-PATH/bounds-insertions", c, where(f), f"a pole strictly inside the face does not set the full longitude circle ({full[1] if full else 'no store'})")
    # is_center_pole reset only when the pole lies on an edge/corner
    # corners come from edge_lonlat[0]: node1 = start of the edge, (lon, lat) order of the source array
    for loop in loops:
        for st in iter_stmts(loop.body):
            if isinstance(st, ast.Assign) and isinstance(st.targets[0], ast.Tuple) and [norm(e) for e in st.targets[0].elts] == ["node1_lon_rad", "node1_lat_rad"]:
                c = f"{f.key}:corner-unpack@{'pole' if any(isinstance(n, ast.Name) and n.id == 'pole_point' for n in ast.walk(loop)) else 'normal'}"
                if norm(st.value) == "n1_lonlat":
                    run.holds("F-UNIT/bounds-roles", c, where(f, st), "(lon, lat) of the edge's start node unpacked in the order the edge array stores them")
                else:
                    run.violation("F-UNIT/bounds-roles", c, where(f, st), f"start corner unpacked from {norm(st.value)}")


def _extreme(run, P):
    f = P.func(f"{ARCS}:extreme_gca_latitude")
    fn = f.node
    # ---- every return is max/min over a set with both endpoint latitudes
    rets = [r for r in ast.walk(fn) if isinstance(r, ast.Return)]
    c = f"{f.key}:returns-include-endpoints"
    bad = None
    for r in rets:
        v = r.value
        arms = [v.body, v.orelse] if isinstance(v, ast.IfExp) else [v]
        kinds = []
        for a in arms:
            if not (isinstance(a, ast.Call) and isinstance(a.func, ast.Name) and a.func.id in ("max", "min")):
                bad = (r, f"{norm(a)[:50]} is not a max()/min() over candidate latitudes")
                break
            args = {norm(x) for x in a.args}
            if not {"lat_n1", "lat_n2"} <= args:
                bad = (r, f"{a.func.id}({sorted(args)}) does not include both endpoint latitudes")
            kinds.append(a.func.id)
        if isinstance(v, ast.IfExp) and not bad:
            # 'max' arm under extreme_type == "max"
            t = norm(v.test)
            if ("'max'" in t and kinds != ["max", "min"]) or ("'min'" in t and kinds != ["min", "max"]):
                bad = (r, f"arms {kinds} under test {t}: maximum/minimum exchanged")
    if bad:
        run.violation("F-PATH/extreme-latitude", c, where(f, bad[0]), bad[1])
    elif rets:
        run.holds("F-PATH/extreme-latitude", c, where(f, rets[0]), f"all {len(rets)} returns are max/min over sets containing both endpoint latitudes")
    else:
        run.incomplete("F-PATH/extreme-latitude", c, where(f), "no return found")
    # ---- stationary point identity
    c = f"{f.key}:interior-extreme-is-stationary"
    env = {"n1[2]": "z1", "n2[2]": "z2"}
    t_rat = None
    interp = None
    try:
        for st in iter_stmts(fn.body):
            if isinstance(st, ast.Assign) and len(st.targets) == 1 and isinstance(st.targets[0], ast.Name):
                nm = st.targets[0].id
                v = st.value
                if isinstance(v, ast.Call) and (dotted(v.func) or [""])[-1] == "dot" and {norm(S) for a in v.args for S in ast.walk(a) if isinstance(S, ast.Name)} >= {"n1", "n2"}:
                    env[nm] = "d"
                    continue
                if nm == "node3" and interp is None:
                    interp = v
                    continue
                if nm == "d_a_max" and t_rat is not None:
                    continue  # the clamp near 0/1 keeps the value
                try:
                    r = to_rat(v, env)
                except NotAlgebraic:
                    continue
                env[nm] = r
                if nm == "d_a_max":
                    t_rat = r
        if t_rat is None or interp is None:
            run.incomplete("F-PATH/extreme-latitude", c, where(f), "d_a_max formula or the interpolation node3 = ... not found")
            return
        # interpolation coefficients: linear form in the symbolic vectors n1, n2 with parameter t
        env2 = {"d_a_max": "t", "n1": "N1", "n2": "N2"}
        lin = to_rat(interp, env2)
        if not lin.d.t == {(): 1}:
            raise NotAlgebraic("interpolation has a denominator")
        c1 = lin.n.coeff("N1", 1).coeff("N2", 0)
        c2 = lin.n.coeff("N2", 1).coeff("N1", 0)
        rest = lin.n - c1 * Poly.var("N1") - c2 * Poly.var("N2")
        if not rest.is_zero():
            raise NotAlgebraic("interpolation is not a linear combination of n1 and n2")
        z1, z2, d, t = Poly.var("z1"), Poly.var("z2"), Poly.var("d"), Poly.var("t")
        z = c1 * z1 + c2 * z2
        q = c1 * c1 + c2 * c2 + Poly.const(2) * c1 * c2 * d
        F = Poly.const(2) * z.diff("t") * q - z * q.diff("t")
        deg = F.degree_in("t")
        N, D = t_rat.n, t_rat.d
        total = Poly()
        for k in range(deg + 1):
            term = F.coeff("t", k)
            for _ in range(k):
                term = term * N
            for _ in range(deg - k):
                term = term * D
            total = total + term
        affine = (c1 + c2 - Poly.const(1)).is_zero()
        facts = {"c1": repr(c1), "c2": repr(c2), "t_numerator": repr(N), "t_denominator": repr(D), "degree": deg}
        if total.is_zero() and affine:
            run.holds("F-PATH/extreme-latitude", c, where(f, interp), "d/dt [ z(t) / |x(t)| ] = 0 at t = d_a_max, identically in (z1, z2, n1.n2), for x(t) = the code's interpolation between n1 and n2", facts=facts)
        else:
            run.violation("F-PATH/extreme-latitude", c, where(f, interp),
                          "the point evaluated as the interior extreme is not the stationary point of the latitude along the arc: the interpolation parameter d_a_max and the interpolation "
                          f"{norm(interp)} are inconsistent (residual polynomial has {len(total.t)} terms, affine={affine}); bulging edges get a wrong extreme latitude", facts=facts)
    except NotAlgebraic as e:
        run.incomplete("F-PATH/extreme-latitude", c, where(f), f"expression outside the polynomial fragment: {e}")
    # ---- interior candidate only used when 0 < t < 1, and is re-normalised before arcsin
    c = f"{f.key}:interior-guard"
    g = [st for st in iter_stmts(fn.body) if isinstance(st, ast.If) and isinstance(st.test, ast.Compare) and len(st.test.ops) == 2 and norm(st.test.comparators[0]) == "d_a_max"]
    if g and norm(g[0].test.left) == "0" and norm(g[0].test.comparators[1]) == "1" and all(isinstance(o, ast.Lt) for o in g[0].test.ops):
        norm_ok = any(isinstance(n, ast.Call) and (dotted(n.func) or [""])[-1].startswith("_normalize_xyz") for s in g[0].body for n in ast.walk(s))
        if norm_ok:
            run.holds("F-PATH/extreme-latitude", c, where(f, g[0]), "interior candidate used only for 0 < d_a_max < 1 and normalised before arcsin")
        else:
            run.violation("F-PATH/extreme-latitude", c, where(f, g[0]), "the chord point is not normalised before its latitude is taken")
    else:
        run.violation("F-PATH/extreme-latitude", c, where(f), "the interior candidate is not restricted to 0 < d_a_max < 1")


def _edge_extremes(run, P):
    """for every great-circle edge (is_GCA) the pair (lat_max, lat_min) is (extreme_gca_latitude(edge, 'max'), extreme_gca_latitude(edge, 'min')):
    no further condition may replace it by the endpoint latitudes (an arc longer than 90 degrees bulges beyond both ends even when they straddle the equator)"""
    f = P.func(f"{GEO}:_populate_face_latlon_bound")
    loops = [s2 for s2 in iter_stmts(f.node.body) if isinstance(s2, ast.For)]
    n = 0
    for loop in loops:
        branch = "pole" if any(isinstance(x, ast.Name) and x.id == "pole_point" for x in ast.walk(loop)) else "normal"
        asg = next((st for st in iter_stmts(loop.body) if isinstance(st, ast.Assign) and isinstance(st.targets[0], ast.Tuple) and [norm(e) for e in st.targets[0].elts] == ["lat_max", "lat_min"]), None)
        c = f"{f.key}:{branch}-branch:edge-extremes"
        if asg is None:
            run.incomplete("F-PATH/edge-extremes", c, where(f, loop), "assignment of (lat_max, lat_min) not found")
            continue
        n += 1
        v = asg.value
        probs = []
        if not isinstance(v, ast.IfExp):
            probs.append("(lat_max, lat_min) is not chosen by the edge type")
        else:
            if norm(v.test) != "is_GCA":
                probs.append(f"the great-circle extremes are used only under '{norm(v.test)}': for the other great-circle edges the endpoint latitudes are taken, which misses the bulge of arcs longer than 90 degrees")
            body = v.body.elts if isinstance(v.body, ast.Tuple) else []
            kinds = []
            for b in body:
                if isinstance(b, ast.Call) and (dotted(b.func) or [""])[-1] == "extreme_gca_latitude" and len(b.args) >= 2 and "n1_cart" in norm(b.args[0]) and "n2_cart" in norm(b.args[0]):
                    kinds.append(b.args[1].value if isinstance(b.args[1], ast.Constant) else None)
            if kinds != ["max", "min"]:
                probs.append(f"great-circle branch yields {[norm(b)[:40] for b in body]}; expected (extreme(edge, 'max'), extreme(edge, 'min'))")
        if probs:
            run.violation("F-PATH/edge-extremes", c, where(f, asg), "; ".join(probs))
        else:
            run.holds("F-PATH/edge-extremes", c, where(f, asg), "(lat_max, lat_min) = great-circle extremes of the edge whenever is_GCA")
    run.floor("F-PATH/edge-extremes", n, 2)


def _box_growth(run, P):
    """_insert_pt_in_latlonbox only GROWS the latitude interval: the lower bound is assigned min(old, .) or -pi/2, the upper bound max(old, .) or +pi/2
    (or both from the point while the box is still the fill value)"""
    f = P.func(f"{GEO}:_insert_pt_in_latlonbox")
    c = f"{f.key}:latitude-bounds-grow"
    probs = []
    n = 0
    def cls_lower(e):
        t = norm(e).replace(" ", "")
        return t.startswith("min(latlon_box[0][0],") or t in ("-0.5*np.pi", "-np.pi/2", "-(0.5*np.pi)")
    def cls_upper(e):
        t = norm(e).replace(" ", "")
        return t.startswith("max(latlon_box[0][1],") or t in ("0.5*np.pi", "np.pi/2")
    from .c03 import _guards_of
    for st in iter_stmts(f.node.body):
        if isinstance(st, ast.Assign) and isinstance(st.targets[0], ast.Subscript):
            t = norm(st.targets[0]).replace(" ", "")
            if t == "latlon_box[0][0]":
                n += 1
                if not cls_lower(st.value):
                    probs.append(f"lower latitude bound assigned {norm(st.value)[:50]}")
            elif t == "latlon_box[0][1]":
                n += 1
                if not cls_upper(st.value):
                    probs.append(f"upper latitude bound assigned {norm(st.value)[:50]} (not max(old, .) nor +pi/2: a south-pole point would lower it to -pi/2 and discard the maxima collected so far)")
            elif t == "latlon_box[0]":
                n += 1
                v = st.value
                elts = v.elts if isinstance(v, (ast.List, ast.Tuple)) else (v.args[0].elts if isinstance(v, ast.Call) and v.args and isinstance(v.args[0], (ast.List, ast.Tuple)) else None)
                g = _guards_of(f.node.body, st) or []
                init = any("INT_FILL_VALUE" in norm(te) and tr for te, tr in g)
                if elts is None or len(elts) != 2:
                    probs.append(f"latitude interval assigned {norm(v)[:50]}")
                elif init:
                    if not (norm(elts[0]) == norm(elts[1]) == "lat_pt"):
                        probs.append("an empty box is not initialised with the point's latitude")
                elif not (cls_lower(elts[0]) and cls_upper(elts[1])):
                    probs.append(f"latitude interval assigned [{norm(elts[0])[:40]}, {norm(elts[1])[:40]}]: not [min(old, lat), max(old, lat)]")
    if n == 0:
        run.incomplete("F-PATH/box-growth", c, where(f), "no store into the latitude interval found")
    elif probs:
        run.violation("F-PATH/box-growth", c, where(f), "; ".join(probs))
    else:
        run.holds("F-PATH/box-growth", c, where(f), f"all {n} stores into the latitude interval can only widen it")
