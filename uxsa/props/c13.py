"""C13  Face latitude-longitude bounds enclose the face and are tight.

Decided (enclosure, structural half): in _populate_face_latlon_bound, on every path through either loop body that does not skip a fill edge, the start corner (lat, lon) of the edge is inserted,
and each extreme latitude of the edge is inserted or stated (by the path condition) to coincide with an endpoint latitude, or forced by the pole store on the correct side; every inserted point is [lat, lon] in that order;
a pole strictly inside the face forces the full longitude circle.  In extreme_gca_latitude every return is max/min over a set containing both endpoint latitudes, and the interior candidate is proven
(exact polynomial identity) to be the stationary point of the latitude along the chord interpolation the code actually uses.
The test that lets an extreme coincide with a corner latitude is an absolute comparison at the library's tolerance (not numpy's default rtol); units along the bounds pipeline (degrees vs radians, also across the arms of a branch); no squared length is compared with a length tolerance.
The isclose/allclose wrappers forward rtol and atol unchanged; library tolerances keep the pinned values."""

import ast

from ..astutil import LocalDefs, iter_stmts, norm, where
from ..flow import enumerate_paths
from ..loader import dotted
from ..rules.symalg import NotAlgebraic, Poly, Rat, to_rat

GEO = "uxarray/grid/geometry.py"
ARCS = "uxarray/grid/arcs.py"


def _cls(name):
    """latitude / longitude class of an expression by the names the function itself binds"""
    t = name
    if "lat_max" in t:
        return "lat_max"
    if "lat_min" in t:
        return "lat_min"
    if "node1_lat" in t:
        return "node1_lat"
    if "node2_lat" in t:
        return "node2_lat"
    if "node1_lon" in t:
        return "node1_lon"
    if "node2_lon" in t:
        return "node2_lon"
    return None


def check(run):
    P = run.program
    from ..rules import consts as _consts
    _consts.check(run, P)
    run.explanation = (
        "Path enumeration (with path conditions) of both per-edge loop bodies of _populate_face_latlon_bound; events are the calls _insert_pt_in_latlonbox(box, np.array([a, b])) and the direct stores of +-pi/2; "
        "expressions are classified by the names the function binds (node1_lat/lon from edge_lonlat[0], lat_max/lat_min from extreme_gca_latitude). Obligations per path: corner inserted; lat_max and lat_min each inserted, "
        "or isclose(node1|node2 latitude, extreme) holds on the path (the endpoint is a corner and is inserted as the start corner of its own edge), or the pole store covers that side. "
        "extreme_gca_latitude: with z(t), |x(t)|^2 built from the code's own interpolation coefficients, 2 z' q - z q' vanishes identically (as a polynomial in z1, z2, n1.n2) at the code's d_a_max. "
        "Tightness, the shortest longitude interval, _pole_point_inside_polygon and _insert_pt_in_latlonbox's interval growth are NOT decided."
    )
    run.rule_text = "F-PATH insertion obligations + F-UNIT roles + exact polynomial identity"
    run.assumptions = ["every corner of a face is the start node of exactly one of its edges (face_edges are the closed ring)", "_insert_pt_in_latlonbox grows the box to contain the inserted point"]
    _insertions(run, P)
    # units along the bounds pipeline (node lon/lat -> per-face edge arrays in radians -> boxes): degrees into trigonometry, a value converted twice,
    # or a value that is degrees on one path and radians on another
    from ..rules.common import dataflow, emit
    R = dataflow(P, run.tier)
    emit(run, R, {"UNIT/deg->trig", "UNIT/double-conversion"}, files=["uxarray/grid/geometry.py", "uxarray/grid/utils.py", "uxarray/grid/arcs.py"])
    from ..rules import sqtol
    sqtol.check(run, P, ("uxarray/grid/geometry.py", "uxarray/grid/arcs.py", "uxarray/grid/intersections.py", "uxarray/grid/utils.py", "uxarray/grid/coordinates.py"))
    _edge_extremes(run, P)
    _skip_tolerance(run, P)
    from .c14 import _wrappers_forward
    _wrappers_forward(run, P)
    _box_growth(run, P)
    _extreme(run, P)
    _closing_edge_swap(run, P)


def _insert_events(stmt):
    """(lat_class, lon_class, node) for every insertion call inside a simple statement"""
    out = []
    for n in ast.walk(stmt):
        if isinstance(n, ast.Call) and (dotted(n.func) or [""])[-1] == "_insert_pt_in_latlonbox" and len(n.args) >= 2:
            pt = n.args[1]
            if isinstance(pt, ast.Call) and (dotted(pt.func) or [""])[-1] == "array" and pt.args and isinstance(pt.args[0], (ast.List, ast.Tuple)) and len(pt.args[0].elts) == 2:
                a, b = pt.args[0].elts
                out.append((norm(a), norm(b), n))
            else:
                out.append((norm(pt), None, n))
    return out


def _insertions(run, P):
    f = P.func(f"{GEO}:_populate_face_latlon_bound")
    loops = [s for s in iter_stmts(f.node.body) if isinstance(s, ast.For)]
    if len(loops) < 2:
        run.incomplete("F-PATH/bounds-insertions", f"{f.key}:loops", where(f), f"{len(loops)} per-edge loop(s) found, expected the pole branch and the normal branch (insertion scheme changed)")
        return
    n_paths = 0
    for li, loop in enumerate(loops):
        branch = "pole" if any(isinstance(n, ast.Name) and n.id == "pole_point" for n in ast.walk(loop)) else "normal"
        paths = enumerate_paths(loop.body)
        problems = {}
        for p in paths:
            if p.exit == "continue":
                continue  # fill edge skipped
            n_paths += 1
            facts = p.cond_facts()
            ins_lat, ins_lon = set(), set()
            forced = set()
            role_bad = None
            for e in p.events:
                for a, b, node in _insert_events(e):
                    ca, cb = _cls(a), _cls(b) if b else None
                    if b is None:
                        if "new_pt_latlon" in a:
                            forced.add("pole")
                        continue
                    if (ca and "lon" in ca) or (cb and "lat" in cb):
                        role_bad = (node, f"point inserted as [{a}, {b}]: the box expects [latitude, longitude]")
                    if ca:
                        ins_lat.add(ca)
                    if cb:
                        ins_lon.add(cb)
                if isinstance(e, ast.Assign) and isinstance(e.targets[0], ast.Subscript) and norm(e.targets[0].value).startswith("face_latlon_array"):
                    t = norm(e.targets[0])
                    v = norm(e.value)
                    if t == "face_latlon_array[0][1]" and v in ("np.pi / 2", "pi / 2"):
                        forced.add("upper")
                    if t == "face_latlon_array[0][0]" and v in ("-np.pi / 2", "-(np.pi / 2)", "-pi / 2"):
                        forced.add("lower")

            def close(ext):
                """an endpoint latitude is stated close to the extreme on this path"""
                for k, v in facts.items():
                    if k.startswith("isclose(") and ext in k and v is True and ("node1_lat" in k or "node2_lat" in k):
                        return True
                return False
            is_gca_false = False  # non-GCA edge: lat_max = lat_min = node1_lat by the conditional expression
            probs = []
            if role_bad:
                probs.append(role_bad[1])
            if not ("node1_lat" in ins_lat and "node1_lon" in ins_lon):
                both = {"lat_max", "lat_min"} <= ins_lat and "node1_lon" in ins_lon
                if not both:
                    probs.append("the edge's start corner (node1_lat, node1_lon) is not inserted")
            if not ("lat_max" in ins_lat or close("lat_max") or "upper" in forced):
                probs.append("the edge's maximum latitude is neither inserted nor equal (by the path condition) to an endpoint latitude")
            if not ("lat_min" in ins_lat or close("lat_min") or "lower" in forced):
                probs.append("the edge's minimum latitude is neither inserted nor equal (by the path condition) to an endpoint latitude")
            if branch == "pole":
                # exactly one side is forced, matching the pole tested on the path
                north = facts.get("has_north_pole")
                if north is True and "upper" not in forced:
                    probs.append("north pole inside the face but the upper latitude bound is not forced to pi/2")
                if north is False and "lower" not in forced:
                    probs.append("south pole inside the face but the lower latitude bound is not forced to -pi/2")
            if probs:
                key = "; ".join(probs)
                problems.setdefault(key, []).append([f"{k}={v}" for k, v in facts.items()])
        c = f"{f.key}:{branch}-branch:per-edge-insertions"
        if problems:
            msg, conds = next(iter(problems.items()))
            run.violation("F-PATH/bounds-insertions", c, where(f, loop), f"on {sum(len(v) for v in problems.values())} path(s) through the {branch} loop body: {msg}  (path: {conds[0][:4]})", facts={"paths": conds[:3]})
        else:
            run.holds("F-PATH/bounds-insertions", c, where(f, loop), f"corner, maximum and minimum latitude covered on every path of the {branch} loop body")
    run.stats["bounds_paths_enumerated"] = n_paths
    run.floor("F-PATH/bounds-insertions/paths", n_paths, 6)
    # pole strictly inside -> full circle
    c = f"{f.key}:centre-pole-full-circle"
    full = None
    for st in iter_stmts(f.node.body):
        if isinstance(st, ast.If) and isinstance(st.test, ast.Name) and st.test.id == "is_center_pole":
            for s in st.body:
                if isinstance(s, ast.Assign) and norm(s.targets[0]) == "face_latlon_array[1]":
                    full = (s, norm(s.value))
    if full and full[1].replace(" ", "") in ("[0.0,2*np.pi]", "[0,2*np.pi]", "np.array([0.0,2*np.pi])"):
        run.holds("F-PATH/bounds-insertions", c, where(f, full[0]), "a pole in the interior sets the longitude interval to [0, 2 pi]")
    else:
        run.violation("F-PATH/bounds-insertions", c, where(f), f"a pole strictly inside the face does not set the full longitude circle ({full[1] if full else 'no store'})")
    # is_center_pole reset only when the pole lies on an edge/corner
    # corners come from edge_lonlat[0]: node1 = start of the edge, (lon, lat) order of the source array
    for loop in loops:
        for st in iter_stmts(loop.body):
            if isinstance(st, ast.Assign) and isinstance(st.targets[0], ast.Tuple) and [norm(e) for e in st.targets[0].elts] == ["node1_lon_rad", "node1_lat_rad"]:
                c = f"{f.key}:corner-unpack@{'pole' if any(isinstance(n, ast.Name) and n.id == 'pole_point' for n in ast.walk(loop)) else 'normal'}"
                if norm(st.value) == "n1_lonlat":
                    run.holds("F-UNIT/bounds-roles", c, where(f, st), "(lon, lat) of the edge's start node unpacked in the order the edge array stores them")
                else:
                    run.violation("F-UNIT/bounds-roles", c, where(f, st), f"start corner unpacked from {norm(st.value)}")


def _extreme(run, P):
    """extreme_gca_latitude, read from the EXPANDED value of every returning path (uxsa/symx: locals substituted, extracted helpers looked through):
      (a) each return is max/min - chosen consistently with extreme_type - over candidates that include the latitude of BOTH endpoints;
      (b) an interior candidate appears only on paths where 0 < t < 1 holds, is arcsin of the NORMALISED chord point x(t) = c1(t) n1 + c2(t) n2, and
      (c) d/dt [ z(t) / |x(t)| ] = 0 at the code's t, identically in (z1, z2, n1.n2)  (exact polynomial identity)."""
    from .. import symx
    f = P.func(f"{ARCS}:extreme_gca_latitude")
    R = "F-PATH/extreme-latitude"
    X = symx.Expander(P, keep={"_normalize_xyz_scalar", "_normalize_xyz", "_xyz_to_lonlat_rad_scalar", "_xyz_to_lonlat_rad", "dot", "isclose"})
    params = f.params()
    arc, etype = params[0], params[1]
    c_ret, c_stat, c_guard = f"{f.key}:returns-include-endpoints", f"{f.key}:interior-extreme-is-stationary", f"{f.key}:interior-guard"
    rets = X.returns(f)
    if not rets:
        for c in (c_ret, c_stat, c_guard):
            run.incomplete(R, c, where(f), "no returning path found")
        return
    consts = {}
    for st in f.module.tree.body:
        if isinstance(st, ast.Assign) and len(st.targets) == 1 and isinstance(st.targets[0], ast.Name) and isinstance(st.value, ast.Dict):
            if all(isinstance(k, ast.Constant) and isinstance(v, ast.Name) for k, v in zip(st.value.keys, st.value.values)):
                consts[st.targets[0].id] = {k.value: v.id for k, v in zip(st.value.keys, st.value.values)}

    def is_type_key(e):
        """extreme_type, possibly .lower()ed"""
        while isinstance(e, ast.Call) and isinstance(e.func, ast.Attribute) and e.func.attr in ("lower", "strip") and not e.args:
            e = e.func.value
        return isinstance(e, ast.Name) and e.id == etype

    def arms_of(r, conds):
        """[(requested kind 'max'|'min', reducer name, args)] or a string saying why not"""
        if isinstance(r, ast.IfExp) and isinstance(r.test, ast.Compare) and len(r.test.ops) == 1 and isinstance(r.test.ops[0], (ast.Eq, ast.NotEq)):
            l, rr = r.test.left, r.test.comparators[0]
            lit = rr if isinstance(rr, ast.Constant) else l
            key = l if lit is rr else rr
            if isinstance(lit, ast.Constant) and lit.value in ("max", "min") and is_type_key(key):
                first = lit.value if isinstance(r.test.ops[0], ast.Eq) else ("min" if lit.value == "max" else "max")
                other = "min" if first == "max" else "max"
                out = []
                for want, arm in ((first, r.body), (other, r.orelse)):
                    if not (isinstance(arm, ast.Call) and isinstance(arm.func, ast.Name) and arm.func.id in ("max", "min")):
                        return f"{norm(arm)[:50]} is not a max()/min() over candidate latitudes"
                    out.append((want, arm.func.id, arm.args))
                return out
        if isinstance(r, ast.Call):
            fn_ = r.func
            if isinstance(fn_, ast.Name) and fn_.id in ("max", "min"):
                # plain max()/min(): the path must be conditioned on the requested kind
                for t, v in conds:
                    if isinstance(t, ast.Compare) and len(t.ops) == 1 and isinstance(t.ops[0], ast.Eq) and isinstance(t.comparators[0], ast.Constant) and t.comparators[0].value in ("max", "min") and is_type_key(t.left):
                        k = t.comparators[0].value
                        want = k if v else ("min" if k == "max" else "max")
                        return [(want, fn_.id, r.args)]
                return f"{fn_.id}(...) is returned on a path that does not depend on {etype}"
            table = key = None
            if isinstance(fn_, ast.Call) and isinstance(fn_.func, ast.Attribute) and fn_.func.attr == "get" and isinstance(fn_.func.value, ast.Name) and fn_.args:
                table, key = fn_.func.value.id, fn_.args[0]
            elif isinstance(fn_, ast.Subscript) and isinstance(fn_.value, ast.Name):
                table, key = fn_.value.id, fn_.slice
            if table in consts and key is not None and is_type_key(key):
                tb = consts[table]
                if set(tb) != {"max", "min"}:
                    return f"selector table {table} has keys {sorted(tb)}"
                return [(k, tb[k], r.args) for k in ("max", "min")]
        return None

    def endpoint(e):
        """0 / 1 when e is the latitude of that endpoint of the arc"""
        if isinstance(e, ast.Subscript) and isinstance(e.slice, ast.Constant) and e.slice.value == 1 and symx.call_name(e.value) in ("_xyz_to_lonlat_rad_scalar", "_xyz_to_lonlat_rad") and len(e.value.args) >= 3:
            a0, a1, a2 = e.value.args[:3]
            for j in (0, 1):
                pj = f"{arc}[{j}]"
                if [norm(a0), norm(a1), norm(a2)] == [f"{pj}[0]", f"{pj}[1]", f"{pj}[2]"]:
                    return j
        return None

    def interior(e):
        """(chord point expression, normalised?) when e is arcsin([clip](P[2])) of a chord point, else None"""
        if not (isinstance(e, ast.Call) and symx.call_name(e) == "arcsin" and e.args):
            return None
        z = e.args[0]
        if isinstance(z, ast.Call) and symx.call_name(z) == "clip" and z.args:
            z = z.args[0]
        if not (isinstance(z, ast.Subscript) and isinstance(z.slice, ast.Constant) and z.slice.value == 2):
            return None
        v = symx.strip_neutral(z.value)
        if isinstance(v, ast.Call) and symx.call_name(v) in ("_normalize_xyz_scalar", "_normalize_xyz") and len(v.args) >= 3:
            bases = {norm(a.value) for a in v.args[:3] if isinstance(a, ast.Subscript)}
            if len(bases) == 1 and [norm(a.slice) for a in v.args[:3]] == ["0", "1", "2"]:
                return v.args[0].value, True
            return None
        return v, False

    bad_ret, unk_ret = [], []
    interiors = []       # (path, conds, chord expr, normalised)
    n_paths = 0
    for path, r, env in rets:
        n_paths += 1
        conds = X.conditions(f, path, env)
        at = where(f, path.events[-1]) if path.events else where(f)
        arms = arms_of(r, conds)
        if arms is None:
            unk_ret.append((at, f"returned value {norm(r)[:80]} is not recognised as a max/min selection"))
            continue
        if isinstance(arms, str):
            bad_ret.append((at, arms))
            continue
        for want, red, args in arms:
            if red != want:
                bad_ret.append((at, f"when {etype} is '{want}' the candidates are reduced with {red}(): maximum/minimum exchanged"))
            eps = {endpoint(a) for a in args}
            if not {0, 1} <= eps:
                others = [a for a in args if endpoint(a) is None and interior(a) is None]
                if others:
                    unk_ret.append((at, f"candidate {norm(others[0])[:60]} not recognised"))
                else:
                    bad_ret.append((at, f"{red}() over {len(args)} candidate(s) does not include the latitude of both endpoints"))
            for a in args:
                it = interior(a)
                if it is not None:
                    interiors.append((path, conds, it[0], it[1], at))
                elif endpoint(a) is None:
                    unk_ret.append((at, f"candidate {norm(a)[:60]} not recognised"))
    if bad_ret:
        run.violation(R, c_ret, bad_ret[0][0], bad_ret[0][1])
    elif unk_ret:
        run.incomplete(R, c_ret, unk_ret[0][0], unk_ret[0][1])
    else:
        run.holds(R, c_ret, where(f), f"all {n_paths} returning paths reduce with max/min (as requested) over sets containing both endpoint latitudes")
    # ---- interior candidate
    if not interiors:
        run.incomplete(R, c_stat, where(f), "no interior candidate arcsin(normalised chord point z) found on any path: bulging arcs cannot exceed their endpoints")
        run.incomplete(R, c_guard, where(f), "no interior candidate found")
        return
    path, conds, chord, normalised, at = interiors[0]
    # the parameter t: the middle of a chained comparison 0 < t < 1 that holds on this path
    T = None
    for t_, v in conds:
        if v and isinstance(t_, ast.Compare) and len(t_.ops) == 2 and all(isinstance(o, ast.Lt) for o in t_.ops) and norm(t_.left) == "0" and norm(t_.comparators[1]) == "1":
            T = t_.comparators[0]
        if (not v) and isinstance(t_, ast.UnaryOp) and isinstance(t_.op, ast.Not) and isinstance(t_.operand, ast.Compare) and len(t_.operand.ops) == 2 and all(isinstance(o, ast.Lt) for o in t_.operand.ops) \
                and norm(t_.operand.left) == "0" and norm(t_.operand.comparators[1]) == "1":
            T = t_.operand.comparators[0]
    if T is None:
        weaker = [t_ for t_, v in conds if isinstance(t_, ast.Compare) and len(t_.ops) == 2]
        if weaker:
            run.violation(R, c_guard, at, f"the interior candidate is used under {norm(weaker[0])[:80]}, not under 0 < t < 1 (strict): outside (0, 1) the stationary point is not on the arc")
        else:
            run.violation(R, c_guard, at, "the interior candidate is not restricted to 0 < d_a_max < 1")
    elif not normalised:
        run.violation(R, c_guard, at, "the chord point is not normalised before its latitude is taken")
    elif any(True for p2, c2, *_ in interiors if not any(v and isinstance(t_, ast.Compare) and len(t_.ops) == 2 for t_, v in c2) and not any((not v) and isinstance(t_, ast.UnaryOp) for t_, v in c2)):
        run.violation(R, c_guard, at, "an interior candidate is also used on a path where 0 < t < 1 is not established")
    else:
        run.holds(R, c_guard, at, "interior candidate used only for 0 < t < 1 and normalised before arcsin")
    if T is None:
        run.incomplete(R, c_stat, at, "the interpolation parameter cannot be identified (no 0 < t < 1 condition on the interior path)")
        return
    # the clamp near the ends keeps the value:  clip(T0, 0, 1) if isclose(T0, 0|1, atol=...) [or ...] else T0
    T0 = T
    if isinstance(T, ast.IfExp):
        body = T.body
        ok_clamp = isinstance(body, ast.Call) and symx.call_name(body) == "clip" and body.args and norm(body.args[0]) == norm(T.orelse) and [norm(a) for a in body.args[1:3]] == ["0", "1"]
        atoms = T.test.values if isinstance(T.test, ast.BoolOp) else [T.test]
        ok_test = all(isinstance(a_, ast.Call) and symx.call_name(a_) == "isclose" and a_.args and norm(a_.args[0]) == norm(T.orelse) and len(a_.args) > 1 and norm(a_.args[1]) in ("0", "1") for a_ in atoms)
        if not (ok_clamp and ok_test):
            run.incomplete(R, c_stat, at, f"parameter {norm(T)[:80]} is a conditional that is not the clamp-near-the-ends idiom")
            return
        T0 = T.orelse
    try:
        tn = norm(T)
        z1n, z2n = f"{arc}[0][2]", f"{arc}[1][2]"
        env_t = {z1n: "z1", z2n: "z2"}
        for x in ast.walk(T0):
            if isinstance(x, ast.Call) and symx.call_name(x) == "dot" and len(x.args) == 2 and {norm(symx.strip_neutral(a_)) for a_ in x.args} == {f"{arc}[0]", f"{arc}[1]"}:
                env_t[norm(x)] = "d"
        t_rat = to_rat(T0, env_t)
        env_x = {tn: "t", f"{arc}[0]": "N1", f"{arc}[1]": "N2"}
        lin = to_rat(chord, env_x)
        if not lin.d.t == {(): 1}:
            raise NotAlgebraic("interpolation has a denominator")
        c1 = lin.n.coeff("N1", 1).coeff("N2", 0)
        c2 = lin.n.coeff("N2", 1).coeff("N1", 0)
        rest = lin.n - c1 * Poly.var("N1") - c2 * Poly.var("N2")
        if not rest.is_zero():
            raise NotAlgebraic("interpolation is not a linear combination of n1 and n2")
        z1, z2, d, t = Poly.var("z1"), Poly.var("z2"), Poly.var("d"), Poly.var("t")
        z = c1 * z1 + c2 * z2
        q = c1 * c1 + c2 * c2 + Poly.const(2) * c1 * c2 * d
        F = Poly.const(2) * z.diff("t") * q - z * q.diff("t")
        deg = F.degree_in("t")
        N, D = t_rat.n, t_rat.d
        total = Poly()
        for k in range(deg + 1):
            term = F.coeff("t", k)
            for _ in range(k):
                term = term * N
            for _ in range(deg - k):
                term = term * D
            total = total + term
        affine = (c1 + c2 - Poly.const(1)).is_zero()
        facts = {"c1": repr(c1), "c2": repr(c2), "t_numerator": repr(N), "t_denominator": repr(D), "degree": deg, "helpers_looked_through": sorted(set(X.inlined))}
        if total.is_zero() and affine:
            run.holds(R, c_stat, at, "d/dt [ z(t) / |x(t)| ] = 0 at the code's t, identically in (z1, z2, n1.n2), for x(t) = the code's interpolation between n1 and n2", facts=facts)
        else:
            run.violation(R, c_stat, at,
                          "the point evaluated as the interior extreme is not the stationary point of the latitude along the arc: the interpolation parameter and the interpolation "
                          f"{norm(chord)[:60]} are inconsistent (residual polynomial has {len(total.t)} terms, affine={affine}); bulging edges get a wrong extreme latitude", facts=facts)
    except NotAlgebraic as e:
        run.incomplete(R, c_stat, at, f"expression outside the polynomial fragment: {str(e)[:120]}")


def _edge_extremes(run, P):
    """for every great-circle edge (is_GCA) the pair (lat_max, lat_min) is (extreme_gca_latitude(edge, 'max'), extreme_gca_latitude(edge, 'min')):
    no further condition may replace it by the endpoint latitudes (an arc longer than 90 degrees bulges beyond both ends even when they straddle the equator)"""
    f = P.func(f"{GEO}:_populate_face_latlon_bound")
    loops = [s2 for s2 in iter_stmts(f.node.body) if isinstance(s2, ast.For)]
    n = 0
    for loop in loops:
        branch = "pole" if any(isinstance(x, ast.Name) and x.id == "pole_point" for x in ast.walk(loop)) else "normal"
        asg = next((st for st in iter_stmts(loop.body) if isinstance(st, ast.Assign) and isinstance(st.targets[0], ast.Tuple) and len(st.targets[0].elts) == 2
                    and all(isinstance(e, ast.Name) for e in st.targets[0].elts) and ["max" in st.targets[0].elts[0].id, "min" in st.targets[0].elts[1].id] == [True, True]), None)
        c = f"{f.key}:{branch}-branch:edge-extremes"
        if asg is None:
            run.incomplete("F-PATH/edge-extremes", c, where(f, loop), "assignment of (lat_max, lat_min) not found")
            continue
        n += 1
        v = asg.value
        # a helper that chooses the pair is looked through: its returning paths become one conditional expression
        if not isinstance(v, ast.IfExp):
            from .. import symx
            try:
                v2 = symx.Expander(P, max_depth=2).expr(f, v, 0)
            except Exception:  # noqa: BLE001
                v2 = v
            if isinstance(v2, ast.IfExp):
                v = v2
        probs = []
        if not isinstance(v, ast.IfExp):
            run.incomplete("F-PATH/edge-extremes", c, where(f, asg), f"the pair of extremes is `{norm(v)[:60]}`: not a choice by the edge type that this rule reads")
            continue
        else:
            t_ = v.test.operand if isinstance(v.test, ast.UnaryOp) and isinstance(v.test.op, ast.Not) else v.test
            gca_arm, other_arm = (v.orelse, v.body) if t_ is not v.test else (v.body, v.orelse)
            if isinstance(t_, ast.BoolOp):
                probs.append(f"the great-circle extremes are used only under '{norm(v.test)}': for the other great-circle edges the endpoint latitudes are taken, which misses the bulge of arcs longer than 90 degrees")
            elif not isinstance(t_, ast.Name):
                run.incomplete("F-PATH/edge-extremes", c, where(f, asg), f"the pair of extremes is chosen under `{norm(v.test)[:60]}`: not the bare edge-type flag")
                continue
            body = gca_arm.elts if isinstance(gca_arm, ast.Tuple) else []
            kinds = []
            for b in body:
                if isinstance(b, ast.Call) and (dotted(b.func) or [""])[-1] == "extreme_gca_latitude" and len(b.args) >= 2:
                    kinds.append(b.args[1].value if isinstance(b.args[1], ast.Constant) else None)
            if kinds != ["max", "min"]:
                probs.append(f"great-circle branch yields {[norm(b)[:40] for b in body]}; expected (extreme(edge, 'max'), extreme(edge, 'min'))")
        if probs:
            run.violation("F-PATH/edge-extremes", c, where(f, asg), "; ".join(probs))
        else:
            run.holds("F-PATH/edge-extremes", c, where(f, asg), "(lat_max, lat_min) = great-circle extremes of the edge whenever is_GCA")
    run.floor("F-PATH/edge-extremes", n, 2)


def _box_growth(run, P):
    """_insert_pt_in_latlonbox only GROWS the latitude interval: the lower bound is assigned min(old, .) or -pi/2, the upper bound max(old, .) or +pi/2
    (or both from the point while the box is still the fill value)"""
    f = P.func(f"{GEO}:_insert_pt_in_latlonbox")
    c = f"{f.key}:latitude-bounds-grow"
    probs = []
    n = 0
    def cls_lower(e):
        t = norm(e).replace(" ", "")
        return t.startswith("min(latlon_box[0][0],") or t in ("-0.5*np.pi", "-np.pi/2", "-(0.5*np.pi)")
    def cls_upper(e):
        t = norm(e).replace(" ", "")
        return t.startswith("max(latlon_box[0][1],") or t in ("0.5*np.pi", "np.pi/2")
    from .c03 import _guards_of
    for st in iter_stmts(f.node.body):
        if isinstance(st, ast.Assign) and isinstance(st.targets[0], ast.Subscript):
            t = norm(st.targets[0]).replace(" ", "")
            if t == "latlon_box[0][0]":
                n += 1
                if not cls_lower(st.value):
                    probs.append(f"lower latitude bound assigned {norm(st.value)[:50]}")
            elif t == "latlon_box[0][1]":
                n += 1
                if not cls_upper(st.value):
                    probs.append(f"upper latitude bound assigned {norm(st.value)[:50]} (not max(old, .) nor +pi/2: a south-pole point would lower it to -pi/2 and discard the maxima collected so far)")
            elif t == "latlon_box[0]":
                n += 1
                v = st.value
                elts = v.elts if isinstance(v, (ast.List, ast.Tuple)) else (v.args[0].elts if isinstance(v, ast.Call) and v.args and isinstance(v.args[0], (ast.List, ast.Tuple)) else None)
                g = _guards_of(f.node.body, st) or []
                init = any("INT_FILL_VALUE" in norm(te) and tr for te, tr in g)
                if elts is None or len(elts) != 2:
                    probs.append(f"latitude interval assigned {norm(v)[:50]}")
                elif init:
                    if not (norm(elts[0]) == norm(elts[1]) == "lat_pt"):
                        probs.append("an empty box is not initialised with the point's latitude")
                elif not (cls_lower(elts[0]) and cls_upper(elts[1])):
                    probs.append(f"latitude interval assigned [{norm(elts[0])[:40]}, {norm(elts[1])[:40]}]: not [min(old, lat), max(old, lat)]")
    if n == 0:
        run.incomplete("F-PATH/box-growth", c, where(f), "no store into the latitude interval found")
    elif probs:
        run.violation("F-PATH/box-growth", c, where(f), "; ".join(probs))
    else:
        run.holds("F-PATH/box-growth", c, where(f), f"all {n} stores into the latitude interval can only widen it")


def _closing_edge_swap(run, P):
    """The per-face edge table handed to the bounds computation is made by rolling the node row; for a face with fewer corners than the row width this leaves the
    face's FIRST node in the very last slot.  _swap_first_fill_value_with_last repairs that by exchanging the last entry with the FIRST fill value of the sub-array
    (the slot right behind the last real corner).  Taking any other fill position (the last one, say) coincides only for faces one corner short of the width; for shorter
    faces the closing edge and the last corner vanish from the table, and the bounds no longer enclose the face."""
    from ..astutil import LocalDefs
    f = P.try_func("uxarray/grid/utils.py:_swap_first_fill_value_with_last")
    c = "uxarray/grid/utils.py:_swap_first_fill_value_with_last:first-fill-position"
    if f is None:
        run.incomplete("F-PATH/closing-edge", c, "uxarray/grid/utils.py", "helper not found")
        return
    defs = LocalDefs(f.node)
    first, other, unknown = [], [], []
    for n in ast.walk(f.node):
        if isinstance(n, ast.Call) and (dotted(n.func) or [""])[-1] == "argmax" and n.args:
            nodes, _ = defs.closure(n.args[0])
            if any(isinstance(x, ast.Compare) and any("INT_FILL_VALUE" in norm(y) for y in [x.left] + x.comparators) for e in nodes for x in ast.walk(e)):
                rev = any(isinstance(x, ast.Subscript) and "::-1" in norm(x.slice).replace(" ", "") for e in nodes for x in ast.walk(e)) or any(isinstance(x, ast.Call) and (dotted(x.func) or [""])[-1] in ("flip", "fliplr") for e in nodes for x in ast.walk(e))
                (other if rev else first).append(n)
        if isinstance(n, ast.Subscript) and isinstance(n.ctx, ast.Load) and isinstance(n.slice, (ast.Constant, ast.UnaryOp)):
            nodes, _ = defs.closure(n.value)
            pos = any(isinstance(x, ast.Call) and (dotted(x.func) or [""])[-1] in ("flatnonzero", "nonzero", "where", "argwhere") for e in nodes for x in ast.walk(e)) and \
                any(isinstance(x, ast.Compare) and any("INT_FILL_VALUE" in norm(y) for y in [x.left] + x.comparators) for e in nodes for x in ast.walk(e))
            if pos and isinstance(n.value, ast.Name):
                idx = norm(n.slice)
                if idx == "0":
                    first.append(n)
                elif idx.startswith("-") or idx.isdigit():
                    other.append(n)
    if other:
        run.violation("F-PATH/closing-edge", c, where(f, other[0]), f"{norm(other[0])[:60]} selects a fill position other than the FIRST one of the sub-array: for a face two or more corners short of the row width "
                      "the wrapped-around first node is moved to the wrong slot, the closing edge and the last corner drop out of the edge table and the face's bounds miss them")
    elif first:
        run.holds("F-PATH/closing-edge", c, where(f, first[0]), "the swap position is the first fill value of each sub-array")
    else:
        run.incomplete("F-PATH/closing-edge", c, where(f), "how the swap position is found is not recognised")


def _skip_tolerance(run, P):
    """An arc's extreme latitude may be left out of the box only when it coincides with an end node's latitude.  "Coincides" has to be an ABSOLUTE comparison at the
    library's tolerance: numpy's default relative tolerance (rtol=1e-5) on a latitude of order 1 is 1e-5 rad, more than the whole bulge of an edge shorter than about a
    degree, so with the default every short arc is taken to have no bulge and the reported bound does not enclose it."""
    f = P.func(f"{GEO}:_populate_face_latlon_bound")
    n = 0
    for call in ast.walk(f.node):
        if not (isinstance(call, ast.Call) and (dotted(call.func) or [""])[-1] in ("isclose", "allclose")):
            continue
        txt = norm(call)
        if not ("lat_max" in txt or "lat_min" in txt):
            continue
        n += 1
        c = f"{f.key}:skip-test[{norm(call.args[0])[:20]},{norm(call.args[1])[:10]}]"
        rt = next((k.value for k in call.keywords if k.arg == "rtol"), call.args[2] if len(call.args) > 2 else None)
        if rt is None:
            run.violation("F-PATH/extreme-skip-tolerance", c, where(f, call), f"`{txt[:70]}` leaves rtol at numpy's default 1e-5: an extreme latitude within 1e-5*|lat| of an end node's latitude is not inserted, "
                          "which is the whole bulge of a short arc - the bound does not enclose the edge")
        elif (isinstance(rt, ast.Constant) and isinstance(rt.value, (int, float)) and rt.value <= 1e-8) or (isinstance(rt, ast.Name) and rt.id in ("ERROR_TOLERANCE", "MACHINE_EPSILON")):
            run.holds("F-PATH/extreme-skip-tolerance", c, where(f, call), f"rtol={norm(rt)}")
        elif isinstance(rt, ast.Constant):
            run.violation("F-PATH/extreme-skip-tolerance", c, where(f, call), f"rtol={norm(rt)} is far above the library's tolerance: extremes within that relative distance of a corner latitude are dropped")
        else:
            run.incomplete("F-PATH/extreme-skip-tolerance", c, where(f, call), f"rtol={norm(rt)[:40]} not evaluated")
    run.floor("F-PATH/extreme-skip-tolerance", n, 4)

