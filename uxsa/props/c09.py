"""C09  Subsets and cross-sections are faithful, fully functional restrictions.

Decided: the nodes and edges of a subgrid are the values of the selected faces' rows of face_node/face_edge_connectivity with the fill value filtered; each grid dimension is indexed with the index array of its own kind;
subgrid_<kind>_indices are stored on every path from the very arrays used to index that kind; every grid variable whose VALUES index a grid dimension is remapped (node-valued, with the fill value mapped to itself) or dropped, decided per schema name;
re-indexed arrays do not inherit index-dependent attribute side tables; node/edge selections go through node_face/edge_face with the fill value filtered; data are sliced with the subgrid indices of their own kind and attached to the sliced grid;
element-kind tables of the subset accessors agree; the constant-latitude scan is a strict opposite-sign test (truth table over the sign abstraction) and race free under prange.
the image of the fill value under the node renumbering (dict entry, np.where, or a lookup array with an extra slot); Grid.isel(n_face=...) is handed indices, not the mask they were computed from (decided from the slicer's cast); the faces of a cross-section come from Grid.get_faces_at_constant_latitude on every path.
The sliced data array is given the coordinates that were sliced with it."""

import ast
import itertools

from ..astutil import LocalDefs, iter_stmts, norm, str_const, where
from ..loader import dotted
from ..rules import shape as S

SL = "uxarray/grid/slice.py"
GRID = "uxarray/grid/grid.py"
DA = "uxarray/core/dataarray.py"
KIND_DIM = {"node": "n_node", "edge": "n_edge", "face": "n_face"}
ELEMENT = {"nodes": "node", "face centers": "face", "edge centers": "edge"}


def _has_fill_filter(defs, name, fnode):
    """X = X[X != INT_FILL_VALUE] somewhere for local `name`"""
    for st in S.assigns(fnode, name):
        v = st.value
        if isinstance(v, ast.Subscript) and norm(v.value) == name:
            ft = S.fill_test(v.slice)
            if ft and ft[0] == "ne" and norm(ft[1]) == name:
                return st
    return None


def _gather_source(defs, name, fnode):
    """(table_name, index_name) when name's definition gathers rows  grid.<table>.values[<idx>]"""
    for st in S.assigns(fnode, name):
        for n in ast.walk(st.value):
            if isinstance(n, ast.Subscript):
                base = S.strip_copy(n.value)
                if isinstance(base, ast.Attribute) and base.attr.endswith("_connectivity") and isinstance(n.slice, ast.Name):
                    return base.attr, n.slice.id, st
    return None


def _through_helper(P, f, defs, name, fnode):
    """name = helper(<grid>.<table>, <idx>) where the helper gathers rows of its first parameter with its second and filters the fill value:
    returns (table, idx, stmt, filtered) or None"""
    from ..loader import FuncInfo
    for st in S.assigns(fnode, name):
        v = st.value
        if isinstance(v, ast.Call) and len(v.args) >= 2:
            target = P.resolve_expr(f.module, v.func, f)
            if not isinstance(target, FuncInfo):
                continue
            ps = target.params()
            a0 = S.strip_copy(v.args[0])
            if not (isinstance(a0, ast.Attribute) and a0.attr.endswith("_connectivity") and isinstance(v.args[1], ast.Name)):
                continue
            gath = any(isinstance(n, ast.Subscript) and isinstance(S.strip_copy(n.value), ast.Name) and S.strip_copy(n.value).id == ps[0] and isinstance(n.slice, ast.Name) and n.slice.id == ps[1] for n in ast.walk(target.node))
            filt = any(isinstance(n, ast.Subscript) and S.fill_test(n.slice) and S.fill_test(n.slice)[0] == "ne" for n in ast.walk(target.node))
            if gath:
                return a0.attr, v.args[1].id, st, filt
    return None


def check(run):
    P = run.program
    run.explanation = (
        "Structural reading of grid/slice.py, Grid.isel, UxDataArray._slice_from_grid, the subset/cross-section accessors and the constant-latitude scan. "
        "Index-space provenance (which table, gathered with which index array, filtered for the fill value) is followed through local definitions; string predicates that route grid variables to 'remap' or 'drop' are "
        "evaluated on every index-valued name of the schema (conventions/ugrid.py CONNECTIVITY_NAMES + hole_edge_indices); the scan's predicate is evaluated on the 9 sign combinations of (z0 - c, z1 - c). "
        "Which faces a coordinate query selects and equality of every derived quantity on the subset are NOT decided."
    )
    run.rule_text = "IDX-1/IDX-2 provenance, F-TABLE kinds, ALIAS attrs across re-indexing, F-NJIT prange, boolean truth table"
    run.assumptions = ["xarray Dataset.isel(dim=index_array) selects positions along dim in the order given", "DataArray attrs are copied by isel"]
    _slice_faces(run, P)
    _slice_via(run, P, "_slice_node_indices", "node_face_connectivity")
    _slice_via(run, P, "_slice_edge_indices", "edge_face_connectivity")
    _grid_isel(run, P)
    _slice_from_grid(run, P)
    _accessors(run, P)
    _isel_gets_indices(run, P)
    _cross_section_source(run, P)
    _lat_scan(run, P)
    _edge_node_z(run, P)


# ---------------------------------------------------------------------------------------------------------------- slice.py
def _slice_faces(run, P):
    f = P.func(f"{SL}:_slice_face_indices")
    fn = f.node
    defs = LocalDefs(fn)
    # ---- provenance of node_indices / edge_indices
    isel = {}
    for st in iter_stmts(fn.body):
        for n in ast.walk(st):
            if isinstance(n, ast.Call) and isinstance(n.func, ast.Attribute) and n.func.attr == "isel":
                for k in n.keywords:
                    if k.arg in KIND_DIM.values() and isinstance(k.value, ast.Name):
                        isel[k.arg] = (k.value.id, n)
    c = f"{f.key}:isel-dims"
    if set(isel) != set(KIND_DIM.values()):
        run.incomplete("IDX/subgrid", c, where(f), f"dataset isel over {sorted(isel)}; all of n_node, n_face, n_edge expected")
        return
    want_table = {"n_node": "face_node_connectivity", "n_edge": "face_edge_connectivity"}
    face_idx = isel["n_face"][0]
    for dim, table in want_table.items():
        name, call = isel[dim]
        c = f"{f.key}:members[{dim}]"
        src = _gather_source(defs, name, fn)
        filt = _has_fill_filter(defs, name, fn)
        if src is None:
            th = _through_helper(P, f, defs, name, fn)
            if th is not None:
                src = th[:3]
                filt = filt or (th[2] if th[3] else None)
        probs = []
        if src is None:
            # which connectivity tables does the member set depend on at all?  "The {dim}s of the selected faces" can only be computed from a table that relates
            # {dim}s to FACES (rows of face_* gathered with the faces, or rows of *_face tested against them).  A derivation that only consults tables
            # without faces (e.g. edges whose two end nodes were both kept) defines a different set: an edge between two retained nodes need not bound a retained face.
            nodes, _nm = defs.closure(ast.Name(id=name, ctx=ast.Load()))
            tables = {x.attr for e in nodes for x in ast.walk(e) if isinstance(x, ast.Attribute) and x.attr.endswith("_connectivity")}
            kind = dim[2:]
            face_tables = {f"face_{kind}_connectivity", f"{kind}_face_connectivity"}
            own = {t for t in tables if t != table and not (name != isel["n_node"][0] and t == "face_node_connectivity")}
            if own and not (own & face_tables):
                run.violation("IDX/subgrid", c, where(f, call), f"the {kind}s of the subgrid are selected through {sorted(own)} only - no table relating {kind}s to faces is consulted: a {kind} whose "
                              f"{'end nodes are' if kind == 'edge' else 'neighbours are'} all retained need not belong to a retained face, so the subgrid gets {kind}s (and data positions) that no selected face has")
            else:
                run.incomplete("IDX/subgrid", c, where(f, call), f"how {name} is obtained is not understood (no gather from a connectivity table recognised; tables consulted: {sorted(tables)})")
            continue
        else:
            t, idx, st = src
            # idx must be (an alias of) the face index array
            aliases = {face_idx}
            for a in S.assigns(fn, face_idx):
                if isinstance(a.value, ast.Name):
                    aliases.add(a.value.id)
            for nm, lst in defs.defs.items():
                for v, _i, _l in lst:
                    if isinstance(v, ast.Name) and v.id in aliases:
                        aliases.add(nm)
            if t != table:
                probs.append(f"the {dim[2:]}s of the subgrid are taken from {t}; the {dim[2:]}s of the selected faces are the entries of their rows of {table}")
            if idx not in aliases:
                probs.append(f"{t} is gathered with {idx}, not with the selected face indices")
        if filt is None:
            probs.append(f"{name} is not filtered with != INT_FILL_VALUE (padding of short faces would be used as an index)")
        if probs:
            run.violation("IDX/subgrid", c, where(f, call), "; ".join(probs))
        else:
            run.holds("IDX/subgrid", c, where(f, call), f"{name} = unique values of {table}[selected faces] without the fill value; used for isel({dim}=...)")
    # ---- subgrid index variables stored on every path from the same arrays
    from ..flow import enumerate_paths
    paths = [p for p in enumerate_paths(fn.body, loop_unroll=(1,)) if p.exit != "raise"]
    for kind, dim in KIND_DIM.items():
        key = f"subgrid_{kind}_indices"
        c = f"{f.key}:store[{key}]"
        n_ok = 0
        wrong = None
        for p in paths:
            hit = False
            for e in p.events:
                if isinstance(e, ast.Assign) and isinstance(e.targets[0], ast.Subscript) and str_const(e.targets[0].slice) == key:
                    hit = True
                    v = e.value
                    data = v.args[0] if isinstance(v, ast.Call) and v.args else None
                    dims = next((k.value for k in v.keywords if k.arg == "dims"), None) if isinstance(v, ast.Call) else None
                    if not (isinstance(data, ast.Name) and data.id == isel[dim][0]):
                        wrong = (e, f"{key} is stored from {norm(data) if data is not None else '?'}, but {dim} was indexed with {isel[dim][0]}")
                    elif dims is not None and dim not in norm(dims):
                        wrong = (e, f"{key} is stored with dims {norm(dims)}")
            if hit:
                n_ok += 1
        if wrong:
            run.violation("IDX/subgrid-indices", c, where(f, wrong[0]), wrong[1])
        elif n_ok < len(paths):
            run.violation("IDX/subgrid-indices", c, where(f), f"{key} is written on {n_ok} of {len(paths)} paths only: a subgrid of a subgrid keeps the table inherited from its parent, which indexes another grid")
        else:
            run.holds("IDX/subgrid-indices", c, where(f), f"{key} = the array used for isel({dim}=...), on all {len(paths)} paths")
    # ---- index-valued variables: remapped or dropped, per schema name
    _remap(run, P, f, defs, isel)
    # ---- result constructed from the sliced dataset with the source's format tag
    rets = [r for r in ast.walk(fn) if isinstance(r, ast.Return)]
    c = f"{f.key}:return"
    ok = rets and all(isinstance(r.value, ast.Call) and norm(r.value.func).endswith("from_dataset") for r in rets)
    if ok:
        run.holds("IDX/subgrid", c, where(f, rets[0]), "a new Grid is built from the sliced dataset")
    else:
        run.violation("IDX/subgrid", c, where(f), "the sliced dataset is not turned into a new Grid through Grid.from_dataset")


_CONST_RESOLVER = [None]


def _eval_name_pred(test, var, name):
    """evaluate a predicate over the loop variable `var` bound to the string `name` (In/Eq/or/and/not on constants; module-level
    tuples/lists of strings are resolved through the loader)"""
    if isinstance(test, ast.BoolOp):
        vals = [_eval_name_pred(v, var, name) for v in test.values]
        if any(v is None for v in vals):
            return None
        return all(vals) if isinstance(test.op, ast.And) else any(vals)
    if isinstance(test, ast.UnaryOp) and isinstance(test.op, ast.Not):
        v = _eval_name_pred(test.operand, var, name)
        return None if v is None else not v
    if isinstance(test, ast.Compare) and len(test.ops) == 1:
        a, b = test.left, test.comparators[0]
        op = test.ops[0]
        def val(n):
            if isinstance(n, ast.Name) and n.id == var:
                return name
            if isinstance(n, ast.Constant) and isinstance(n.value, str):
                return n.value
            if isinstance(n, (ast.Tuple, ast.List)) and all(isinstance(e, ast.Constant) for e in n.elts):
                return [e.value for e in n.elts]
            if isinstance(n, (ast.Name, ast.Attribute)) and _CONST_RESOLVER[0] is not None:
                v = _CONST_RESOLVER[0](n)
                if isinstance(v, (tuple, list, set, frozenset)) and all(isinstance(x, str) for x in v):
                    return list(v)
                if isinstance(v, str):
                    return v
            return None
        x, y = val(a), val(b)
        if x is None or y is None:
            return None
        if isinstance(op, ast.In):
            return x in y
        if isinstance(op, ast.NotIn):
            return x not in y
        if isinstance(op, ast.Eq):
            return x == y
        if isinstance(op, ast.NotEq):
            return x != y
    if isinstance(test, ast.Call) and isinstance(test.func, ast.Attribute) and isinstance(test.func.value, ast.Name) and test.func.value.id == var and test.args and isinstance(test.args[0], ast.Constant):
        if test.func.attr == "endswith":
            return name.endswith(test.args[0].value)
        if test.func.attr == "startswith":
            return name.startswith(test.args[0].value)
    return None


def _fold_names(P, f, defs, expr, depth=0):
    """list of strings an expression denotes when it is built from literals, module-level name tables, list concatenation and comprehensions that filter such a
    list with string predicates (endswith/startswith/in/not in/==) - all constants of the program, folded; None otherwise"""
    from ..loader import ConstInfo
    if depth > 14:
        return None
    if isinstance(expr, (ast.List, ast.Tuple)) and all(isinstance(e, ast.Constant) and isinstance(e.value, str) for e in expr.elts):
        return [e.value for e in expr.elts]
    if isinstance(expr, (ast.Name, ast.Attribute)):
        r = P.resolve_expr(f.module, expr, f)
        if isinstance(r, ConstInfo):
            v = P.const_value(r)
            if isinstance(v, (list, tuple)) and all(isinstance(x, str) for x in v):
                return list(v)
        if isinstance(expr, ast.Name):
            ds_ = [v for v, _i, loop_ in defs.defs.get(expr.id, []) if not loop_]
            if len(ds_) == 1:
                return _fold_names(P, f, defs, ds_[0], depth + 1)
        return None
    if isinstance(expr, ast.BinOp) and isinstance(expr.op, ast.Add):
        a, b = _fold_names(P, f, defs, expr.left, depth + 1), _fold_names(P, f, defs, expr.right, depth + 1)
        return None if a is None or b is None else a + b
    if isinstance(expr, ast.ListComp) and len(expr.generators) == 1 and isinstance(expr.generators[0].target, ast.Name) and isinstance(expr.elt, ast.Name) and expr.elt.id == expr.generators[0].target.id:
        g = expr.generators[0]
        base = _fold_names(P, f, defs, g.iter, depth + 1)
        if base is None:
            return None
        out = []
        for nm in base:
            keep = True
            for cond in g.ifs:
                # membership in the dataset (`name in ds.variables`) is a run-time fact: such a filter keeps every name that may be present
                if isinstance(cond, ast.Compare) and len(cond.ops) == 1 and isinstance(cond.ops[0], ast.In) and isinstance(cond.left, ast.Name) and cond.left.id == g.target.id \
                        and not isinstance(cond.comparators[0], (ast.Tuple, ast.List)) and _fold_names(P, f, defs, cond.comparators[0], depth + 1) is None:
                    continue
                if isinstance(cond, ast.Compare) and len(cond.ops) == 1 and isinstance(cond.ops[0], (ast.In, ast.NotIn)) and isinstance(cond.left, ast.Name) and cond.left.id == g.target.id:
                    other = _fold_names(P, f, defs, cond.comparators[0], depth + 1)
                    if other is None:
                        return None
                    r = (nm in other) == isinstance(cond.ops[0], ast.In)
                else:
                    r = _eval_name_pred(cond, g.target.id, nm)
                if r is None:
                    return None
                keep = keep and r
            if keep:
                out.append(nm)
        return out
    return None


def _remap_by_name_lists(run, P, f, defs, isel):
    """second idiom of the routing in _slice_face_indices: explicit lists of names -  for n in <node-valued names>: ds[n] = renumbered ...;  ds.drop_vars(<stale names>)"""
    fn = f.node
    c0 = f"{f.key}:index-valued-variables"
    from ..loader import ConstInfo

    def _resolve(n):
        r = P.resolve_expr(f.module, n, f)
        return P.const_value(r) if isinstance(r, ConstInfo) else None
    _CONST_RESOLVER[0] = _resolve
    remap, remap_node, drop, drop_node = None, None, None, None
    for st in iter_stmts(fn.body):
        if isinstance(st, ast.For) and isinstance(st.target, ast.Name):
            stores = [s_ for s_ in iter_stmts(st.body) if isinstance(s_, ast.Assign) and isinstance(s_.targets[0], ast.Subscript) and norm(s_.targets[0].slice) == st.target.id]
            if stores:
                v = _fold_names(P, f, defs, st.iter)
                if v is not None:
                    remap, remap_node = v, stores[0]
        for n in ast.walk(st) if isinstance(st, (ast.Assign, ast.Expr)) else []:
            if isinstance(n, ast.Call) and isinstance(n.func, ast.Attribute) and n.func.attr == "drop_vars" and n.args:
                v = _fold_names(P, f, defs, n.args[0])
                if v is not None:
                    drop = (drop or []) + v
                    drop_node = st
    if remap is None or drop is None:
        run.incomplete("F-TABLE/subgrid-remap", c0, where(f), "neither a loop over the grid's variables nor foldable lists of remapped / dropped names found")
        return
    ug = P.module("uxarray.conventions.ugrid")
    ci = ug.defs.get("CONNECTIVITY_NAMES")
    v = P.const_value(ci) if ci is not None else None
    names = sorted({x for x in (v or []) if isinstance(x, str)} | {"hole_edge_indices"})
    if not v:
        run.incomplete("F-TABLE/subgrid-remap", c0, where(f), "CONNECTIVITY_NAMES not found in conventions/ugrid.py")
        return
    run.stats["index_valued_schema_variables"] = names
    for nm in ["edge_face_distances"]:
        c = f"{f.key}:route[{nm}]"
        if nm in drop:
            run.holds("F-TABLE/subgrid-remap", c, where(f, drop_node), f"{nm} (depends on both faces of an edge) is dropped and recomputed for the subset")
        else:
            run.violation("F-TABLE/subgrid-remap", c, where(f, drop_node), f"{nm} is carried over to the subset: an edge that lost one of its faces keeps the distance between the source grid's two faces instead of 0")
    for nm in names:
        c = f"{f.key}:route[{nm}]"
        if nm in remap and not nm.endswith("_node_connectivity"):
            run.violation("F-TABLE/subgrid-remap", c, where(f, remap_node), f"{nm} is remapped with the NODE index map although its values are not node indices")
        elif nm in remap:
            run.holds("F-TABLE/subgrid-remap", c, where(f, remap_node), f"{nm}: remap")
        elif nm in drop:
            run.holds("F-TABLE/subgrid-remap", c, where(f, drop_node), f"{nm}: drop")
        else:
            run.violation("F-TABLE/subgrid-remap", c, where(f, drop_node), f"{nm} (its values index a grid dimension) is in neither list ({len(remap)} remapped, {len(drop)} dropped names): the subset keeps indices of the "
                          "source grid's numbering for it")
    run.incomplete("F-TABLE/subgrid-remap", f"{f.key}:node-remap", where(f, remap_node), "the renumbering itself (fill value passthrough, attrs) is not re-checked for the name-list idiom")


def _fill_image(fn, defs, data, nodes, names_used):
    """What the node renumbering does to INT_FILL_VALUE: ("ok" | "bad" | "unknown", reason).
    Understood idioms:
      D[INT_FILL_VALUE] = INT_FILL_VALUE                      for a dict D used by the map
      np.where(x == FILL, FILL, <renumbered>)                 (or  x != FILL  with the arms exchanged)
      L[np.where(x == FILL, k, x)]                            lookup array: slot k must hold FILL and belong to no node:
                                                              L = np.full(n + 1, FILL) with k in (-1, n)  -> ok;   L = np.full(n, FILL), k = -1 -> the LAST NODE's slot -> bad
    """
    for s in iter_stmts(fn.body):
        if isinstance(s, ast.Assign) and isinstance(s.targets[0], ast.Subscript) and S.is_fill(s.targets[0].slice) and S.is_fill(s.value) and isinstance(s.targets[0].value, ast.Name) and s.targets[0].value.id in names_used:
            return "ok", "dict entry fill -> fill"

    def single(e):
        seen = 0
        while isinstance(e, ast.Name) and seen < 6:
            ds_ = defs.defs.get(e.id, [])
            if len(ds_) != 1 or ds_[0][1] is not None or ds_[0][2]:
                return e
            e = ds_[0][0]
            seen += 1
        return e

    def is_where(n):
        return isinstance(n, ast.Call) and (dotted(n.func) or [""])[-1] == "where" and len(n.args) == 3 and S.fill_test(n.args[0]) is not None

    exprs = [data] + list(nodes)
    index_wheres, lookups = set(), []
    for e in exprs:
        for n in ast.walk(e):
            if isinstance(n, ast.Subscript):
                sl = single(n.slice)
                if is_where(sl):
                    index_wheres.add(id(sl))
                    lookups.append((n, sl))
    # a where that is the result (not an index): the arm taken for padding must be the fill value
    for e in exprs:
        for n in ast.walk(e):
            if is_where(n) and id(n) not in index_wheres:
                kind, _x = S.fill_test(n.args[0])
                arm = n.args[1] if kind == "eq" else n.args[2]
                if S.is_fill(single(arm)):
                    return "ok", "np.where puts the fill value back"
    for sub, wh in lookups:
        kind, _x = S.fill_test(wh.args[0])
        k = single(wh.args[1] if kind == "eq" else wh.args[2])
        kv = k.value if isinstance(k, ast.Constant) and isinstance(k.value, int) else -k.operand.value if isinstance(k, ast.UnaryOp) and isinstance(k.op, ast.USub) and isinstance(k.operand, ast.Constant) else None
        L = single(sub.value)
        if not (isinstance(L, ast.Call) and (dotted(L.func) or [""])[-1] == "full" and len(L.args) >= 2 and S.is_fill(single(L.args[1]))):
            if S.is_fill(k):
                return "bad", f"padding is looked up as `{norm(sub)[:70]}` with INT_FILL_VALUE itself as the position: an index error or an arbitrary node"
            return "unknown", f"padding is looked up through `{norm(sub)[:70]}`; the lookup array is not built by np.full(size, INT_FILL_VALUE): what its slot for padding holds is not decided"
        size = single(L.args[0])
        extra = isinstance(size, ast.BinOp) and isinstance(size.op, ast.Add) and any(isinstance(x, ast.Constant) and isinstance(x.value, int) and x.value >= 1 for x in (size.left, size.right))
        if kv == -1 and extra:
            return "ok", "lookup array with one extra slot holding the fill value"
        if kv == -1 and not extra:
            return "bad", (f"padding is looked up through the LAST slot of the lookup array `{norm(L)[:60]}`, which has exactly one slot per source node: "
                           "when the last node of the source grid belongs to the subset, every padding entry becomes that node's new index")
        if kv is not None and kv >= 0:
            return "bad", f"padding is looked up through slot {kv} of the lookup array, which is the slot of source node {kv}: padding becomes that node's new index (or stays fill only when the node is not selected)"
        return "unknown", f"padding is looked up through slot `{norm(k)}` of `{norm(L)[:60]}`: not decided"
    # a masked store that puts the fill value back, in this function or in a helper of the module the renumbering is delegated to:
    #     is_fill = conn == INT_FILL_VALUE; ...; renumbered[is_fill] = INT_FILL_VALUE
    scopes = [(fn, defs)]
    P_, f_ = _FILL_CTX
    if P_ is not None:
        from ..loader import FuncInfo
        for e in exprs:
            for cl in ast.walk(e):
                if isinstance(cl, ast.Call):
                    t_ = P_.resolve_expr(f_.module, cl.func, f_)
                    if isinstance(t_, FuncInfo) and t_.module is f_.module:
                        scopes.append((t_.node, LocalDefs(t_.node)))
    for node_, d_ in scopes:
        for st_ in iter_stmts(node_.body):
            if isinstance(st_, ast.Assign) and isinstance(st_.targets[0], ast.Subscript) and S.is_fill(st_.value):
                m_ = st_.targets[0].slice
                n_ = 0
                while isinstance(m_, ast.Name) and n_ < 5:
                    dd = d_.defs.get(m_.id, [])
                    if len(dd) != 1:
                        break
                    m_ = dd[0][0]
                    n_ += 1
                ft = S.fill_test(m_)
                if ft and ft[0] == "eq":
                    return "ok", "masked store puts the fill value back"
    # understood and wrong: a dict / vectorised lookup without an entry for the fill value, or a lookup array indexed with the raw table
    uses_dict = any(isinstance(x, ast.Attribute) and x.attr in ("__getitem__", "get") for e in exprs for x in ast.walk(e)) or any(isinstance(x, (ast.DictComp, ast.Dict)) for e in exprs for x in ast.walk(e))
    if uses_dict:
        return "bad", "the node map (a dict lookup) has no entry that sends INT_FILL_VALUE to INT_FILL_VALUE: padding slots of short faces raise or become a real node of the subset"
    return "unknown", "how the node renumbering treats INT_FILL_VALUE (padding) is not recognised: no dict entry, no np.where / masked store putting it back, no lookup array with a slot for it"


_FILL_CTX = [None, None]


def _remap(run, P, f, defs, isel):
    _FILL_CTX[0], _FILL_CTX[1] = P, f
    fn = f.node
    loop = None
    for st in iter_stmts(fn.body):
        if isinstance(st, ast.For) and isinstance(st.target, ast.Name) and ("data_vars" in norm(st.iter) or "variables" in norm(st.iter) or norm(st.iter).endswith("_ds") or norm(st.iter) == "ds"):
            loop = st
    c0 = f"{f.key}:index-valued-variables"
    if loop is None:
        _remap_by_name_lists(run, P, f, defs, isel)
        return
    var = loop.target.id
    from ..loader import ConstInfo

    def _resolve(n):
        r = P.resolve_expr(f.module, n, f)
        return P.const_value(r) if isinstance(r, ConstInfo) else None
    _CONST_RESOLVER[0] = _resolve
    # iteration domain: a loop over .data_vars never sees variables that are stored as (index) coordinates.  A bare 1-D array
    # assigned as  _ds["name"] = <ndarray>  becomes a dimension coordinate named after itself (xarray semantics).
    if "data_vars" in norm(loop.iter):
        for g in P.all_functions():
            if not g.module.relpath.startswith("uxarray/grid/"):
                continue
            for st2 in iter_stmts(g.node.body):
                if isinstance(st2, ast.Assign) and isinstance(st2.targets[0], ast.Subscript) and isinstance(st2.targets[0].value, ast.Attribute) and st2.targets[0].value.attr == "_ds":
                    key = str_const(st2.targets[0].slice)
                    if key in ("hole_edge_indices",) or (key or "").startswith("subgrid_"):
                        v = st2.value
                        bare = not (isinstance(v, ast.Call) and (dotted(v.func) or [""])[-1] == "DataArray")
                        if bare:
                            run.violation("F-TABLE/subgrid-remap", f"{f.key}:loop-domain[{key}]", where(f, loop),
                                          f"the routing loop visits {norm(loop.iter)} only, but {key} is stored as a bare array at {where(g, st2)} and therefore becomes an index COORDINATE, not a data variable: "
                                          "it is never remapped or dropped and subsets keep the source grid's numbering")
    # branches: list of (test, kind) with kind in remap|drop
    branches = []

    def classify(body):
        for s in iter_stmts(body):
            if isinstance(s, ast.Assign) and isinstance(s.targets[0], ast.Subscript) and norm(s.targets[0].slice) == var:
                return "remap", s
            for n in ast.walk(s):
                if isinstance(n, ast.Call) and isinstance(n.func, ast.Attribute) and n.func.attr == "drop_vars":
                    return "drop", s
        return None, None
    st = next((s for s in loop.body if isinstance(s, ast.If)), None)
    while st is not None:
        kind, node = classify(st.body)
        branches.append((st.test, kind, node))
        nxt = st.orelse[0] if len(st.orelse) == 1 and isinstance(st.orelse[0], ast.If) else None
        if nxt is None and st.orelse:
            kind, node = classify(st.orelse)
            branches.append((None, kind, node))
        st = nxt
    # schema: index-valued variable names
    ug = P.module("uxarray.conventions.ugrid")
    names = None
    ci = ug.defs.get("CONNECTIVITY_NAMES")
    if ci is not None:
        v = P.const_value(ci)
        if isinstance(v, (list, tuple)):
            names = [x for x in v if isinstance(x, str)]
    if not names:
        run.incomplete("F-TABLE/subgrid-remap", c0, where(f), "CONNECTIVITY_NAMES not found in conventions/ugrid.py")
        return
    names = sorted(set(names) | {"hole_edge_indices"})
    # variables that are functions of BOTH faces of an edge: their values change on the subset's new boundary, so they must be dropped (recomputed lazily)
    ADJACENCY = ["edge_face_distances"]
    for nm in ADJACENCY:
        c = f"{f.key}:route[{nm}]"
        routed = None
        undecided = False
        for test, kind, node in branches:
            r = True if test is None else _eval_name_pred(test, var, nm)
            if r is None:
                undecided = True
                break
            if r:
                routed = (kind, node)
                break
        if undecided:
            run.incomplete("F-TABLE/subgrid-remap", c, where(f, loop), f"routing predicate for {nm} not evaluable")
        elif routed is not None and routed[0] == "drop":
            run.holds("F-TABLE/subgrid-remap", c, where(f, routed[1]), f"{nm} (depends on both faces of an edge) is dropped and recomputed for the subset")
        else:
            run.violation("F-TABLE/subgrid-remap", c, where(f, loop), f"{nm} is carried over to the subset: an edge that lost one of its faces keeps the distance between the source grid's two faces instead of 0")
    run.stats["index_valued_schema_variables"] = names
    for nm in names:
        c = f"{f.key}:route[{nm}]"
        routed = None
        undec = False
        for test, kind, node in branches:
            r = True if test is None else _eval_name_pred(test, var, nm)
            if r is None:
                undec = True
                break
            if r:
                routed = (kind, node)
                break
        values_node = nm.endswith("_node_connectivity")
        if undec:
            run.incomplete("F-TABLE/subgrid-remap", c, where(f, loop), f"routing predicate for {nm} not evaluable")
        elif routed is None or routed[0] is None:
            run.violation("F-TABLE/subgrid-remap", c, where(f, loop), f"{nm} (its values index a grid dimension) is neither remapped nor dropped when the grid is sliced: the subset keeps indices of the source grid's numbering")
        elif routed[0] == "remap" and not values_node:
            run.violation("F-TABLE/subgrid-remap", c, where(f, routed[1]), f"{nm} is remapped with the NODE index map although its values are not node indices")
        else:
            run.holds("F-TABLE/subgrid-remap", c, where(f, routed[1]), f"{nm}: {routed[0]}")
    # ---- the remap itself: source node index -> position in node_indices, fill value -> fill value; attrs without side tables
    rem = next(((t, n) for t, k, n in branches if k == "remap"), None)
    c = f"{f.key}:node-remap"
    if rem is None:
        run.violation("F-TABLE/subgrid-remap", c, where(f, loop), "no branch rewrites node-valued connectivity to the subgrid's node numbering")
        return
    node = rem[1]
    val = node.value
    data = val.args[0] if isinstance(val, ast.Call) and val.args else next((k.value for k in val.keywords if k.arg == "data"), None) if isinstance(val, ast.Call) else None
    nodes, names_used = defs.closure(data) if data is not None else ([], set())
    node_arr = isel["n_node"][0]
    probs = []
    if node_arr not in names_used:
        probs.append(f"the new node numbering is not derived from {node_arr}")
    # fill passthrough: mapping[INT_FILL_VALUE] = INT_FILL_VALUE, a where(...) that puts the fill value back, or a lookup array whose slot for padding holds the fill value
    verdict_, why_ = _fill_image(fn, defs, data, nodes, names_used)
    if verdict_ == "bad":
        probs.append(why_)
    elif verdict_ == "unknown":
        run.incomplete("F-TABLE/subgrid-remap", f"{f.key}:node-remap:fill-image", where(f, node), why_)
    attrs = next((k.value for k in val.keywords if k.arg == "attrs"), None) if isinstance(val, ast.Call) else None
    if attrs is not None:
        wholesale = isinstance(attrs, ast.Attribute) and attrs.attr == "attrs"
        filtered = isinstance(attrs, ast.DictComp) and any({"inverse_indices", "fill_value_mask"} <= {x.value for x in ast.walk(i) if isinstance(x, ast.Constant)} for g in attrs.generators for i in g.ifs)
        if wholesale or (isinstance(attrs, ast.DictComp) and not filtered):
            probs.append("the re-indexed array inherits the source array's attrs including inverse_indices/fill_value_mask (side tables of the source grid's edge numbering)")
    if probs:
        run.violation("F-TABLE/subgrid-remap", c, where(f, node), "; ".join(probs))
    else:
        run.holds("F-TABLE/subgrid-remap", c, where(f, node), "node-valued tables rewritten through node_indices -> position, fill value preserved, no index-dependent attrs inherited")


def _slice_via(run, P, fname, table):
    f = P.func(f"{SL}:{fname}")
    fn = f.node
    defs = LocalDefs(fn)
    c = f"{f.key}:faces"
    rets = [r for r in ast.walk(fn) if isinstance(r, ast.Return) and isinstance(r.value, ast.Call) and (dotted(r.value.func) or [""])[-1] == "_slice_face_indices"]
    if not rets:
        run.incomplete("IDX/subgrid", c, where(f), "call of _slice_face_indices not found")
        return
    arg = rets[0].value.args[1] if len(rets[0].value.args) > 1 else None
    if not isinstance(arg, ast.Name):
        run.incomplete("IDX/subgrid", c, where(f, rets[0]), "face index argument not a local name")
        return
    src = _gather_source(defs, arg.id, fn)
    filt = _has_fill_filter(defs, arg.id, fn)
    if src is None:
        th = _through_helper(P, f, defs, arg.id, fn)
        if th is not None:
            src = th[:3]
            filt = filt or (th[2] if th[3] else None)
    if src is None:
        run.incomplete("IDX/subgrid", c, where(f, rets[0]), f"how {arg.id} is obtained is not understood")
        return
    probs = []
    if src[0] != table:
        probs.append(f"faces are not gathered from {table}")
    elif src[1] != f.params()[1]:
        probs.append(f"{table} gathered with {src[1]}, not with the requested indices")
    if filt is None:
        probs.append("fill value not filtered from the face indices")
    if probs:
        run.violation("IDX/subgrid", c, where(f, rets[0]), "; ".join(probs))
    else:
        run.holds("IDX/subgrid", c, where(f, rets[0]), f"faces = unique values of {table}[indices] without the fill value")


def _grid_isel(run, P):
    f = P.func(f"{GRID}:Grid.isel")
    want = {"n_node": "_slice_node_indices", "n_edge": "_slice_edge_indices", "n_face": "_slice_face_indices"}
    found = {}
    for st in iter_stmts(f.node.body):
        if isinstance(st, ast.If):
            keys = [n.value for n in ast.walk(st.test) if isinstance(n, ast.Constant) and n.value in want]
            for r in st.body:
                if isinstance(r, ast.Return) and isinstance(r.value, ast.Call):
                    callee = (dotted(r.value.func) or [""])[-1]
                    argk = [str_const(n.slice) for n in ast.walk(r.value) if isinstance(n, ast.Subscript) and str_const(n.slice)]
                    for k in keys:
                        found[k] = (callee, argk, r)
    table_form = None
    if not found:
        # second idiom: a dict {dim: slicer} indexed with the requested dimension, called with the indices that came with that same dimension
        tables = {}
        for st in iter_stmts(f.node.body):
            if isinstance(st, ast.Assign) and isinstance(st.targets[0], ast.Name) and isinstance(st.value, ast.Dict) and all(k is not None and str_const(k) for k in st.value.keys) \
                    and all(isinstance(v, ast.Name) for v in st.value.values):
                tables[st.targets[0].id] = ({str_const(k): v.id for k, v in zip(st.value.keys, st.value.values)}, st)
        pair = None     # (dim name, indices name) unpacked together from <kwargs>.items()
        for st in iter_stmts(f.node.body):
            if isinstance(st, ast.Assign) and isinstance(st.value, ast.Call) and isinstance(st.value.func, ast.Attribute) and st.value.func.attr == "items":
                t = st.targets[0]
                while isinstance(t, (ast.Tuple, ast.List)) and len(t.elts) == 1:
                    t = t.elts[0]
                if isinstance(t, (ast.Tuple, ast.List)) and len(t.elts) == 2 and all(isinstance(e, ast.Name) for e in t.elts):
                    pair = (t.elts[0].id, t.elts[1].id)
        for r in [x for x in ast.walk(f.node) if isinstance(x, ast.Return) and isinstance(x.value, ast.Call) and isinstance(x.value.func, ast.Subscript)]:
            fn_ = r.value.func
            if isinstance(fn_.value, ast.Name) and fn_.value.id in tables and pair and norm(fn_.slice) == pair[0] and any(isinstance(a, ast.Name) and a.id == pair[1] for a in r.value.args):
                table_form = (tables[fn_.value.id], r)
    if table_form:
        (tb, tst), r = table_form
        for k, callee in want.items():
            c = f"Grid.isel:route[{k}]"
            if tb.get(k) == callee:
                run.holds("F-TABLE/isel-dispatch", c, where(f, r), f"{k} -> {callee}(self, <indices passed for {k}>) through the slicer table")
            elif k in tb:
                run.violation("F-TABLE/isel-dispatch", c, where(f, tst), f"{k} is routed to {tb[k]}")
            else:
                run.violation("F-TABLE/isel-dispatch", c, where(f, tst), f"no entry for {k} in the slicer table")
        return
    if not found:
        for k in want:
            run.incomplete("F-TABLE/isel-dispatch", f"Grid.isel:route[{k}]", where(f), "dispatch of the grid dimensions not recognised")
        return
    for k, callee in want.items():
        c = f"Grid.isel:route[{k}]"
        if k not in found:
            run.violation("F-TABLE/isel-dispatch", c, where(f), f"no branch for {k}")
        elif found[k][0] != callee or found[k][1] != [k]:
            run.violation("F-TABLE/isel-dispatch", c, where(f, found[k][2]), f"{k} is routed to {found[k][0]} with the indices of {found[k][1]}")
        else:
            run.holds("F-TABLE/isel-dispatch", c, where(f, found[k][2]), f"{k} -> {callee}(self, dim_kwargs['{k}'])")


def _slice_from_grid(run, P):
    f = P.func(f"{DA}:UxDataArray._slice_from_grid")
    want = {"_face_centered": "face", "_edge_centered": "edge", "_node_centered": "node"}
    n = 0
    DIM_KIND = {v: k for k, v in KIND_DIM.items()}

    def kind_of_test(test):
        """the element kind a branch condition selects:  self._<kind>_centered()   or   "<dim>" in self.dims  (what the predicate is defined as)"""
        for x in ast.walk(test):
            if isinstance(x, ast.Call) and isinstance(x.func, ast.Attribute) and x.func.attr in want:
                return want[x.func.attr]
            if isinstance(x, ast.Compare) and len(x.ops) == 1 and isinstance(x.ops[0], ast.In) and str_const(x.left) in DIM_KIND and norm(x.comparators[0]) == "self.dims":
                return DIM_KIND[str_const(x.left)]
        return None
    from ..flow import sequential_reads
    body_ = sequential_reads(f.node).body      # locals standing for a read (kept = sliced_grid._ds[...]) are substituted branch by branch
    st = next((s for s in body_ if isinstance(s, ast.If)), None)
    while st is not None:
        kind = kind_of_test(st.test)
        if kind:
            n += 1
            c = f"{f.key}:slice[{kind}]"
            ok = False
            for x in ast.walk(ast.Module(body=st.body, type_ignores=[])):
                if isinstance(x, ast.Call) and isinstance(x.func, ast.Attribute) and x.func.attr == "isel":
                    # isel(n_face=<indexer>)   |   isel({"n_face": <indexer>})   |   isel(indexers={...})
                    pairs = [(k.arg, k.value) for k in x.keywords if k.arg not in (None, "indexers")]
                    for d_ in [a for a in x.args[:1]] + [k.value for k in x.keywords if k.arg == "indexers"] + [k.value for k in x.keywords if k.arg is None]:
                        if isinstance(d_, ast.Dict):
                            pairs += [(str_const(kk), vv) for kk, vv in zip(d_.keys, d_.values) if kk is not None]
                    for arg, val in pairs:
                        if arg == KIND_DIM[kind]:
                            keys = [y.value for y in ast.walk(val) if isinstance(y, ast.Constant) and isinstance(y.value, str)]
                            grids = [norm(y.value) for y in ast.walk(val) if isinstance(y, ast.Attribute) and y.attr == "_ds"]
                            if keys == [f"subgrid_{kind}_indices"] and grids == [f.params()[1]]:
                                ok = True
            # second idiom: the branch only CHOOSES the indexer (name = {"n_face": <indexer>}); one isel(**name) after the chain applies it
            deferred = None
            if not ok:
                for a_ in st.body:
                    if isinstance(a_, ast.Assign) and len(a_.targets) == 1 and isinstance(a_.targets[0], ast.Name) and isinstance(a_.value, ast.Dict):
                        used = any(isinstance(x, ast.Call) and isinstance(x.func, ast.Attribute) and x.func.attr == "isel" and any(k.arg is None and norm(k.value) == a_.targets[0].id for k in x.keywords)
                                   for x in ast.walk(f.node))
                        if used:
                            deferred = a_
                            for kk, vv in zip(a_.value.keys, a_.value.values):
                                if kk is not None and str_const(kk) == KIND_DIM[kind]:
                                    keys = [y.value for y in ast.walk(vv) if isinstance(y, ast.Constant) and isinstance(y.value, str)]
                                    grids = [norm(y.value) for y in ast.walk(vv) if isinstance(y, ast.Attribute) and y.attr == "_ds"]
                                    if keys == [f"subgrid_{kind}_indices"] and grids == [f.params()[1]]:
                                        ok = True
            any_isel = any(isinstance(x, ast.Call) and isinstance(x.func, ast.Attribute) and x.func.attr == "isel" for x in ast.walk(ast.Module(body=st.body, type_ignores=[])))
            if ok:
                run.holds("F-TABLE/slice-data", c, where(f, st), f"{kind}-centred data sliced with the sliced grid's subgrid_{kind}_indices along {KIND_DIM[kind]}")
            elif not any_isel and deferred is None:
                run.incomplete("F-TABLE/slice-data", c, where(f, st), f"the branch for {kind}-centred data contains no isel and chooses no indexer dict: how the data are sliced is not recognised")
            else:
                run.violation("F-TABLE/slice-data", c, where(f, st), f"{kind}-centred data are not sliced along {KIND_DIM[kind]} with sliced_grid._ds['subgrid_{kind}_indices']")
        nxt = st.orelse[0] if len(st.orelse) == 1 and isinstance(st.orelse[0], ast.If) else None
        if nxt is None:
            c = f"{f.key}:other-kinds-raise"
            if st.orelse and any(isinstance(s, ast.Raise) for s in st.orelse):
                run.holds("F-TABLE/slice-data", c, where(f, st), "data of no element kind raise")
            else:
                run.violation("F-TABLE/slice-data", c, where(f, st), "data that are neither node, edge nor face centred fall through silently")
        st = nxt
    run.floor("F-TABLE/slice-data", n, 3)
    rets = [r for r in ast.walk(f.node) if isinstance(r, ast.Return)]
    c = f"{f.key}:grid-attached"
    ok = rets and all(isinstance(r.value, ast.Call) and any(k.arg == "uxgrid" and norm(k.value) == f.params()[1] for k in r.value.keywords) for r in rets)
    if ok:
        run.holds("F-TABLE/slice-data", c, where(f, rets[0]), "result carries the sliced grid")
    else:
        run.violation("F-TABLE/slice-data", c, where(f), "the sliced data are not attached to the sliced grid")
    # the coordinates handed to the new array are those of the SLICED data: the source's own coordinates still have the source's length along the grid dimension
    c = f"{f.key}:coords-of-the-sliced-data"
    me = f.params()[0]
    for r in rets:
        if not isinstance(r.value, ast.Call):
            continue
        cv = next((k.value for k in r.value.keywords if k.arg == "coords"), None)
        if cv is None:
            run.holds("F-TABLE/slice-data", c, where(f, r), "no coords argument: they come with the sliced data")
        elif norm(cv) in (f"{me}.coords", f"{me}._coords"):
            run.violation("F-TABLE/slice-data", c, where(f, r), f"the sliced data are given coords={norm(cv)}, the coordinates of the UNSLICED array: a variable with a coordinate along the sliced grid dimension "
                          "cannot be subset (xarray rejects the conflicting sizes)")
        elif isinstance(cv, ast.Attribute) and cv.attr in ("coords", "_coords") and norm(cv.value) != me:
            run.holds("F-TABLE/slice-data", c, where(f, r), f"coords={norm(cv)}: sliced together with the data")
        else:
            run.incomplete("F-TABLE/slice-data", c, where(f, r), f"coords={norm(cv)[:50]} not recognised")


def _accessors(run, P):
    f = P.func("uxarray/subset/grid_accessor.py:GridSubsetAccessor._index_grid")
    p = f.params()
    got = {}
    st = next((s for s in f.node.body if isinstance(s, ast.If)), None)
    while st is not None:
        lit = [n.value for n in ast.walk(st.test) if isinstance(n, ast.Constant) and n.value in ELEMENT]
        dims = [k.arg for s in st.body for n in ast.walk(s) if isinstance(n, ast.Call) for k in n.keywords if k.arg in KIND_DIM.values()]
        for l in lit:
            got[l] = dims
        if st.orelse and not (len(st.orelse) == 1 and isinstance(st.orelse[0], ast.If)):
            dims = [k.arg for s in st.orelse for n in ast.walk(s) if isinstance(n, ast.Call) for k in n.keywords if k.arg in KIND_DIM.values()]
            got["<else>"] = dims
        st = st.orelse[0] if len(st.orelse) == 1 and isinstance(st.orelse[0], ast.If) else None
    for lit, kind in ELEMENT.items():
        c = f"{f.key}:route[{lit}]"
        d = got.get(lit, got.get("<else>"))
        if d == [KIND_DIM[kind]]:
            run.holds("F-TABLE/subset-kinds", c, where(f), f'"{lit}" indices select along {KIND_DIM[kind]}')
        else:
            run.violation("F-TABLE/subset-kinds", c, where(f), f'indices from a tree over "{lit}" are applied along {d}')
    # bounding_box: coordinates and isel dimension per element
    f = P.func("uxarray/subset/grid_accessor.py:GridSubsetAccessor.bounding_box")
    for st in iter_stmts(f.node.body):
        if isinstance(st, ast.If) and isinstance(st.test, ast.Compare) and str_const(st.test.comparators[0]) in ELEMENT:
            lit = str_const(st.test.comparators[0])
            kind = ELEMENT[lit]
            attrs = {n.attr for s in st.body for n in ast.walk(s) if isinstance(n, ast.Attribute) and n.attr.split("_")[0] in KIND_DIM and n.attr.split("_")[-1] in ("lon", "lat")}
            dims = {k.arg for s in st.body for n in ast.walk(s) if isinstance(n, ast.Call) for k in n.keywords if k.arg in KIND_DIM.values()}
            if attrs:
                c = f"{f.key}:coords[{lit}]"
                if attrs == {f"{kind}_lon", f"{kind}_lat"}:
                    run.holds("F-TABLE/subset-kinds", c, where(f, st), f'"{lit}" tested on {sorted(attrs)}')
                else:
                    run.violation("F-TABLE/subset-kinds", c, where(f, st), f'"{lit}" tested on {sorted(attrs)}')
                # lat, lon unpack order
                for s in st.body:
                    if isinstance(s, ast.Assign) and isinstance(s.targets[0], ast.Tuple) and isinstance(s.value, ast.Tuple):
                        for t, v in zip(s.targets[0].elts, s.value.elts):
                            role = "lat" if "lat" in norm(t) else "lon" if "lon" in norm(t) else None
                            if role and role not in norm(v):
                                run.violation("F-TABLE/subset-kinds", c + ":roles", where(f, s), f"{norm(t)} receives {norm(v)}")
            if dims:
                c = f"{f.key}:isel[{lit}]"
                if dims == {KIND_DIM[kind]}:
                    run.holds("F-TABLE/subset-kinds", c, where(f, st), f'"{lit}" indices select along {KIND_DIM[kind]}')
                else:
                    run.violation("F-TABLE/subset-kinds", c, where(f, st), f'"{lit}" indices select along {sorted(dims)}')
    # trees are requested for the element kind given
    f = P.func("uxarray/subset/grid_accessor.py:GridSubsetAccessor._get_tree")
    for n in ast.walk(f.node):
        if isinstance(n, ast.Call) and isinstance(n.func, ast.Attribute) and n.func.attr in ("get_ball_tree", "get_kd_tree"):
            c = f"{f.key}:{n.func.attr}"
            if n.args and norm(n.args[0]) == f.params()[2] or any(k.arg == "coordinates" and norm(k.value) == f.params()[2] for k in n.keywords):
                run.holds("F-TABLE/subset-kinds", c, where(f, n), "tree requested over the element kind of the query")
            else:
                run.violation("F-TABLE/subset-kinds", c, where(f, n), "tree is not requested for the element kind of the query")
    # cross-section: faces from the scan -> isel(n_face=faces) for grid and data
    for key in ("uxarray/cross_sections/grid_accessor.py:GridCrossSectionAccessor.constant_latitude", "uxarray/cross_sections/dataarray_accessor.py:UxDataArrayCrossSectionAccessor.constant_latitude"):
        f = P.try_func(key)
        if f is None:
            run.incomplete("F-TABLE/subset-kinds", f"{key}:found", "-", "accessor not found")
            continue
        defs = LocalDefs(f.node)
        c = f"{f.key}:faces"
        ok = False
        for n in ast.walk(f.node):
            if isinstance(n, ast.Call) and isinstance(n.func, ast.Attribute) and n.func.attr == "isel":
                for k in n.keywords:
                    if k.arg == "n_face":
                        nodes, _ = defs.closure(k.value)
                        if any(isinstance(x, ast.Call) and (dotted(x.func) or [""])[-1] == "get_faces_at_constant_latitude" for e in nodes for x in ast.walk(e)):
                            ok = True
        if ok:
            run.holds("F-TABLE/subset-kinds", c, where(f), "faces from get_faces_at_constant_latitude select along n_face")
        else:
            run.violation("F-TABLE/subset-kinds", c, where(f), "the cross-section does not select the faces returned by get_faces_at_constant_latitude along n_face")
    f = P.func(f"{GRID}:Grid.get_faces_at_constant_latitude")
    from ..astutil import InterDefs
    I = InterDefs(P, f)      # the method and the helper methods / module functions it calls
    c = f"{f.key}:faces-of-edges"
    probs, unknown = [], []
    gathered = [(g, n) for g, n in I.walk() if isinstance(n, ast.Subscript) and isinstance(S.strip_copy(n.value), ast.Attribute) and S.strip_copy(n.value).attr == "edge_face_connectivity"]
    if not gathered:
        any_conn = any(isinstance(n, ast.Attribute) and n.attr.endswith("_connectivity") for _g, n in I.walk())
        (probs if any_conn else unknown).append("faces are not read from edge_face_connectivity")
    else:
        g0, n0 = gathered[0]
        behind = I.closure(g0, n0.slice)
        if not any(isinstance(x, ast.Call) and (dotted(x.func) or [""])[-1] in ("get_edges_at_constant_latitude", "fast_constant_lat_intersections") for _h, e in behind for x in ast.walk(e)):
            unknown.append("edge_face_connectivity is not seen to be indexed with the intersecting edges")
    if not any(S.fill_test(n) and S.fill_test(n)[0] == "ne" for _g, n in I.walk() if isinstance(n, ast.Compare)):
        (probs if gathered else unknown).append("the fill value (boundary edges have one face) is not removed from the faces")
    if probs:
        run.violation("IDX/subgrid", c, where(f), "; ".join(probs))
    elif unknown:
        run.incomplete("IDX/subgrid", c, where(f), "; ".join(unknown))
    else:
        run.holds("IDX/subgrid", c, where(f), "faces = edge_face_connectivity[intersecting edges] without the fill value")


# ---------------------------------------------------------------------------------------------------------------- latitude scan
def _lat_scan(run, P):
    f = P.func("uxarray/grid/intersections.py:fast_constant_lat_intersections")
    fn = f.node
    loop = next((s for s in iter_stmts(fn.body) if isinstance(s, ast.For)), None)
    c = f"{f.key}:predicate"
    if loop is None or not isinstance(loop.target, ast.Name):
        run.incomplete("F-PATH/strict-sign-test", c, where(f), "scan loop not found")
        return
    i = loop.target.id
    # locals inside the loop: z0 = edge_node_z[i, 0], z1 = edge_node_z[i, 1]
    zs = {}
    for s in iter_stmts(loop.body):
        if isinstance(s, ast.Assign) and isinstance(s.targets[0], ast.Name) and isinstance(s.value, ast.Subscript):
            ax = s.value.slice.elts if isinstance(s.value.slice, ast.Tuple) else []
            if len(ax) == 2 and norm(ax[0]) == i and isinstance(ax[1], ast.Constant):
                zs[s.targets[0].id] = ax[1].value
    test = next((s for s in iter_stmts(loop.body) if isinstance(s, ast.If)), None)
    if test is None or set(zs.values()) != {0, 1}:
        run.incomplete("F-PATH/strict-sign-test", c, where(f, loop), "endpoint z-values / intersection test not recognised")
        return
    # constant: the only other free name of the test
    free = {n.id for n in ast.walk(test.test) if isinstance(n, ast.Name)} - set(zs)
    if len(free) != 1:
        run.incomplete("F-PATH/strict-sign-test", c, where(f, test), f"free names of the test: {sorted(free)}")
        return
    cname = next(iter(free))
    z0 = next(k for k, v in zs.items() if v == 0)
    z1 = next(k for k, v in zs.items() if v == 1)
    code = compile(ast.Expression(body=test.test), "<predicate>", "eval")
    table = {}
    for s0, s1 in itertools.product((-1, 0, 1), repeat=2):
        # sign abstraction: constant at 0, endpoints at their sign
        table[(s0, s1)] = bool(eval(code, {"__builtins__": {}}, {z0: float(s0), z1: float(s1), cname: 0.0}))
    want = {k: (k[0] * k[1] == -1) for k in table}
    bad = {k: v for k, v in table.items() if v != want[k]}
    marks = any(isinstance(s, ast.Assign) and isinstance(s.targets[0], ast.Subscript) and norm(s.targets[0].slice) == i for s in iter_stmts(test.body))
    if bad:
        desc = ", ".join(f"(sign z0-c, sign z1-c)={k}: selected={v}" for k, v in sorted(bad.items()))
        run.violation("F-PATH/strict-sign-test", c, where(f, test), f"the edge test is not 'end nodes strictly on opposite sides': {desc}", facts={"truth_table": {str(k): v for k, v in table.items()}})
    elif not marks:
        run.violation("F-PATH/strict-sign-test", c, where(f, test), "an intersecting edge is not recorded at its own index")
    else:
        run.holds("F-PATH/strict-sign-test", c, where(f, test), "selected exactly when the end nodes are strictly on opposite sides (all 9 sign combinations)", facts={"truth_table": {str(k): v for k, v in table.items()}})
    # z constant = sin(deg2rad(lat))
    defs = LocalDefs(fn)
    nodes, _ = defs.closure(ast.Name(id=cname, ctx=ast.Load()))
    has_sin = any(isinstance(n, ast.Call) and (dotted(n.func) or [""])[-1] == "sin" for e in nodes for n in ast.walk(e))
    has_conv = any(isinstance(n, ast.Call) and (dotted(n.func) or [""])[-1] in ("deg2rad", "radians") for e in nodes for n in ast.walk(e))
    c = f"{f.key}:z-of-latitude"
    if has_sin and has_conv:
        run.holds("F-UNIT/scan-constant", c, where(f), "compared z = sin(deg2rad(lat))")
    else:
        run.violation("F-UNIT/scan-constant", c, where(f), f"the z value of the parallel is not sin(deg2rad(lat)) (sin: {has_sin}, degree conversion: {has_conv})")
    # prange: every store is subscripted by the loop variable only
    c = f"{f.key}:prange-writes"
    bad_w = []
    for s in iter_stmts(loop.body):
        if isinstance(s, (ast.Assign, ast.AugAssign)):
            t = s.targets[0] if isinstance(s, ast.Assign) else s.target
            if isinstance(t, ast.Subscript) and norm(t.slice) != i:
                bad_w.append(s)
            if isinstance(t, ast.Name) and isinstance(s, ast.AugAssign):
                bad_w.append(s)
    if bad_w:
        run.violation("F-NJIT/prange", c, where(f, bad_w[0]), f"parallel loop writes {norm(bad_w[0])[:60]} at a position other than its own index: iterations race")
    else:
        run.holds("F-NJIT/prange", c, where(f, loop), "each iteration writes only its own element")


def _edge_node_z(run, P):
    """the z values the scan compares with sin(lat) are the stored node_z gathered through edge_node_connectivity - no arithmetic in between:
    any floating-point operation (e.g. a re-normalisation) moves values by an ulp and turns a node lying exactly ON the parallel into one beside it"""
    f = P.try_func(f"{GRID}:Grid.edge_node_z")
    c = "Grid.edge_node_z:pure-gather"
    if f is None:
        run.incomplete("IDX/edge-node-z", c, "-", "property not found")
        return
    from ..astutil import InterDefs, Resolver
    I = InterDefs(P, f)

    def attr_of(e, g):
        """the grid attribute an operand stands for (through .values/.data/copies and single-definition locals of its function)"""
        e = S.strip_copy(Resolver(g.node).resolve(e))
        while isinstance(e, ast.Attribute) and e.attr in ("values", "data"):
            e = S.strip_copy(e.value)
        return e.attr if isinstance(e, ast.Attribute) else None
    gathers = []
    for g, n in I.walk():
        if isinstance(n, ast.Subscript) and isinstance(n.ctx, ast.Load):
            b_, i_ = attr_of(n.value, g), attr_of(n.slice, g)
            if b_ is None and isinstance(n.value, ast.Name) and g.node is not f.node:
                # a helper's parameter: the argument at the call site
                for h, e in I.closure(g, n.value):
                    if attr_of(e, h) == "node_z":
                        b_ = "node_z"
                for h, e in I.closure(g, n.slice):
                    if attr_of(e, h) == "edge_node_connectivity":
                        i_ = "edge_node_connectivity"
            if b_ == "node_z" and i_ == "edge_node_connectivity":
                gathers.append((g, n))
    # arithmetic anywhere in the scope on the way to the stored value
    arith = [(g, n) for g, n in I.walk() if (isinstance(n, ast.BinOp) and isinstance(n.op, (ast.Add, ast.Sub, ast.Mult, ast.Div, ast.Pow)) and not all(isinstance(x, ast.Constant) for x in (n.left, n.right)))
             or (isinstance(n, ast.Call) and any(t in (dotted(n.func) or [""])[-1] for t in ("normalize", "sqrt", "round", "clip", "astype")))]
    if gathers and not arith:
        run.holds("IDX/edge-node-z", c, where(gathers[0][0], gathers[0][1]), "edge_node_z = node_z[edge_node_connectivity]")
    elif arith:
        g, n = arith[0]
        run.violation("IDX/edge-node-z", c, where(g, n), f"edge_node_z passes through {norm(n)[:60]}: not the stored node_z gathered by edge_node_connectivity - values that lie exactly on a queried parallel no longer compare equal to sin(lat)")
    else:
        run.incomplete("IDX/edge-node-z", c, where(f), "gather node_z[edge_node_connectivity] not found")


def _isel_gets_indices(run, P):
    """Grid.isel(n_face=..|n_node=..|n_edge=..) takes element INDICES: _slice_face_indices casts its argument with np.asarray(.., dtype=INT_DTYPE), which turns a boolean
    mask into the indices 0 and 1.  In the subset / cross-section accessors the argument must therefore be an index array (argwhere / flatnonzero / where()[0] /
    set operations on such / a tree query), not the mask it was computed from."""
    from ..astutil import LocalDefs
    MASK_FUNCS = {"logical_and", "logical_or", "logical_not", "logical_xor", "isin", "isnan", "isclose", "zeros_like", "ones_like"}
    INDEX_FUNCS = {"argwhere", "flatnonzero", "intersect1d", "union1d", "setdiff1d", "unique", "arange", "argsort", "query", "query_radius", "atleast_1d", "squeeze", "ravel", "asarray", "array", "concatenate"}

    def kind_of(e, defs, depth=0):
        if depth > 6 or e is None:
            return None
        if isinstance(e, ast.Name):
            ds_ = defs.defs.get(e.id, [])
            ks = {kind_of(v, defs, depth + 1) for v, i_, l_ in ds_ if i_ is None and not l_}
            if ds_ and len(ks) == 1:
                return ks.pop()
            return None
        if isinstance(e, (ast.Compare,)):
            return "mask"
        if isinstance(e, ast.UnaryOp) and isinstance(e.op, ast.Invert):
            return "mask" if kind_of(e.operand, defs, depth + 1) == "mask" else None
        if isinstance(e, ast.BinOp) and isinstance(e.op, (ast.BitAnd, ast.BitOr, ast.BitXor)):
            return "mask" if "mask" in (kind_of(e.left, defs, depth + 1), kind_of(e.right, defs, depth + 1)) else None
        if isinstance(e, ast.Subscript):
            v = e.value
            if isinstance(v, ast.Call) and (dotted(v.func) or [""])[-1] in ("where", "nonzero") and len(v.args) == 1:
                return "index"
            return kind_of(v, defs, depth + 1) if isinstance(v, ast.Name) else None
        if isinstance(e, ast.Call):
            nm = (dotted(e.func) or [""])[-1] if dotted(e.func) else (e.func.attr if isinstance(e.func, ast.Attribute) else "")
            if nm in MASK_FUNCS:
                return "mask"
            if nm in ("argwhere", "flatnonzero", "intersect1d", "union1d", "setdiff1d", "argsort", "query", "query_radius", "arange"):
                return "index"
            if nm in ("squeeze", "ravel", "asarray", "array", "atleast_1d", "astype", "flatten", "copy"):
                inner = e.args[0] if (e.args and isinstance(e.func, ast.Attribute) and isinstance(e.func.value, ast.Name) and e.func.value.id in ("np", "numpy")) else (e.func.value if isinstance(e.func, ast.Attribute) else None)
                return kind_of(inner, defs, depth + 1)
        return None
    n = 0
    for f in P.all_functions():
        if not (f.module.relpath.startswith("uxarray/subset/") or f.module.relpath.startswith("uxarray/cross_sections/")):
            continue
        defs = LocalDefs(f.node)
        for call in ast.walk(f.node):
            if not (isinstance(call, ast.Call) and isinstance(call.func, ast.Attribute) and call.func.attr == "isel"):
                continue
            for k in call.keywords:
                if k.arg not in ("n_face", "n_node", "n_edge"):
                    continue
                n += 1
                c = f"{f.key}:isel({k.arg}={norm(k.value)[:30]})"
                kd = kind_of(k.value, defs)
                # does the slicer of this dimension cast its argument to an integer dtype (then a mask becomes 0/1), or only use it as a fancy index (then a mask selects the same rows)?
                sl = P.try_func(f"uxarray/grid/slice.py:{ {'n_face': '_slice_face_indices', 'n_node': '_slice_node_indices', 'n_edge': '_slice_edge_indices'}[k.arg] }")
                casts = None
                if sl is not None and len(sl.params()) > 1:
                    ip = sl.params()[1]
                    casts = any(isinstance(x, ast.Call) and (dotted(x.func) or [""])[-1] in ("asarray", "array", "astype") and any(kw.arg == "dtype" for kw in x.keywords) and x.args and norm(x.args[0]) == ip for x in ast.walk(sl.node))
                if kd == "mask" and casts is False:
                    run.holds("IDX/isel-takes-indices", c, where(f, call), f"a boolean mask; the slicer of {k.arg} uses its argument only as a fancy index, which selects the same rows")
                elif kd == "mask" and casts is None:
                    run.incomplete("IDX/isel-takes-indices", c, where(f, call), f"a boolean mask is passed for {k.arg}; its slicer was not found")
                elif kd == "mask":
                    run.violation("IDX/isel-takes-indices", c, where(f, call), f"`{norm(k.value)[:40]}` is a boolean mask; Grid.isel casts its argument to INT_DTYPE, so for {k.arg} the mask is read as the element indices 0 and 1 "
                                  "(the subset consists of copies of elements 0 and 1 instead of the selected elements)")
                else:
                    run.holds("IDX/isel-takes-indices", c, where(f, call), "index array" if kd == "index" else "not a mask by construction")
    run.floor("IDX/isel-takes-indices", n, 6)


def _cross_section_source(run, P):
    """The faces of a constant-latitude cross-section are those Grid.get_faces_at_constant_latitude returns (the edge scan decided by the other rules of this property).
    Every definition of the index array handed to isel(n_face=...) in the cross-section accessors must be that call; another derivation is a second algorithm this
    property's rules have not read."""
    from ..astutil import LocalDefs
    n = 0
    for f in P.all_functions():
        if not f.module.relpath.startswith("uxarray/cross_sections/") or f.name != "constant_latitude":
            continue
        defs = LocalDefs(f.node)
        for call in ast.walk(f.node):
            if not (isinstance(call, ast.Call) and isinstance(call.func, ast.Attribute) and call.func.attr == "isel"):
                continue
            kv = next((k.value for k in call.keywords if k.arg == "n_face"), None)
            if kv is None:
                continue
            n += 1
            c = f"{f.key}:faces-from-the-latitude-scan"

            def leaves(e, depth=0):
                if isinstance(e, ast.Name) and e.id in defs.defs and depth < 5:
                    out = []
                    for v, _i, _l in defs.defs[e.id]:
                        out += leaves(v, depth + 1)
                    return out
                return [e]
            other = [v for v in leaves(kv) if not (isinstance(v, ast.Call) and (dotted(v.func) or [""])[-1] == "get_faces_at_constant_latitude")]
            if not other:
                run.holds("F-PATH/cross-section-source", c, where(f, call), "the faces come from Grid.get_faces_at_constant_latitude on every path")
            else:
                run.incomplete("F-PATH/cross-section-source", c, where(f, call), f"on some path the faces come from `{norm(other[0])[:60]}`, not from Grid.get_faces_at_constant_latitude: a second way of finding the intersected faces that the rules of this property have not read")
    run.floor("F-PATH/cross-section-source", n, 2)

