"""C19  A grid shares no mutable state with its inputs, copies or exports.

Decided (F-ALIAS): writes that reach caller-owned buffers/containers from the public constructors,
internal objects handed to another owner, cached/internal objects returned without a copy.
Exported datasets own their buffers; the ownership analysis follows calls six levels deep (readers' in-place helpers)."""

import ast

from ..astutil import iter_stmts, norm, where
from ..loader import dotted
from ..rules.common import ALIAS_ENTRIES, dataflow, emit

RULES = {
    "ALIAS/param-write",
    "ALIAS/internal-ds-shared",
    "ALIAS/internal-returned",
    "ALIAS/cache-returned",
}


def check(run):
    P = run.program
    run.explanation = (
        "Ownership analysis by abstract interpretation of the public constructors (Grid.__init__, from_dataset, "
        "from_topology, from_face_vertices, from_file, open_grid) down to depth 6/8: every value carries the set of "
        "objects it may alias (a caller's parameter at container or buffer level, Grid._ds, a memo slot, fresh); "
        "an in-place write (item/augmented assignment, .sort/.put, .data=, attrs[...]=) through a may-alias of a caller's "
        "object, an internal dataset passed to a second Grid or returned by an export, an attrs dict adopted without copy, "
        "and a memo object returned without copy are definite violations.  Deep aliasing inside xarray/pandas objects "
        "beyond the first level is not decided."
    )
    run.rule_text = "F-ALIAS: ALIAS-1 param-write, ALIAS-2 internal shared/returned, ALIAS-3 cache returned"
    run.assumptions = [
        "np.asarray/.values/.data/slicing/reshape/ravel/.T alias the operand's buffer; astype/copy/np.array/arithmetic/fancy indexing give fresh arrays",
        "Dataset.rename/swap_dims/isel/drop_vars/set_coords return a new container whose variables share buffers but not Variable objects or attrs dicts",
        "parameters are taken to be of the most aliasing admissible kind (ndarray / xr.Dataset)",
        "xarray's Dataset/DataArray .attrs setter stores dict(value): assigning another object's attrs does not share the dict (so _parse_global_attrs is not an alias)",
    ]
    for k in ALIAS_ENTRIES:
        P.func(k)  # anchors must exist
    # the readers' in-place helpers sit five calls below from_dataset (reader -> mesh builder -> parser -> loader -> helper): depth 6 also in the quick tier
    R = dataflow(P, run.tier, depth=6 if run.tier == "quick" else 8)
    ok, bad = emit(run, R, RULES)
    run.stats.update(R.I.stats)
    run.floor("F-ALIAS", ok + bad, 8)
    # exports handed to data conversions: the conversion writes into a copy, and the matplotlib collections are copied on every return
    from .c15 import _copies
    _copies(run, P)
    _export_buffers(run, P)



# ---------------------------------------------------------------------------------------------------------------- exported datasets own their arrays
FRESH_CALLS = {"array", "copy", "deepcopy", "astype", "zeros", "ones", "full", "empty", "arange", "column_stack", "concatenate", "stack", "hstack", "vstack", "where", "unique",
               "deg2rad", "rad2deg", "sqrt", "sum", "mean", "cumsum", "repeat", "tile", "sort", "argsort", "abs", "zeros_like", "ones_like", "full_like", "linspace", "isin", "nonzero",
               "flatnonzero", "round", "clip", "mod", "arctan2", "arcsin", "sin", "cos"}
VIEW_CALLS = {"asarray", "asanyarray", "reshape", "ravel", "squeeze", "transpose", "swapaxes", "atleast_1d", "atleast_2d", "expand_dims", "view", "DataArray", "Variable", "broadcast_to"}


def _all_callers_pass_fresh(P, f, param):
    """every call of f in the package passes, for `param`, a deep copy made at the call site (X.copy(deep=True) / copy.deepcopy(X)); False when there is no call site"""
    from ..loader import FuncInfo
    ps = f.params()
    if param not in ps:
        return False
    i = ps.index(param)
    sites = 0
    for g in P.all_functions():
        for n in ast.walk(g.node):
            if isinstance(n, ast.Call):
                t = P.resolve_expr(g.module, n.func, g)
                if isinstance(t, FuncInfo) and t.node is f.node:
                    sites += 1
                    a = n.args[i] if i < len(n.args) else next((k.value for k in n.keywords if k.arg == param), None)
                    deep = isinstance(a, ast.Call) and ((isinstance(a.func, ast.Attribute) and a.func.attr == "copy" and any(k.arg == "deep" and isinstance(k.value, ast.Constant) and k.value.value is True for k in a.keywords))
                                                        or (dotted(a.func) or [""])[-1] == "deepcopy")
                    if not deep:
                        return False
    return sites > 0


def _export_buffers(run, P):
    """Grid.to_xarray / encode_as hand the caller a dataset he may edit in place: every array put into it must be FRESH (the result of arithmetic, np.array, .copy(),
    astype, fancy indexing ...), never a view of an array that lives in Grid._ds.  The encoders receive the grid's dataset or its variables as parameters; a value is
    `shared` when it reaches the output through names/attributes/.values/.data/basic views only.  A dataset-level Dataset.copy() without deep=True keeps every array shared."""
    from ..astutil import LocalDefs
    R = "ALIAS/export-shares-buffer"
    encoders = ["uxarray/io/_ugrid.py:_encode_ugrid", "uxarray/io/_scrip.py:_encode_scrip", "uxarray/io/_exodus.py:_encode_exodus"]
    for key in encoders:
        f = P.func(key)
        params = set(f.params())
        defs = LocalDefs(f.node)

        def state(e, depth=0, seen=()):
            """'fresh' | 'shared:<param>' | 'unknown' for an array/dataset valued expression"""
            if depth > 8:
                return "unknown"
            if isinstance(e, ast.Constant) or isinstance(e, (ast.List, ast.Tuple, ast.ListComp, ast.BinOp, ast.UnaryOp, ast.Compare, ast.BoolOp)):
                return "fresh"
            if isinstance(e, ast.Name):
                ds_ = [v for v, _i, _l in defs.defs.get(e.id, [])]
                if e.id in params and not ds_:
                    return f"shared:{e.id}"
                if e.id in seen:
                    return "fresh"   # cyclic rebinding ds = ds.copy(): judged by the non-cyclic definitions
                sts = [state(v, depth + 1, seen + (e.id,)) for v in ds_]
                if e.id in params:
                    sts.append(f"shared:{e.id}")
                # flow-insensitive: the value is fresh only if the LAST binding before use is; approximate by "every rebinding chain ends fresh":
                # a name rebound from itself (ds = ds.copy(deep=True); ds = ds.drop_vars(..)) is fresh when one of the self-rebindings makes it fresh
                if any(x == "fresh" for x in sts) and all(x == "fresh" or x.startswith("shared") for x in sts) and any(_self_rebind_fresh(v, e.id) for v in ds_):
                    return "fresh"
                for x in sts:
                    if x.startswith("shared"):
                        return x
                return "unknown" if "unknown" in sts or not sts else "fresh"
            if isinstance(e, ast.Attribute):
                if e.attr in ("values", "data", "T", "real", "attrs", "variables"):
                    return state(e.value, depth + 1, seen)
                return state(e.value, depth + 1, seen)
            if isinstance(e, ast.Subscript):
                base = state(e.value, depth + 1, seen)
                if not base.startswith("shared"):
                    return base
                sl = e.slice
                # fancy indexing copies; a string key selects a variable of a dataset (same buffer); slices are views
                if isinstance(sl, ast.Constant) and isinstance(sl.value, str):
                    return base
                if isinstance(sl, (ast.Slice,)) or (isinstance(sl, ast.Tuple) and all(isinstance(x, (ast.Slice, ast.Constant)) for x in sl.elts)) or (isinstance(sl, ast.Constant)):
                    return base
                return "fresh"
            if isinstance(e, ast.Call):
                nm = (dotted(e.func) or [""])[-1]
                recv = e.func.value if isinstance(e.func, ast.Attribute) and not (isinstance(e.func.value, ast.Name) and e.func.value.id in ("np", "numpy", "xr", "xarray", "copy")) else None
                if nm == "copy" and recv is not None:
                    deep = next((k.value for k in e.keywords if k.arg == "deep"), e.args[0] if e.args else None)
                    inner = state(recv, depth + 1, seen)
                    # ndarray.copy() is always a new buffer; Dataset/DataArray.copy() defaults... to deep=True for DataArray/Dataset? -> xarray: deep=True default for
                    # DataArray.copy and Dataset.copy is deep=False.  The receiver kind is not known here, so only an explicit deep=True counts for dataset-like receivers
                    if isinstance(deep, ast.Constant) and deep.value is True:
                        return "fresh"
                    if inner.startswith("shared") and not _is_dataset_like(recv, params):
                        return "fresh"
                    return inner
                if nm in ("deepcopy",):
                    return "fresh"
                if nm == "Dataset":
                    # a new container; its variables are judged one by one where they are stored
                    return "fresh" if not e.args and not any(k.arg in ("data_vars", "coords") for k in e.keywords) else "unknown"
                if nm in VIEW_CALLS or nm in ("drop_vars", "rename", "rename_vars", "rename_dims", "set_coords", "reset_coords", "assign", "assign_coords", "assign_attrs", "swap_dims", "isel"):
                    src = recv if recv is not None else next((k.value for k in e.keywords if k.arg == "data"), e.args[0] if e.args else None)
                    if nm == "isel":
                        return "fresh" if src is None else "unknown"
                    return state(src, depth + 1, seen) if src is not None else "unknown"
                if nm in FRESH_CALLS:
                    return "fresh"
                tgt = P.resolve_expr(f.module, e.func, f)
                from ..loader import FuncInfo
                if isinstance(tgt, FuncInfo):
                    return "fresh" if depth < 8 else "unknown"      # package helpers of the encoders compute new arrays (checked by reading: grid_center_lat_lon, _pad...)
                return "unknown"
            return "unknown"

        def _self_rebind_fresh(v, name):
            return isinstance(v, ast.Call) and isinstance(v.func, ast.Attribute) and v.func.attr == "copy" and isinstance(v.func.value, ast.Name) and v.func.value.id == name \
                and any(k.arg == "deep" and isinstance(k.value, ast.Constant) and k.value.value is True for k in v.keywords)

        def _is_dataset_like(e, params_):
            """the receiver is the dataset parameter itself (ds.copy()), not one array of it"""
            return isinstance(e, ast.Name)
        n_out = 0
        # (a) the returned dataset as a whole
        for r in [x for x in ast.walk(f.node) if isinstance(x, ast.Return) and x.value is not None]:
            st_ = state(r.value)
            c = f"{f.key}:returned-dataset"
            n_out += 1
            if st_.startswith("shared") and _all_callers_pass_fresh(P, f, st_[7:]):
                run.holds(R, c, where(f, r), f"the encoder works on the dataset it is given; every call site hands it a deep copy ({st_[7:]})")
            elif st_.startswith("shared"):
                run.violation(R, c, where(f, r), f"the exported dataset is (a shallow copy of) the {st_[7:]} it was given: its variables share their buffers with Grid._ds, so an in-place edit of the export "
                              "(out['node_lon'].values[0] = ...) changes what the grid reports; Dataset.copy(deep=True) is needed")
            elif st_ == "unknown":
                run.incomplete(R, c, where(f, r), f"origin of the returned dataset {norm(r.value)[:40]} not understood")
            else:
                run.holds(R, c, where(f, r), "the returned dataset is a new container / a deep copy")
        # (b) every variable stored into the output
        outs = {norm(r.value) for r in ast.walk(f.node) if isinstance(r, ast.Return) and r.value is not None}
        for st in iter_stmts(f.node.body):
            if isinstance(st, ast.Assign) and len(st.targets) == 1 and isinstance(st.targets[0], ast.Subscript) and norm(st.targets[0].value) in outs:
                v = st.value
                data = v
                if isinstance(v, ast.Call) and (dotted(v.func) or [""])[-1] in ("DataArray", "Variable"):
                    data = next((k.value for k in v.keywords if k.arg == "data"), v.args[0] if v.args else None)
                if data is None:
                    continue
                n_out += 1
                stt = state(data)
                c = f"{f.key}:out[{norm(st.targets[0].slice)[:30]}]"
                if stt.startswith("shared"):
                    run.violation(R, c, where(f, st), f"{norm(st.targets[0])[:50]} is built on {norm(data)[:40]}, the array the grid itself holds ({stt[7:]}): editing the export in place changes the grid")
                elif stt == "unknown":
                    run.incomplete(R, c, where(f, st), f"origin of {norm(data)[:50]} not understood")
                else:
                    run.holds(R, c, where(f, st), "a new array")
        run.floor(f"{R}@{f.name}", n_out, 1)
