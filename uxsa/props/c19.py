"""C19  A grid shares no mutable state with its inputs, copies or exports.

Decided (F-ALIAS): writes that reach caller-owned buffers/containers from the public constructors,
internal objects handed to another owner, cached/internal objects returned without a copy."""

from ..rules.common import ALIAS_ENTRIES, dataflow, emit

RULES = {
    "ALIAS/param-write",
    "ALIAS/internal-ds-shared",
    "ALIAS/internal-returned",
    "ALIAS/cache-returned",
}


def check(run):
    P = run.program
    run.explanation = (
        "Ownership analysis by abstract interpretation of the public constructors (Grid.__init__, from_dataset, "
        "from_topology, from_face_vertices, from_file, open_grid) down to depth 4/6: every value carries the set of "
        "objects it may alias (a caller's parameter at container or buffer level, Grid._ds, a memo slot, fresh); "
        "an in-place write (item/augmented assignment, .sort/.put, .data=, attrs[...]=) through a may-alias of a caller's "
        "object, an internal dataset passed to a second Grid or returned by an export, an attrs dict adopted without copy, "
        "and a memo object returned without copy are definite violations.  Deep aliasing inside xarray/pandas objects "
        "beyond the first level is not decided."
    )
    run.rule_text = "F-ALIAS: ALIAS-1 param-write, ALIAS-2 internal shared/returned, ALIAS-3 cache returned"
    run.assumptions = [
        "np.asarray/.values/.data/slicing/reshape/ravel/.T alias the operand's buffer; astype/copy/np.array/arithmetic/fancy indexing give fresh arrays",
        "Dataset.rename/swap_dims/isel/drop_vars/set_coords return a new container whose variables share buffers but not Variable objects or attrs dicts",
        "parameters are taken to be of the most aliasing admissible kind (ndarray / xr.Dataset)",
        "xarray's Dataset/DataArray .attrs setter stores dict(value): assigning another object's attrs does not share the dict (so _parse_global_attrs is not an alias)",
    ]
    for k in ALIAS_ENTRIES:
        P.func(k)  # anchors must exist
    R = dataflow(P, run.tier)
    ok, bad = emit(run, R, RULES)
    run.stats.update(R.I.stats)
    run.floor("F-ALIAS", ok + bad, 8)
    # exports handed to data conversions: the conversion writes into a copy, and the matplotlib collections are copied on every return
    from .c15 import _copies
    _copies(run, P)

