"""Behaviour-preserving source normalisations applied to every parsed module before any rule looks at it, so that the rules read ONE spelling of
idioms that refactorings commonly alternate between.  Each rewrite is an equivalence of Python semantics under a stated side condition that is checked.

N1  local alias of a private container attribute
        c = self._cache            (single binding of c in the function; c never rebound, deleted, declared global/nonlocal;
        ... c["k"] ...              no assignment to <obj>._cache anywhere in the function)
    ==> every load of c is replaced by self._cache.  Side condition makes `c` and `self._cache` the same object at every use.
    Restricted to attributes whose name starts with "_" on a bare name (self / a parameter): these are plain instance attributes in this package
    (properties are public names), so re-evaluating the attribute has no effect.

N2  dict.update with keywords / a literal dict on such an attribute, as a statement
        self._cache.update(a=x, b=y)      /     self._cache.update({"a": x, "b": y})
    ==> self._cache["a"] = x; self._cache["b"] = y      (same order; dict.update assigns the keys one after another)
    Only when the receiver's attribute name ends in "_cached_parameters" or is "_ds"-like private state is NOT required: any private attribute on a bare
    name qualifies, the receiver must be a dict for .update(k=v) to be legal at all.  xarray Datasets also accept update({...}) with assignment semantics
    per key, so the rewrite is valid for `_ds` too.
"""
import ast
import copy


def _private_attr(e):
    return isinstance(e, ast.Attribute) and e.attr.startswith("_") and not e.attr.startswith("__") and isinstance(e.value, ast.Name)


class _Scope(ast.NodeVisitor):
    """bindings of local names in ONE function (nested functions included: a nested rebinding disqualifies too)"""

    def __init__(self):
        self.bind = {}      # name -> [value or None]
        self.attr_stores = set()   # (obj, attr) assigned in the function
        self.bad = set()

    def _target(self, t, value):
        if isinstance(t, ast.Name):
            self.bind.setdefault(t.id, []).append(value)
        elif isinstance(t, (ast.Tuple, ast.List)):
            for e in t.elts:
                self._target(e, None)
        elif isinstance(t, ast.Starred):
            self._target(t.value, None)
        elif isinstance(t, ast.Attribute) and isinstance(t.value, ast.Name):
            self.attr_stores.add((t.value.id, t.attr))

    def visit_Assign(self, n):
        for t in n.targets:
            self._target(t, n.value if len(n.targets) == 1 else None)
        self.generic_visit(n)

    def visit_AnnAssign(self, n):
        self._target(n.target, n.value)
        self.generic_visit(n)

    def visit_AugAssign(self, n):
        self._target(n.target, None)
        self.generic_visit(n)

    def visit_For(self, n):
        self._target(n.target, None)
        self.generic_visit(n)

    visit_AsyncFor = visit_For

    def visit_With(self, n):
        for it in n.items:
            if it.optional_vars is not None:
                self._target(it.optional_vars, None)
        self.generic_visit(n)

    visit_AsyncWith = visit_With

    def visit_NamedExpr(self, n):
        self._target(n.target, None)
        self.generic_visit(n)

    def visit_comprehension(self, n):
        self._target(n.target, None)
        self.generic_visit(n)

    def visit_ExceptHandler(self, n):
        if n.name:
            self.bind.setdefault(n.name, []).append(None)
        self.generic_visit(n)

    def visit_Global(self, n):
        self.bad.update(n.names)

    visit_Nonlocal = visit_Global

    def visit_Delete(self, n):
        for t in n.targets:
            if isinstance(t, ast.Name):
                self.bad.add(t.id)
            elif isinstance(t, ast.Attribute) and isinstance(t.value, ast.Name):
                self.attr_stores.add((t.value.id, t.attr))
        self.generic_visit(n)

    def visit_Import(self, n):
        for a in n.names:
            self.bind.setdefault((a.asname or a.name).split(".")[0], []).append(None)

    visit_ImportFrom = visit_Import

    def visit_FunctionDef(self, n):
        self.bind.setdefault(n.name, []).append(None)
        for a in n.args.posonlyargs + n.args.args + n.args.kwonlyargs + [x for x in (n.args.vararg, n.args.kwarg) if x]:
            self.bind.setdefault(a.arg, []).append(None)   # a nested parameter of the same name shadows: disqualify
        self.generic_visit(n)

    visit_AsyncFunctionDef = visit_FunctionDef

    def visit_Lambda(self, n):
        for a in n.args.posonlyargs + n.args.args + n.args.kwonlyargs + [x for x in (n.args.vararg, n.args.kwarg) if x]:
            self.bind.setdefault(a.arg, []).append(None)
        self.generic_visit(n)


def _aliases(fnode):
    sc = _Scope()
    params = {a.arg for a in fnode.args.posonlyargs + fnode.args.args + fnode.args.kwonlyargs}
    for st in fnode.body:
        sc.visit(st)
    out = {}
    for name, vals in sc.bind.items():
        if name in sc.bad or name in params or len(vals) != 1 or vals[0] is None:
            continue
        v = vals[0]
        if not _private_attr(v):
            continue
        obj = v.value.id
        # the object the attribute hangs off must itself be stable: a parameter or self, never rebound
        if obj not in params or obj in sc.bind or obj in sc.bad:
            continue
        if (obj, v.attr) in sc.attr_stores:
            continue
        out[name] = v
    return out


class _Subst(ast.NodeTransformer):
    def __init__(self, aliases):
        self.aliases = aliases

    def visit_Name(self, n):
        if isinstance(n.ctx, ast.Load) and n.id in self.aliases:
            new = copy.deepcopy(self.aliases[n.id])
            for x in ast.walk(new):
                ast.copy_location(x, n)
            return new
        return n


def _split_update(st):
    """[assignments] for  <obj>._priv.update(k=v, ...) / .update({"k": v, ...})  as an expression statement, else None"""
    if not (isinstance(st, ast.Expr) and isinstance(st.value, ast.Call)):
        return None
    c = st.value
    if not (isinstance(c.func, ast.Attribute) and c.func.attr == "update" and _private_attr(c.func.value)):
        return None
    pairs = []
    if len(c.args) == 1 and not c.keywords and isinstance(c.args[0], ast.Dict) and all(isinstance(k, ast.Constant) and isinstance(k.value, str) for k in c.args[0].keys):
        pairs = [(k.value, v) for k, v in zip(c.args[0].keys, c.args[0].values)]
    elif not c.args and c.keywords and all(k.arg for k in c.keywords):
        pairs = [(k.arg, k.value) for k in c.keywords]
    else:
        return None
    out = []
    for k, v in pairs:
        tgt = ast.Subscript(value=copy.deepcopy(c.func.value), slice=ast.Constant(value=k), ctx=ast.Store())
        a = ast.Assign(targets=[tgt], value=v, type_comment=None)
        for x in ast.walk(tgt):
            ast.copy_location(x, v)
        ast.copy_location(a, v)
        a.end_lineno = getattr(v, "end_lineno", a.lineno)
        out.append(a)
    return out


class _Updates(ast.NodeTransformer):
    def _body(self, stmts):
        out = []
        for st in stmts:
            st = self.visit(st)
            sp = _split_update(st)
            out += sp if sp else [st]
        return out

    def generic_visit(self, node):
        for fld in ("body", "orelse", "finalbody"):
            v = getattr(node, fld, None)
            if isinstance(v, list) and v and isinstance(v[0], ast.stmt):
                setattr(node, fld, self._body(v))
        for h in getattr(node, "handlers", []) or []:
            h.body = self._body(h.body)
        if isinstance(node, ast.Match):
            for cs in node.cases:
                cs.body = self._body(cs.body)
        return node


def normalise(tree):
    n_alias = n_upd = 0
    for fn in [n for n in ast.walk(tree) if isinstance(n, (ast.FunctionDef, ast.AsyncFunctionDef))]:
        al = _aliases(fn)
        if al:
            sub = _Subst(al)
            fn.body = [sub.visit(st) for st in fn.body]
            n_alias += len(al)
    before = sum(1 for n in ast.walk(tree) if isinstance(n, ast.Assign))
    _Updates().visit(tree)
    n_upd = sum(1 for n in ast.walk(tree) if isinstance(n, ast.Assign)) - before
    ast.fix_missing_locations(tree)
    return tree, {"aliases_inlined": n_alias, "update_keys_split": n_upd}
