"""Behaviour-preserving source normalisations applied to every parsed module before any rule looks at it, so that the rules read ONE spelling of
idioms that refactorings commonly alternate between.  Each rewrite is an equivalence of Python semantics under a stated side condition that is checked.

N1  local alias of a private container attribute
        c = self._cache            (single binding of c in the function; c never rebound, deleted, declared global/nonlocal;
        ... c["k"] ...              no assignment to <obj>._cache anywhere in the function)
    ==> every load of c is replaced by self._cache.  Side condition makes `c` and `self._cache` the same object at every use.
    Restricted to attributes whose name starts with "_" on a bare name (self / a parameter): these are plain instance attributes in this package
    (properties are public names), so re-evaluating the attribute has no effect.

    N1' the attribute may be rebound in the function when the function is loop-free and every use of c textually precedes the first rebinding.

N7  boolean flag consumed by the next statement
        ok = a is not None and not b          (only names, attributes, comparisons, boolean operators, isinstance/len)
        if ok: ...                            ok read nowhere else
    ==> if a is not None and not b: ...

N8  local dict literal            d = {"k": a, ...} bound once, only read  ==>  loads of d replaced by the literal (see _propagate_dict_literals)
N9  any()/all() over a literal    any(E(k, v) for k, v in {...}.items())  ==>  E(k1, v1) or E(k2, v2) ...   for boolean-valued E (see _AnyAll)

N10 getattr(x, "name") / setattr(x, "name", v) with an identifier literal  ==>  x.name / x.name = v

N11 boolean constants produced by substitution are folded (True or x, if False: ..., see _FoldBool)

N12 module-level NAME = <number> (bound once) read in a function of the module where it is not shadowed  ==>  the number
N16 f(a, **{"k": v})  ==>  f(a, k=v);   kw = {...}; r = f(a, **kw)  ==>  r = f(a, k=...)        (see _SplatLiteral, _inline_kwargs_dicts)
N19 f(p1=a, p2=b) of a same-module function with keywords in parameter order  ==>  f(a, b)     (see _canonical_calls)
N17 local bound once to pure arithmetic over numbers, np.pi and parameters  ==>  the expression at its uses   (see _propagate_pure_locals)
N15 `return self._helper(a, b)` (private method of the same class, tail position)  ==>  the helper's body (see _inline_tail_method_calls)
N14 <number> (+|-|*) <number>  ==>  the number;   not (a not in b) ==> a in b,  not (a is b) ==> a is not b;   `if not not x` ==> `if x`   (part of the _FoldBool pass)

N2  dict.update with keywords / a literal dict on such an attribute, as a statement
        self._cache.update(a=x, b=y)      /     self._cache.update({"a": x, "b": y})
    ==> self._cache["a"] = x; self._cache["b"] = y      (same order; dict.update assigns the keys one after another)
    Only when the receiver's attribute name ends in "_cached_parameters" or is "_ds"-like private state is NOT required: any private attribute on a bare
    name qualifies, the receiver must be a dict for .update(k=v) to be legal at all.  xarray Datasets also accept update({...}) with assignment semantics
    per key, so the rewrite is valid for `_ds` too.

N3  loop over a constant table
        for k, v in TABLE.items():        TABLE a module-level dict/tuple/list literal of constants, bound once in the module and never
            <body using k, v>             mutated there (no TABLE[...] = , no TABLE.<mutator>(...)); a literal tuple/list of constants in place also counts
    ==> the body once per entry with k, v replaced by the constants, in the table's order (at most 12 entries).
    Side conditions: the loop variables are not assigned in the body and not read outside the loop; the body contains no `continue`; `break`
    only in the shape  `if <test>: ...; break`  as the whole body, which becomes an if/elif chain whose final else is the loop's else clause.

N4  thin wrapper around a same-module function
        def w(a, b):                          the whole body (after an optional docstring) is  return h(...)  /  h(...)
            return h(a, b, f=g, k="x")        every argument is a parameter of w, a constant, or a module-level name (function / constant table)
    ==> w's body becomes h's body with h's parameters replaced by those arguments (defaults for the parameters not passed).
    Side conditions: h is a module-level def in the same module, defined once, not w itself, no decorators, no *args/**kwargs on either side, h does not
    assign its substituted parameters, contains no nested def/lambda/global/nonlocal/yield, and no local name of h collides with a parameter name of w
    that is substituted in.  Applied once (wrappers of wrappers are resolved innermost first, at most three rounds).

N5  single-expression helper
        def h(a, b, f, kw):                     undecorated module-level def, defined once, whose body (after a docstring) is  return <expr>
            return f(a[..., b], axis=-1, **kw)
        ... r = h(x, y, g, opts) ...
    ==> the call is replaced by <expr> with the parameters replaced by the arguments.
    Side conditions: positional/keyword arguments only; an argument that is not a name, constant or attribute chain is substituted only when its parameter
    occurs exactly once in <expr>; <expr> binds no names (no lambda / comprehension / walrus); the module-level names <expr> uses are not rebound locally in
    the calling function; h is not recursive.

N13 selector helper: a decision tree of returns
        def pick(v, arr):                 undecorated module-level def, defined once; the body (after a docstring) consists of if/elif/else
            if "a" in v.attrs:            statements and `return <expr>` only (guard clauses included), every path returns a value
                return v.a
            if arr.any(): return arr.min()
            return 0
        x = pick(da, conn)       /       T -= pick(da, conn)
    ==> if "a" in da.attrs: x = da.a  elif conn.any(): x = conn.min()  else: x = 0        (for the augmented form: into a fresh local, then T -= <local>)
    Side conditions: the arguments are names, constants or attribute chains; the helper's module-level names are not rebound in the caller; the helper
    is not recursive and binds no names (no comprehension / lambda / walrus).  For the augmented form the helper is evaluated before the target is
    loaded instead of after: equal unless the helper mutates the target, so it is applied only when the helper calls no mutating method (_MUTATORS,
    fill, put, resize, itemset, partition) and contains no store of any kind.

N6  helper that never returns
        def fail(x):                     every path of the body ends in `raise`, no `return` anywhere
            if x.a: raise E1(...)
            raise E2(...)
        ...
        if not ok: fail(v)               the call is a statement on its own
    ==> the statement is replaced by the body of `fail` with its parameters replaced by the (simple) arguments; side conditions as in N4.
"""
import ast
import copy


def _chain_root(e):
    """the Name an attribute chain hangs off (a.b.c -> a), None when anything but attributes is involved"""
    while isinstance(e, ast.Attribute):
        e = e.value
    return e if isinstance(e, ast.Name) else None


def _private_attr(e, chain=False):
    if not (isinstance(e, ast.Attribute) and e.attr.startswith("_") and not e.attr.startswith("__")):
        return False
    return isinstance(e.value, ast.Name) or (chain and _chain_root(e.value) is not None)


class _Scope(ast.NodeVisitor):
    """bindings of local names in ONE function (nested functions included: a nested rebinding disqualifies too)"""

    def __init__(self):
        self.bind = {}      # name -> [value or None]
        self.attr_stores = set()   # (obj, attr) assigned in the function
        self.bad = set()

    def _target(self, t, value):
        if isinstance(t, ast.Name):
            self.bind.setdefault(t.id, []).append(value)
        elif isinstance(t, (ast.Tuple, ast.List)):
            for e in t.elts:
                self._target(e, None)
        elif isinstance(t, ast.Starred):
            self._target(t.value, None)
        elif isinstance(t, ast.Attribute) and isinstance(t.value, ast.Name):
            self.attr_stores.add((t.value.id, t.attr))

    def visit_Assign(self, n):
        for t in n.targets:
            self._target(t, n.value if len(n.targets) == 1 else None)
        self.generic_visit(n)

    def visit_AnnAssign(self, n):
        self._target(n.target, n.value)
        self.generic_visit(n)

    def visit_AugAssign(self, n):
        self._target(n.target, None)
        self.generic_visit(n)

    def visit_For(self, n):
        self._target(n.target, None)
        self.generic_visit(n)

    visit_AsyncFor = visit_For

    def visit_With(self, n):
        for it in n.items:
            if it.optional_vars is not None:
                self._target(it.optional_vars, None)
        self.generic_visit(n)

    visit_AsyncWith = visit_With

    def visit_NamedExpr(self, n):
        self._target(n.target, None)
        self.generic_visit(n)

    def visit_comprehension(self, n):
        self._target(n.target, None)
        self.generic_visit(n)

    def visit_ExceptHandler(self, n):
        if n.name:
            self.bind.setdefault(n.name, []).append(None)
        self.generic_visit(n)

    def visit_Global(self, n):
        self.bad.update(n.names)

    visit_Nonlocal = visit_Global

    def visit_Delete(self, n):
        for t in n.targets:
            if isinstance(t, ast.Name):
                self.bad.add(t.id)
            elif isinstance(t, ast.Attribute) and isinstance(t.value, ast.Name):
                self.attr_stores.add((t.value.id, t.attr))
        self.generic_visit(n)

    def visit_Import(self, n):
        for a in n.names:
            self.bind.setdefault((a.asname or a.name).split(".")[0], []).append(None)

    visit_ImportFrom = visit_Import

    def visit_FunctionDef(self, n):
        self.bind.setdefault(n.name, []).append(None)
        for a in n.args.posonlyargs + n.args.args + n.args.kwonlyargs + [x for x in (n.args.vararg, n.args.kwarg) if x]:
            self.bind.setdefault(a.arg, []).append(None)   # a nested parameter of the same name shadows: disqualify
        self.generic_visit(n)

    visit_AsyncFunctionDef = visit_FunctionDef

    def visit_Lambda(self, n):
        for a in n.args.posonlyargs + n.args.args + n.args.kwonlyargs + [x for x in (n.args.vararg, n.args.kwarg) if x]:
            self.bind.setdefault(a.arg, []).append(None)
        self.generic_visit(n)


def _aliases(fnode):
    sc = _Scope()
    params = {a.arg for a in fnode.args.posonlyargs + fnode.args.args + fnode.args.kwonlyargs}
    for st in fnode.body:
        sc.visit(st)
    out = {}
    for name, vals in sc.bind.items():
        if name in sc.bad or name in params or len(vals) != 1 or vals[0] is None:
            continue
        v = vals[0]
        if not _private_attr(v, chain=True):
            continue
        obj = _chain_root(v).id
        # the object the attribute hangs off must itself be stable: a parameter or self, never rebound
        if obj not in params or obj in sc.bind or obj in sc.bad:
            continue
        if not isinstance(v.value, ast.Name):
            # self.a._b : the intermediate attributes are read-only views in this package (uxgrid, ...); nothing along the chain may be assigned here
            if any(isinstance(x, ast.Attribute) and isinstance(x.ctx, (ast.Store, ast.Del)) and _chain_root(x) is not None and _chain_root(x).id == obj for x in ast.walk(fnode)):
                continue
            out[name] = v
            continue
        if (obj, v.attr) in sc.attr_stores:
            # still the same object at every use when, in loop-free code, every use comes before the first rebinding of the attribute
            if _has_loop(fnode):
                continue
            stores = [x.lineno for x in ast.walk(fnode) if isinstance(x, ast.Attribute) and isinstance(x.ctx, (ast.Store, ast.Del)) and x.attr == v.attr and isinstance(x.value, ast.Name) and x.value.id == obj]
            uses = [x.lineno for x in ast.walk(fnode) if isinstance(x, ast.Name) and x.id == name and isinstance(x.ctx, ast.Load)]
            if not stores or not uses or max(uses) >= min(stores):
                continue
        out[name] = v
    return out


def _has_loop(fnode):
    """statement loops only: a comprehension cannot contain the assignments / attribute stores the textual-order arguments are about (a walrus inside one is
    caught by the binding scan)"""
    return any(isinstance(x, (ast.For, ast.AsyncFor, ast.While)) for x in ast.walk(fnode))


_DICT_READERS = {"items", "keys", "values", "get", "copy"}


def _propagate_dict_literals(fn):
    """N8:  d = {"k": a, ...}   bound once, never mutated (no d[...] = ..., del d[...], no method other than items/keys/values/get/copy), never passed somewhere
    that could keep it -- EXCEPT as a plain argument (the callee may read it) -- and whose value expressions are names that are not rebound anywhere in the function
    ==> every load of d is replaced by the literal."""
    sc = _Scope()
    for st in fn.body:
        sc.visit(st)
    params = {a.arg for a in fn.args.posonlyargs + fn.args.args + fn.args.kwonlyargs}
    cands = {}
    loops = _has_loop(fn)
    for name, vals in sc.bind.items():
        if name in params or name in sc.bad or len(vals) != 1 or not isinstance(vals[0], ast.Dict):
            continue
        d = vals[0]
        if not d.keys or any(k is None or not isinstance(k, ast.Constant) for k in d.keys):
            continue
        ok = True
        for v in d.values:
            if isinstance(v, ast.Constant):
                continue
            if isinstance(v, ast.Name) and (v.id in params or v.id not in sc.bind) and v.id not in sc.bad and not (v.id in params and v.id in sc.bind):
                continue
            # a name that is (re)bound in the function is still stable from the literal on when, in loop-free code, every binding precedes the literal
            if isinstance(v, ast.Name) and v.id not in sc.bad and not loops:
                st_lines = [x.lineno for x in ast.walk(fn) if isinstance(x, ast.Name) and x.id == v.id and isinstance(x.ctx, (ast.Store, ast.Del))]
                if st_lines and max(st_lines) < d.lineno:
                    continue
            ok = False
        if ok:
            cands[name] = d
    if not cands:
        return 0
    parent = {}
    for x in ast.walk(fn):
        for ch in ast.iter_child_nodes(x):
            parent[id(ch)] = x
    for x in ast.walk(fn):
        if isinstance(x, ast.Name) and x.id in cands and isinstance(x.ctx, ast.Load):
            p = parent.get(id(x))
            if isinstance(p, ast.Attribute) and p.value is x:
                if p.attr not in _DICT_READERS:
                    cands.pop(x.id, None)
            elif isinstance(p, ast.Subscript) and p.value is x and isinstance(p.ctx, (ast.Store, ast.Del)):
                cands.pop(x.id, None)
            elif isinstance(p, (ast.Return, ast.Yield)):
                cands.pop(x.id, None)       # handed out: identity may matter to the caller
            elif isinstance(p, ast.Assign) and p.value is x:
                cands.pop(x.id, None)       # aliased / stored somewhere
    if not cands:
        return 0
    sub = _ConstSubst(cands)
    fn.body = [sub.visit(st) for st in fn.body]
    return len(cands)


def _simple_expr(a):
    while isinstance(a, (ast.Attribute, ast.Subscript)):
        if isinstance(a, ast.Subscript) and not isinstance(a.slice, (ast.Constant, ast.Name)):
            return False
        a = a.value
    return isinstance(a, (ast.Name, ast.Constant))


class _SplatLiteral(ast.NodeTransformer):
    """N16a:  f(a, **{"k": v, "m": w})  ==>  f(a, k=v, m=w)     identifier string keys, no key repeated among the call's keywords; the dict was evaluated where the
    keywords are now (after the positional arguments, in the dict's own order)."""

    def __init__(self):
        self.count = 0

    def visit_Call(self, n):
        self.generic_visit(n)
        out = []
        changed = False
        for i, k in enumerate(n.keywords):
            later_simple = all(_simple_expr(x.value) for x in n.keywords[i + 1:])
            if (k.arg is None and isinstance(k.value, ast.Dict) and k.value.keys and all(isinstance(q, ast.Constant) and isinstance(q.value, str) and q.value.isidentifier() for q in k.value.keys)
                    and later_simple):
                names = [q.value for q in k.value.keys]
                others = {x.arg for x in n.keywords if x.arg}
                if len(set(names)) == len(names) and not (set(names) & others):
                    out += [ast.keyword(arg=nm, value=v) for nm, v in zip(names, k.value.values)]
                    changed = True
                    continue
            out.append(k)
        if changed:
            n.keywords = out
            self.count += 1
        return n


def _inline_kwargs_dicts(fn):
    """N16b:  kw = {"k": v, ...}            bound once in the function, read exactly once: as `**kw` in the very next statement, which is  [x =] f(simple args, **kw)
              r = f(a, b, **kw)             ==>  r = f(a, b, **{"k": v, ...})   (then N16a).
    The values are evaluated one statement earlier than they were; with only simple (name / constant / attribute) arguments evaluated in between, nothing can observe it."""
    done = 0
    loads, stores = {}, {}
    for x in ast.walk(fn):
        if isinstance(x, ast.Name):
            (loads if isinstance(x.ctx, ast.Load) else stores).setdefault(x.id, []).append(x)

    def lists(node):
        for fld in ("body", "orelse", "finalbody"):
            v = getattr(node, fld, None)
            if isinstance(v, list) and v and isinstance(v[0], ast.stmt):
                yield v
        for h in getattr(node, "handlers", []) or []:
            yield h.body
    work = [fn]
    while work:
        node = work.pop()
        for lst in lists(node):
            i = 0
            while i < len(lst) - 1:
                a, b = lst[i], lst[i + 1]
                if (isinstance(a, ast.Assign) and len(a.targets) == 1 and isinstance(a.targets[0], ast.Name) and isinstance(a.value, ast.Dict)
                        and len(stores.get(a.targets[0].id, [])) == 1 and len(loads.get(a.targets[0].id, [])) == 1):
                    nm = a.targets[0].id
                    call = b.value if isinstance(b, (ast.Assign, ast.Return, ast.Expr)) and isinstance(getattr(b, "value", None), ast.Call) else None
                    if call is not None:
                        use = [k for k in call.keywords if k.arg is None and isinstance(k.value, ast.Name) and k.value.id == nm]
                        if len(use) == 1 and all(_simple_expr(x) for x in call.args) and all(_simple_expr(k.value) for k in call.keywords if k is not use[0]) and _simple_expr(call.func):
                            use[0].value = a.value
                            del lst[i]
                            done += 1
                            continue
                i += 1
            for st in lst:
                if not isinstance(st, (ast.FunctionDef, ast.AsyncFunctionDef, ast.ClassDef)):
                    work.append(st)
    return done


def _propagate_pure_locals(fn):
    """N17:  h = 0.5 * np.pi      /      w = n_max + 1         a local bound ONCE to arithmetic (+ - * / unary minus) over numbers, np.pi / math.pi and names that are
             ... h ... -h ...            ... np.full((n, w), F)      parameters or never-rebound module-level names, never rebound, deleted or declared global
    ==> every load of the local is replaced by the expression.  Pure arithmetic re-evaluated at the use gives the same value (the names involved are bound once: parameters
    that the function never assigns).  Loop targets, augmented assignments and names assigned twice are left alone."""
    sc = _Scope()
    for st in fn.body:
        sc.visit(st)
    params = {a.arg for a in fn.args.posonlyargs + fn.args.args + fn.args.kwonlyargs}

    def pure(e):
        ok_op = False
        for x in ast.walk(e):
            if isinstance(x, ast.BinOp) and isinstance(x.op, (ast.Add, ast.Sub, ast.Mult, ast.Div)):
                ok_op = True
            elif isinstance(x, ast.UnaryOp) and isinstance(x.op, (ast.USub, ast.UAdd)):
                pass
            elif isinstance(x, ast.Constant) and isinstance(x.value, (int, float)) and not isinstance(x.value, bool):
                pass
            elif isinstance(x, ast.Attribute) and isinstance(x.value, ast.Name) and x.value.id in ("np", "numpy", "math") and x.attr in ("pi", "e", "tau"):
                pass
            elif isinstance(x, ast.Name) and isinstance(x.ctx, ast.Load):
                if x.id in ("np", "numpy", "math"):
                    continue
                if x.id in sc.bad or x.id in sc.bind:      # a local of this function (possibly rebound): not stable
                    return False
            elif isinstance(x, (ast.operator, ast.unaryop, ast.expr_context)):
                pass
            else:
                return False
        return ok_op
    cands = {}
    for name, vals in sc.bind.items():
        if name in params or name in sc.bad or len(vals) != 1 or vals[0] is None or not isinstance(vals[0], ast.AST):
            continue
        if isinstance(vals[0], (ast.BinOp, ast.UnaryOp)) and pure(vals[0]):
            cands[name] = vals[0]
    if not cands:
        return 0
    # the binding must be a plain `name = expr` statement (not a loop target / with / augmented assignment)
    plain = {st.targets[0].id for st in ast.walk(fn) if isinstance(st, ast.Assign) and len(st.targets) == 1 and isinstance(st.targets[0], ast.Name)}
    aug = {st.target.id for st in ast.walk(fn) if isinstance(st, ast.AugAssign) and isinstance(st.target, ast.Name)}
    cands = {k: v for k, v in cands.items() if k in plain and k not in aug}
    if not cands:
        return 0
    sub = _ConstSubst(cands)
    fn.body = [sub.visit(st) for st in fn.body]
    return len(cands)


def _canonical_calls(tree):
    """N19:  f(a, q=c, p=b)-style calls of a function defined once at module level in the SAME module are written positionally when that changes nothing:
             f(face_nodes=x, n_face=y, n_max=z)   with   def f(face_nodes, n_face, n_max)   ==>   f(x, y, z)
    Side conditions: the callee has only plain parameters (no positional-only / keyword-only / *args / **kwargs) and no decorator other than numba's njit; the call has
    no * or ** argument; the keywords name, IN THE ORDER WRITTEN, exactly the parameters that follow the positional arguments (so the order of evaluation of the argument
    expressions is unchanged); the callee's name is not rebound in the calling function."""
    counts, defs_ = {}, {}
    for st in tree.body:
        if isinstance(st, ast.FunctionDef):
            counts[st.name] = counts.get(st.name, 0) + 1
            defs_[st.name] = st
    ok_defs = {}
    for name, d in defs_.items():
        a = d.args
        if counts[name] != 1 or a.posonlyargs or a.kwonlyargs or a.vararg or a.kwarg:
            continue
        if any(not (norm_dec(x) in ("njit", "jit")) for x in d.decorator_list):
            continue
        ok_defs[name] = [x.arg for x in a.args]
    if not ok_defs:
        return 0
    done = 0
    for fn in [n for n in ast.walk(tree) if isinstance(n, (ast.FunctionDef, ast.AsyncFunctionDef))]:
        sc = _Scope()
        for st in fn.body:
            sc.visit(st)
        local = set(sc.bind) | sc.bad | {a.arg for a in fn.args.posonlyargs + fn.args.args + fn.args.kwonlyargs}
        for c in ast.walk(fn):
            if not (isinstance(c, ast.Call) and isinstance(c.func, ast.Name) and c.func.id in ok_defs and c.func.id not in local and c.keywords):
                continue
            if any(isinstance(a, ast.Starred) for a in c.args) or any(k.arg is None for k in c.keywords):
                continue
            params = ok_defs[c.func.id]
            k0 = len(c.args)
            names = [k.arg for k in c.keywords]
            if names == params[k0:k0 + len(names)]:
                c.args = list(c.args) + [k.value for k in c.keywords]
                c.keywords = []
                done += 1
    return done


def norm_dec(d):
    """name of a decorator: njit, njit(cache=True), numba.njit ..."""
    if isinstance(d, ast.Call):
        d = d.func
    if isinstance(d, ast.Attribute):
        return d.attr
    if isinstance(d, ast.Name):
        return d.id
    return None


class _GetSetAttr(ast.NodeTransformer):
    """N10:  getattr(x, "name")  ==>  x.name ;   setattr(x, "name", v)  as a statement  ==>  x.name = v     (identifier literals only, two-argument getattr)"""

    def __init__(self):
        self.count = 0

    def visit_Call(self, n):
        self.generic_visit(n)
        if isinstance(n.func, ast.Name) and n.func.id == "getattr" and len(n.args) == 2 and not n.keywords and isinstance(n.args[1], ast.Constant) and isinstance(n.args[1].value, str) and n.args[1].value.isidentifier():
            self.count += 1
            return ast.copy_location(ast.Attribute(value=n.args[0], attr=n.args[1].value, ctx=ast.Load()), n)
        return n

    def visit_Expr(self, n):
        self.generic_visit(n)
        c = n.value
        if isinstance(c, ast.Call) and isinstance(c.func, ast.Name) and c.func.id == "setattr" and len(c.args) == 3 and not c.keywords and isinstance(c.args[1], ast.Constant) and isinstance(c.args[1].value, str) and c.args[1].value.isidentifier():
            self.count += 1
            tgt = ast.copy_location(ast.Attribute(value=c.args[0], attr=c.args[1].value, ctx=ast.Store()), n)
            return ast.copy_location(ast.Assign(targets=[tgt], value=c.args[2], type_comment=None), n)
        return n


class _AnyAll(ast.NodeTransformer):
    """N9:  any(<boolean expr in k, v> for k, v in {literal}.items())  ==>  expr[k1, v1] or expr[k2, v2] ...    (all -> and; also over literal tuples/lists,
    .keys(), .values()).  Only when the element expression is itself boolean-valued (comparison, not, and/or, isinstance): then the chain is a bool, as any()/all() is."""

    def __init__(self):
        self.count = 0

    def visit_Call(self, n):
        self.generic_visit(n)
        if not (isinstance(n.func, ast.Name) and n.func.id in ("any", "all") and len(n.args) == 1 and not n.keywords and isinstance(n.args[0], (ast.GeneratorExp, ast.ListComp))):
            return n
        g = n.args[0]
        if len(g.generators) != 1 or g.generators[0].ifs or g.generators[0].is_async:
            return n
        gen = g.generators[0]
        tg = gen.target
        names = [tg.id] if isinstance(tg, ast.Name) else [e.id for e in tg.elts] if isinstance(tg, ast.Tuple) and all(isinstance(e, ast.Name) for e in tg.elts) else None
        if not names:
            return n
        it = gen.iter
        entries = None
        if isinstance(it, ast.Call) and isinstance(it.func, ast.Attribute) and not it.args and isinstance(it.func.value, ast.Dict) and all(k is not None for k in it.func.value.keys):
            d = it.func.value
            if it.func.attr == "items" and len(names) == 2:
                entries = list(zip(d.keys, d.values))
            elif it.func.attr == "keys" and len(names) == 1:
                entries = [(k,) for k in d.keys]
            elif it.func.attr == "values" and len(names) == 1:
                entries = [(v,) for v in d.values]
        elif isinstance(it, (ast.Tuple, ast.List)) and len(names) == 1:
            entries = [(e,) for e in it.elts]
        elif isinstance(it, (ast.Tuple, ast.List)) and all(isinstance(e, ast.Tuple) and len(e.elts) == len(names) for e in it.elts):
            entries = [tuple(e.elts) for e in it.elts]
        if not entries or len(entries) > 12:
            return n
        if not all(isinstance(x, (ast.Name, ast.Constant, ast.Attribute, ast.Subscript)) for e in entries for x in e):
            return n
        elt = g.elt
        if not isinstance(elt, (ast.Compare, ast.BoolOp)) and not (isinstance(elt, ast.UnaryOp) and isinstance(elt.op, ast.Not)) and not (isinstance(elt, ast.Call) and isinstance(elt.func, ast.Name) and elt.func.id == "isinstance"):
            return n
        vals = [_ConstSubst(dict(zip(names, e))).visit(copy.deepcopy(elt)) for e in entries]
        self.count += 1
        new = vals[0] if len(vals) == 1 else ast.BoolOp(op=ast.Or() if n.func.id == "any" else ast.And(), values=vals)
        for x in ast.walk(new):
            ast.copy_location(x, n)
        return new


def _inline_flags(fn):
    """N7:  flag = <boolean expression>   immediately followed by   if <test using flag>:   where flag is read nowhere else in the function
    ==> the test with flag replaced by the expression; the assignment is dropped.  The expression may only consist of names, attributes, constants,
    comparisons, boolean operators, `not`, subscripts and isinstance()/len() calls (evaluating it one statement later gives the same value)."""
    done = 0

    def pure(e):
        for x in ast.walk(e):
            if isinstance(x, ast.Call):
                if not (isinstance(x.func, ast.Name) and x.func.id in ("isinstance", "len", "hasattr")):
                    return False
            elif not isinstance(x, (ast.Name, ast.Attribute, ast.Constant, ast.Compare, ast.BoolOp, ast.UnaryOp, ast.Subscript, ast.Tuple, ast.Load, ast.And, ast.Or, ast.Not,
                                    ast.cmpop, ast.operator, ast.unaryop, ast.expr_context, ast.Slice)):
                return False
        return True
    loads = {}
    for x in ast.walk(fn):
        if isinstance(x, ast.Name) and isinstance(x.ctx, ast.Load):
            loads[x.id] = loads.get(x.id, 0) + 1
    stores = {}
    for x in ast.walk(fn):
        if isinstance(x, ast.Name) and isinstance(x.ctx, (ast.Store, ast.Del)):
            stores[x.id] = stores.get(x.id, 0) + 1

    def lists(node):
        for fld in ("body", "orelse", "finalbody"):
            v = getattr(node, fld, None)
            if isinstance(v, list) and v and isinstance(v[0], ast.stmt):
                yield v
        for h in getattr(node, "handlers", []) or []:
            yield h.body
    work = [fn]
    while work:
        node = work.pop()
        for lst in lists(node):
            i = 0
            while i < len(lst) - 1:
                a, b = lst[i], lst[i + 1]
                if (isinstance(a, ast.Assign) and len(a.targets) == 1 and isinstance(a.targets[0], ast.Name) and isinstance(b, ast.If)
                        and isinstance(a.value, (ast.BoolOp, ast.Compare, ast.UnaryOp)) and pure(a.value)):
                    nm = a.targets[0].id
                    in_test = sum(1 for x in ast.walk(b.test) if isinstance(x, ast.Name) and x.id == nm)
                    if in_test == 1 and loads.get(nm) == 1 and stores.get(nm) == 1:
                        b.test = _ConstSubst({nm: a.value}).visit(b.test)
                        del lst[i]
                        done += 1
                        continue
                i += 1
            for st in lst:
                if not isinstance(st, (ast.FunctionDef, ast.AsyncFunctionDef, ast.ClassDef)):
                    work.append(st)
    return done


class _Subst(ast.NodeTransformer):
    def __init__(self, aliases):
        self.aliases = aliases

    def visit_Name(self, n):
        if isinstance(n.ctx, ast.Load) and n.id in self.aliases:
            new = copy.deepcopy(self.aliases[n.id])
            for x in ast.walk(new):
                ast.copy_location(x, n)
            return new
        return n


def _split_update(st):
    """[assignments] for  <obj>._priv.update(k=v, ...) / .update({"k": v, ...})  as an expression statement, else None"""
    if not (isinstance(st, ast.Expr) and isinstance(st.value, ast.Call)):
        return None
    c = st.value
    if not (isinstance(c.func, ast.Attribute) and c.func.attr == "update" and _private_attr(c.func.value)):
        return None
    pairs = []
    if len(c.args) == 1 and not c.keywords and isinstance(c.args[0], ast.Dict) and all(isinstance(k, ast.Constant) and isinstance(k.value, str) for k in c.args[0].keys):
        pairs = [(k.value, v) for k, v in zip(c.args[0].keys, c.args[0].values)]
    elif not c.args and c.keywords and all(k.arg or (isinstance(k.value, ast.Dict) and all(isinstance(x, ast.Constant) and isinstance(x.value, str) for x in k.value.keys)) for k in c.keywords):
        # keywords and **{literal} unpackings, in call order (a later duplicate key would be a TypeError at run time, so no overwrite order to model)
        for k in c.keywords:
            if k.arg:
                pairs.append((k.arg, k.value))
            else:
                pairs += [(kk.value, vv) for kk, vv in zip(k.value.keys, k.value.values)]
    else:
        return None
    out = []
    for k, v in pairs:
        tgt = ast.Subscript(value=copy.deepcopy(c.func.value), slice=ast.Constant(value=k), ctx=ast.Store())
        a = ast.Assign(targets=[tgt], value=v, type_comment=None)
        for x in ast.walk(tgt):
            ast.copy_location(x, v)
        ast.copy_location(a, v)
        a.end_lineno = getattr(v, "end_lineno", a.lineno)
        out.append(a)
    return out


class _Updates(ast.NodeTransformer):
    def _body(self, stmts):
        out = []
        for st in stmts:
            st = self.visit(st)
            sp = _split_update(st)
            out += sp if sp else [st]
        return out

    def generic_visit(self, node):
        for fld in ("body", "orelse", "finalbody"):
            v = getattr(node, fld, None)
            if isinstance(v, list) and v and isinstance(v[0], ast.stmt):
                setattr(node, fld, self._body(v))
        for h in getattr(node, "handlers", []) or []:
            h.body = self._body(h.body)
        if isinstance(node, ast.Match):
            for cs in node.cases:
                cs.body = self._body(cs.body)
        return node


_MUTATORS = {"update", "pop", "popitem", "clear", "setdefault", "append", "extend", "insert", "remove", "sort", "reverse", "__setitem__", "__delitem__"}


def _const(e):
    """a constant, or a reference to module-level data (NAME / module.NAME / module.NAME[0]): the same object every time the table is iterated"""
    if isinstance(e, ast.Constant):
        return True
    if isinstance(e, ast.UnaryOp) and isinstance(e.op, ast.USub) and isinstance(e.operand, ast.Constant):
        return True
    if isinstance(e, ast.Tuple) and all(_const(x) for x in e.elts):
        return True
    if isinstance(e, ast.Attribute) and _chain_root(e) is not None:
        return True
    if isinstance(e, ast.Name) and (e.id.isupper() or e.id.startswith("_") and e.id[1:].isupper()):
        return True
    if isinstance(e, ast.Subscript) and isinstance(e.slice, ast.Constant) and _const(e.value):
        return True
    if isinstance(e, ast.Dict) and e.keys and all(k is not None and isinstance(k, ast.Constant) for k in e.keys) and all(_const(v) for v in e.values):
        return True
    return False


class _FoldBool(ast.NodeTransformer):
    """N11: boolean constants left behind by N3/N4 substitution are folded:  True or x -> True, False or x -> x, True and x -> x, False and x -> False,
    not True -> False;  `if True: A else: B` -> A,  `if False: A else: B` -> B.  (`x or True` is NOT folded: x is still evaluated.)"""

    def __init__(self):
        self.count = 0

    @staticmethod
    def _cb(e):
        return isinstance(e, ast.Constant) and isinstance(e.value, bool)

    def visit_BoolOp(self, n):
        self.generic_visit(n)
        vals = list(n.values)
        is_or = isinstance(n.op, ast.Or)
        out = []
        for i, v in enumerate(vals):
            if self._cb(v):
                if v.value == is_or:            # True in an or / False in an and: decides, nothing after it is evaluated
                    out.append(v)
                    break
                self.count += 1
                continue                        # neutral element
            out.append(v)
        if not out:
            self.count += 1
            return ast.copy_location(ast.Constant(value=not is_or), n)
        if len(out) == 1:
            if len(vals) != 1:
                self.count += 1
            return out[0]
        if self._cb(out[-1]) and len(out) < len(vals):
            self.count += 1
        n.values = out
        return n

    _FLIP = {ast.In: ast.NotIn, ast.NotIn: ast.In, ast.Is: ast.IsNot, ast.IsNot: ast.Is}

    def visit_UnaryOp(self, n):
        self.generic_visit(n)
        if isinstance(n.op, ast.Not) and self._cb(n.operand):
            self.count += 1
            return ast.copy_location(ast.Constant(value=not n.operand.value), n)
        # not (a not in b) -> a in b ;  not (a is None) -> a is not None     (`not in` / `is not` ARE the negations of `in` / `is`; both sides yield a bool)
        if isinstance(n.op, ast.Not) and isinstance(n.operand, ast.Compare) and len(n.operand.ops) == 1 and type(n.operand.ops[0]) in self._FLIP:
            self.count += 1
            return ast.copy_location(ast.Compare(left=n.operand.left, ops=[self._FLIP[type(n.operand.ops[0])]()], comparators=n.operand.comparators), n)
        return n

    def _test(self, n):
        # `not not x` where only the truth value is used
        while isinstance(n.test, ast.UnaryOp) and isinstance(n.test.op, ast.Not) and isinstance(n.test.operand, ast.UnaryOp) and isinstance(n.test.operand.op, ast.Not):
            n.test = n.test.operand.operand
            self.count += 1

    def visit_If(self, n):
        n = self.generic_visit(n)
        self._test(n)
        return n

    def visit_While(self, n):
        n = self.generic_visit(n)
        self._test(n)
        return n

    def visit_IfExp(self, n):
        n = self.generic_visit(n)
        self._test(n)
        return n

    def visit_BinOp(self, n):
        # N14: arithmetic on two numeric literals (+, -, *), as CPython's own constant folding does
        self.generic_visit(n)
        a, b = n.left, n.right
        if (isinstance(n.op, (ast.Add, ast.Sub, ast.Mult)) and all(isinstance(x, ast.Constant) and isinstance(x.value, (int, float)) and not isinstance(x.value, bool) for x in (a, b))):
            v = a.value + b.value if isinstance(n.op, ast.Add) else a.value - b.value if isinstance(n.op, ast.Sub) else a.value * b.value
            if isinstance(v, int) and abs(v) > 10 ** 12:
                return n
            self.count += 1
            return ast.copy_location(ast.Constant(value=v), n)
        return n

    def _body(self, stmts):
        out = []
        for st in stmts:
            st = self.visit(st)
            if isinstance(st, ast.If) and self._cb(st.test):
                self.count += 1
                out += (st.body if st.test.value else st.orelse)
            else:
                out.append(st)
        return out

    def generic_visit(self, node):
        node = super().generic_visit(node)
        for fld in ("body", "orelse", "finalbody"):
            v = getattr(node, fld, None)
            if isinstance(v, list) and v and isinstance(v[0], ast.stmt):
                new = self._body(v)
                if fld == "body" and not new:
                    new = [ast.copy_location(ast.Pass(), v[0])]
                setattr(node, fld, new)
        for h in getattr(node, "handlers", []) or []:
            h.body = self._body(h.body) or [ast.Pass()]
        return node


def _module_tables(tree):
    """module-level NAME = {const: const, ...} | (const, ...) | [const, ...], bound once and never mutated in the module"""
    cand, count = {}, {}
    for st in tree.body:
        tg = None
        if isinstance(st, ast.Assign) and len(st.targets) == 1 and isinstance(st.targets[0], ast.Name):
            tg, v = st.targets[0].id, st.value
        elif isinstance(st, ast.AnnAssign) and isinstance(st.target, ast.Name) and st.value is not None:
            tg, v = st.target.id, st.value
        if tg is None:
            continue
        count[tg] = count.get(tg, 0) + 1
        if isinstance(v, ast.Dict) and v.keys and all(k is not None and _const(k) for k in v.keys) and all(_const(x) for x in v.values):
            cand[tg] = v
        elif isinstance(v, (ast.Tuple, ast.List)) and v.elts and all(_const(x) for x in v.elts):
            cand[tg] = v
    for n in ast.walk(tree):
        nm = None
        if isinstance(n, (ast.Subscript, ast.Attribute)) and isinstance(n.ctx, (ast.Store, ast.Del)) and isinstance(n.value, ast.Name):
            nm = n.value.id
        elif isinstance(n, ast.Call) and isinstance(n.func, ast.Attribute) and n.func.attr in _MUTATORS and isinstance(n.func.value, ast.Name):
            nm = n.func.value.id
        elif isinstance(n, ast.Name) and isinstance(n.ctx, (ast.Store, ast.Del)) and n.id in cand and not any(n is t for st in tree.body if isinstance(st, ast.Assign) for t in st.targets) \
                and not any(isinstance(st, ast.AnnAssign) and n is st.target for st in tree.body):
            nm = n.id
        elif isinstance(n, ast.Global):
            for g in n.names:
                cand.pop(g, None)
        if nm:
            cand.pop(nm, None)
    return {k: v for k, v in cand.items() if count.get(k) == 1}


def _loop_entries(it, tables, ntargets):
    """list of tuples of constant nodes the loop iterates over, or None"""
    def table(e):
        if isinstance(e, ast.Name):
            return tables.get(e.id)
        if isinstance(e, (ast.Tuple, ast.List)) and e.elts and all(_const(x) for x in e.elts):
            return e
        if isinstance(e, ast.Dict) and e.keys and all(k is not None and _const(k) for k in e.keys) and all(_const(x) for x in e.values):
            return e
        return None
    if isinstance(it, ast.Call) and isinstance(it.func, ast.Attribute) and not it.args and not it.keywords and it.func.attr in ("items", "keys", "values"):
        t = table(it.func.value)
        if not isinstance(t, ast.Dict):
            return None
        if it.func.attr == "items":
            return [(k, v) for k, v in zip(t.keys, t.values)] if ntargets == 2 else None
        seq = t.keys if it.func.attr == "keys" else t.values
    else:
        t = table(it)
        if t is None:
            return None
        seq = t.keys if isinstance(t, ast.Dict) else t.elts
    if ntargets == 1:
        return [(x,) for x in seq]
    if all(isinstance(x, ast.Tuple) and len(x.elts) == ntargets for x in seq):
        return [tuple(x.elts) for x in seq]
    return None


class _ConstSubst(ast.NodeTransformer):
    def __init__(self, m):
        self.m = m

    def visit_Name(self, n):
        if isinstance(n.ctx, ast.Load) and n.id in self.m:
            new = copy.deepcopy(self.m[n.id])
            for x in ast.walk(new):
                ast.copy_location(x, n)
            return new
        return n


def _contains(stmts, kinds, stop=(ast.For, ast.AsyncFor, ast.While)):
    """a statement of one of `kinds` that belongs to THIS loop (not to a nested loop)"""
    for st in stmts:
        if isinstance(st, kinds):
            return True
        if isinstance(st, (ast.FunctionDef, ast.AsyncFunctionDef, ast.ClassDef)):
            continue
        for fld in ("body", "orelse", "finalbody"):
            sub = getattr(st, fld, None)
            if isinstance(sub, list) and sub and isinstance(sub[0], ast.stmt):
                if isinstance(st, stop) and fld == "body":
                    continue
                if _contains(sub, kinds, stop):
                    return True
        for h in getattr(st, "handlers", []) or []:
            if _contains(h.body, kinds, stop):
                return True
    return False


class _Unroll(ast.NodeTransformer):
    def __init__(self, tables, fn):
        self.tables = tables
        self.fn = fn
        self.count = 0

    def _try(self, st):
        if not isinstance(st, ast.For):
            return None
        tg = st.target
        names = [tg.id] if isinstance(tg, ast.Name) else [e.id for e in tg.elts] if isinstance(tg, ast.Tuple) and all(isinstance(e, ast.Name) for e in tg.elts) else None
        if not names:
            return None
        entries = _loop_entries(st.iter, self.tables, len(names))
        if not entries or len(entries) > 12:
            return None
        # loop variables: not stored in the body, not read outside the loop
        inside = {id(x) for x in ast.walk(st)}
        for x in ast.walk(self.fn):
            if isinstance(x, ast.Name) and x.id in names:
                if id(x) not in inside:
                    return None
                if isinstance(x.ctx, (ast.Store, ast.Del)) and not any(x is y for y in ast.walk(tg)):
                    return None
        if _contains(st.body, (ast.Continue,)):
            # guard clauses at the top level of the body:  `if c: continue` followed by the rest  ==  `if not c: <rest>`
            def deguard(stmts):
                for i, x in enumerate(stmts):
                    if isinstance(x, ast.If) and len(x.body) == 1 and isinstance(x.body[0], ast.Continue) and not x.orelse:
                        rest = deguard(stmts[i + 1:])
                        if rest is None:
                            return None
                        neg = ast.copy_location(ast.UnaryOp(op=ast.Not(), operand=x.test), x.test)
                        return stmts[:i] + ([ast.copy_location(ast.If(test=neg, body=rest, orelse=[]), x)] if rest else [])
                    if _contains([x], (ast.Continue,)):
                        return None
                return stmts
            nb = deguard(list(st.body))
            if nb is None or _contains(nb, (ast.Continue,)):
                return None
            st = ast.copy_location(ast.For(target=st.target, iter=st.iter, body=nb or [ast.copy_location(ast.Pass(), st)], orelse=st.orelse, type_comment=None), st)
        has_break = _contains(st.body, (ast.Break,))
        chain = False
        if has_break:
            b = st.body
            if not (len(b) == 1 and isinstance(b[0], ast.If) and not b[0].orelse and b[0].body and isinstance(b[0].body[-1], ast.Break) and not _contains(b[0].body[:-1], (ast.Break,))):
                return None
            chain = True

        def inst(stmts, entry):
            sub = _ConstSubst(dict(zip(names, entry)))
            return [sub.visit(copy.deepcopy(x)) for x in stmts]
        if chain:
            tail = list(st.orelse)
            for entry in reversed(entries):
                iff = inst(st.body, entry)[0]
                iff.body = iff.body[:-1] or [ast.copy_location(ast.Pass(), iff)]
                iff.orelse = tail
                tail = [iff]
            out = tail
        else:
            out = []
            for entry in entries:
                out += inst(st.body, entry)
            out += list(st.orelse)
        self.count += 1
        return out

    def _body(self, stmts):
        out = []
        for st in stmts:
            st = self.visit(st)
            rep = self._try(st)
            out += rep if rep is not None else [st]
        return out

    def generic_visit(self, node):
        for fld in ("body", "orelse", "finalbody"):
            v = getattr(node, fld, None)
            if isinstance(v, list) and v and isinstance(v[0], ast.stmt):
                setattr(node, fld, self._body(v))
        for h in getattr(node, "handlers", []) or []:
            h.body = self._body(h.body)
        return node


def _params(fn):
    a = fn.args
    return a.posonlyargs + a.args, a.kwonlyargs


_INLINED = []     # names of helpers whose body was substituted for a call (collected per normalise() run)


def _rule_vocabulary():
    """functions the rules themselves name: anchor keys "uxarray/x/y.py:Class.func" protect that function of that file; a string that is nothing but an identifier
    ("close_face_nodes", "_replace_fill_values" in a tuple of callee names) protects every function of that name.  A function the rules know by name is never inlined
    away, even when a refactoring turns it into a one-liner - the rules want to see the call.  Free text (messages) protects nothing."""
    import os
    import re
    qualified, bare = set(), set()
    root = os.path.dirname(os.path.abspath(__file__))
    for dp, _dn, fns in os.walk(root):
        for fn in fns:
            if not fn.endswith(".py") or fn in ("normalise.py", "normalise_samples.py"):
                continue
            try:
                tree = ast.parse(open(os.path.join(dp, fn)).read())
            except SyntaxError:
                continue
            for n in ast.walk(tree):
                vals = []
                if isinstance(n, ast.Constant) and isinstance(n.value, str):
                    vals = [n.value]
                elif isinstance(n, ast.JoinedStr):
                    # f"{CONN}:_build_edge_node_connectivity": keep the literal tail after the colon
                    lit = "".join(v.value for v in n.values if isinstance(v, ast.Constant) and isinstance(v.value, str))
                    vals = [lit]
                for v in vals:
                    if len(v) > 200:
                        continue
                    for m in re.finditer(r"(?:([A-Za-z0-9_/]+\.py))?:([A-Za-z_][A-Za-z0-9_]*(?:\.[A-Za-z_][A-Za-z0-9_]*)?)", v):
                        path, qual = m.group(1), m.group(2)
                        qualified.add((path, qual.split(".")[-1], qual.split(".")[0] if "." in qual else None))
                    if re.fullmatch(r"_?[a-z][a-z0-9_]{3,}", v):
                        bare.add(v)
    return qualified, bare


_VOCAB = None
_RELPATH = [None]     # relpath of the module being normalised (set by normalise())


def _protected(name, cls=None):
    global _VOCAB
    if _VOCAB is None:
        _VOCAB = _rule_vocabulary()
    qualified, bare = _VOCAB
    if name in bare:
        return True
    rel = _RELPATH[0]
    for path, fn, c in qualified:
        if fn != name:
            continue
        if path is not None and rel is not None and not rel.endswith(path) and not path.endswith(rel):
            continue
        if c is not None and cls is not None and c != cls:
            continue
        return True
    return False


def _inline_wrappers(tree):
    mod_defs, counts = {}, {}
    for st in tree.body:
        if isinstance(st, (ast.FunctionDef,)):
            counts[st.name] = counts.get(st.name, 0) + 1
            mod_defs[st.name] = st
    mod_names = set(counts)
    for st in tree.body:
        if isinstance(st, ast.Assign):
            for t in st.targets:
                if isinstance(t, ast.Name):
                    mod_names.add(t.id)
        elif isinstance(st, (ast.Import, ast.ImportFrom)):
            for a in st.names:
                mod_names.add((a.asname or a.name).split(".")[0])
        elif isinstance(st, ast.ClassDef):
            mod_names.add(st.name)
    done = 0

    def candidate(w):
        body = list(w.body)
        if body and isinstance(body[0], ast.Expr) and isinstance(body[0].value, ast.Constant) and isinstance(body[0].value.value, str):
            body = body[1:]
        if len(body) != 1 or not isinstance(body[0], (ast.Return, ast.Expr)) or not isinstance(body[0].value, ast.Call):
            return None
        call = body[0].value
        if not isinstance(call.func, ast.Name) or counts.get(call.func.id) != 1 or call.func.id == w.name:
            return None
        h = mod_defs[call.func.id]
        if h.decorator_list or h.args.vararg or h.args.kwarg or w.args.vararg or w.args.kwarg:
            return None
        if _protected(h.name) and h.name != "__method__":
            return None
        if any(isinstance(a, ast.Starred) for a in call.args) or any(k.arg is None for k in call.keywords):
            return None
        wparams = {a.arg for a in _params(w)[0] + _params(w)[1]}
        # a parameter of w that is shadowed by a module name is still the parameter
        def simple(e):
            if isinstance(e, ast.Constant):
                return True
            if isinstance(e, ast.Name):
                return e.id in wparams or e.id in mod_names
            return False
        if not all(simple(a) for a in call.args) or not all(simple(k.value) for k in call.keywords):
            return None
        pos, kwonly = _params(h)
        if len(call.args) > len(pos):
            return None
        bind = {}
        for prm, a in zip(pos, call.args):
            bind[prm.arg] = a
        names = {a.arg for a in pos + kwonly}
        for k in call.keywords:
            if k.arg not in names or k.arg in bind:
                return None
            bind[k.arg] = k.value
        defaults = dict(zip([a.arg for a in pos][len(pos) - len(h.args.defaults):], h.args.defaults))
        defaults.update({a.arg: d for a, d in zip(kwonly, h.args.kw_defaults) if d is not None})
        for prm in names - set(bind):
            d = defaults.get(prm)
            if d is None or not isinstance(d, ast.Constant):
                return None
            bind[prm] = d
        # h: no construct that makes textual substitution unsound
        for x in ast.walk(h):
            if x is not h and isinstance(x, (ast.FunctionDef, ast.AsyncFunctionDef, ast.Lambda, ast.ClassDef, ast.Global, ast.Nonlocal, ast.Yield, ast.YieldFrom, ast.Await)):
                return None
        sc = _Scope()
        for st in h.body:
            sc.visit(st)
        local = set(sc.bind) | sc.bad
        if local & set(bind):
            return None      # a substituted parameter is reassigned in h
        for prm, a in bind.items():
            if isinstance(a, ast.Name) and a.id in wparams and a.id != prm:
                if a.id in local or (a.id in names):
                    return None
                # h must not already use that name for something else (a module-level name of the same spelling)
                if any(isinstance(x, ast.Name) and x.id == a.id for x in ast.walk(h)):
                    return None
        return h, bind, isinstance(body[0], ast.Return)

    # methods:  def m(self, ...): return self.h(<simple args>)   with h a plain method of the same class, defined once
    cls_methods = {}
    for cd in [n for n in ast.walk(tree) if isinstance(n, ast.ClassDef)]:
        cnt = {}
        for st in cd.body:
            if isinstance(st, ast.FunctionDef):
                cnt[st.name] = cnt.get(st.name, 0) + 1
        for st in cd.body:
            if isinstance(st, ast.FunctionDef) and cnt[st.name] == 1 and not st.decorator_list:
                cls_methods[(id(cd), st.name)] = st
        for st in cd.body:
            if isinstance(st, ast.FunctionDef):
                st._uxsa_class = cd

    def method_candidate(w):
        cd = getattr(w, "_uxsa_class", None)
        if cd is None or not w.args.args:
            return None
        selfn = w.args.args[0].arg
        body = list(w.body)
        if body and isinstance(body[0], ast.Expr) and isinstance(body[0].value, ast.Constant) and isinstance(body[0].value.value, str):
            body = body[1:]
        if len(body) != 1 or not isinstance(body[0], ast.Return) or not isinstance(body[0].value, ast.Call):
            return None
        call = body[0].value
        if not (isinstance(call.func, ast.Attribute) and isinstance(call.func.value, ast.Name) and call.func.value.id == selfn):
            return None
        h = cls_methods.get((id(cd), call.func.attr))
        if h is None or h is w or not h.args.args or _protected(h.name, cd.name):
            return None
        # rewrite as a call of a plain function with self passed explicitly, then reuse the module-level machinery
        fake = ast.Call(func=ast.Name(id="__method__", ctx=ast.Load()), args=[ast.Name(id=selfn, ctx=ast.Load())] + list(call.args), keywords=list(call.keywords))
        return h, fake

    for _round in range(3):
        changed = False
        for w in [n for n in ast.walk(tree) if isinstance(n, ast.FunctionDef)]:
            mc = method_candidate(w)
            if mc is not None:
                h, fake = mc
                saved = (counts.get("__method__"), mod_defs.get("__method__"))
                counts["__method__"], mod_defs["__method__"] = 1, h
                real_body = w.body
                doc = [w.body[0]] if (w.body and isinstance(w.body[0], ast.Expr) and isinstance(w.body[0].value, ast.Constant) and isinstance(w.body[0].value.value, str)) else []
                w.body = doc + [ast.copy_location(ast.Return(value=fake), real_body[-1])]
                c = candidate(w)
                w.body = real_body
                if saved[0] is None:
                    counts.pop("__method__", None)
                    mod_defs.pop("__method__", None)
                else:
                    counts["__method__"], mod_defs["__method__"] = saved
            else:
                c = candidate(w)
            if c is None:
                continue
            h, bind, is_ret = c
            sub = _ConstSubst(bind)
            new_body = [sub.visit(copy.deepcopy(st)) for st in h.body]
            if new_body and isinstance(new_body[0], ast.Expr) and isinstance(new_body[0].value, ast.Constant) and isinstance(new_body[0].value.value, str):
                new_body = new_body[1:] or [ast.copy_location(ast.Pass(), h.body[0])]
            if not is_ret:
                # h(...) as a statement: h's return value is dropped; `return <expr>` still ends the function, the value is unused by callers of w only if w's
                # callers ignore it too -- keep exactness: only inline statement-calls of functions that never return a value
                if any(isinstance(x, ast.Return) and x.value is not None for st in new_body for x in ast.walk(st)):
                    continue
            doc = [w.body[0]] if (w.body and isinstance(w.body[0], ast.Expr) and isinstance(w.body[0].value, ast.Constant) and isinstance(w.body[0].value.value, str)) else []
            w.body = doc + new_body
            done += 1
            changed = True
            _INLINED.append(h.name)
        if not changed:
            break
    return done


def _inline_expr_helpers(tree):
    counts, helpers = {}, {}
    for st in tree.body:
        if isinstance(st, ast.FunctionDef):
            counts[st.name] = counts.get(st.name, 0) + 1
    for st in tree.body:
        if not isinstance(st, ast.FunctionDef) or counts[st.name] != 1 or st.decorator_list or st.args.vararg or st.args.kwarg or _protected(st.name):
            continue
        body = list(st.body)
        if body and isinstance(body[0], ast.Expr) and isinstance(body[0].value, ast.Constant) and isinstance(body[0].value.value, str):
            body = body[1:]
        if len(body) != 1 or not isinstance(body[0], ast.Return) or body[0].value is None:
            continue
        e = body[0].value
        if any(isinstance(x, (ast.Lambda, ast.NamedExpr, ast.Yield, ast.YieldFrom, ast.Await)) for x in ast.walk(e)):
            continue
        if any(isinstance(x, ast.Call) and isinstance(x.func, ast.Name) and x.func.id == st.name for x in ast.walk(e)):
            continue
        helpers[st.name] = (st, e)
    if not helpers:
        return 0
    done = 0

    def simple(a):
        while isinstance(a, ast.Attribute):
            a = a.value
        return isinstance(a, (ast.Name, ast.Constant))

    for fn in [n for n in ast.walk(tree) if isinstance(n, (ast.FunctionDef, ast.AsyncFunctionDef))]:
        sc = _Scope()
        for st in fn.body:
            sc.visit(st)
        local = set(sc.bind) | sc.bad | {a.arg for a in fn.args.posonlyargs + fn.args.args + fn.args.kwonlyargs} | ({fn.args.vararg.arg} if fn.args.vararg else set()) | ({fn.args.kwarg.arg} if fn.args.kwarg else set())

        class T(ast.NodeTransformer):
            def visit_FunctionDef(self_, n):
                return n if n is not fn else self_.generic_visit(n)

            def visit_Call(self_, n):
                nonlocal done
                self_.generic_visit(n)
                if not (isinstance(n.func, ast.Name) and n.func.id in helpers and n.func.id not in local and n.func.id != fn.name):
                    return n
                h, e = helpers[n.func.id]
                if any(isinstance(a, ast.Starred) for a in n.args) or any(k.arg is None for k in n.keywords):
                    return n
                pos = h.args.posonlyargs + h.args.args
                kwonly = h.args.kwonlyargs
                if len(n.args) > len(pos):
                    return n
                bind = {prm.arg: a for prm, a in zip(pos, n.args)}
                names = {a.arg for a in pos + kwonly}
                for k in n.keywords:
                    if k.arg not in names or k.arg in bind:
                        return n
                    bind[k.arg] = k.value
                defaults = dict(zip([a.arg for a in pos][len(pos) - len(h.args.defaults):], h.args.defaults))
                defaults.update({a.arg: d for a, d in zip(kwonly, h.args.kw_defaults) if d is not None})
                for prm in names - set(bind):
                    if not isinstance(defaults.get(prm), ast.Constant):
                        return n
                    bind[prm] = defaults[prm]
                uses = {}
                for x in ast.walk(e):
                    if isinstance(x, ast.Name):
                        if x.id in names:
                            uses[x.id] = uses.get(x.id, 0) + 1
                        elif x.id in local:
                            return n          # a module-level name of the helper is shadowed in the caller
                if any(not simple(a) and uses.get(prm, 0) != 1 for prm, a in bind.items()):
                    return n
                # names bound inside the helper's expression (comprehension targets) must not capture a name used by an argument
                bound = {y.id for x in ast.walk(e) if isinstance(x, ast.comprehension) for y in ast.walk(x.target) if isinstance(y, ast.Name)}
                if bound & ({y.id for a in bind.values() for y in ast.walk(a) if isinstance(y, ast.Name)} | set(bind)):
                    return n
                new = _ConstSubst(bind).visit(copy.deepcopy(e))
                for x in ast.walk(new):
                    if not hasattr(x, "lineno") or True:
                        ast.copy_location(x, n)
                done += 1
                return new
        T().visit(fn)
    return done


def _always_raises(stmts):
    if not stmts:
        return False
    last = stmts[-1]
    if isinstance(last, ast.Raise):
        return True
    if isinstance(last, ast.If):
        return _always_raises(last.body) and _always_raises(last.orelse)
    return False


def _inline_noreturn(tree):
    counts, defs_ = {}, {}
    for st in tree.body:
        if isinstance(st, ast.FunctionDef):
            counts[st.name] = counts.get(st.name, 0) + 1
            defs_[st.name] = st
    nr = {}
    for name, h in defs_.items():
        if counts[name] != 1 or h.decorator_list or h.args.vararg or h.args.kwarg or _protected(name):
            continue
        body = list(h.body)
        if body and isinstance(body[0], ast.Expr) and isinstance(body[0].value, ast.Constant) and isinstance(body[0].value.value, str):
            body = body[1:]
        if not _always_raises(body):
            continue
        if any(isinstance(x, (ast.Return, ast.FunctionDef, ast.AsyncFunctionDef, ast.Lambda, ast.ClassDef, ast.Global, ast.Nonlocal, ast.Yield, ast.YieldFrom, ast.Await)) for st in body for x in ast.walk(st)):
            continue
        nr[name] = (h, body)
    if not nr:
        return 0
    done = 0

    def simple(a):
        while isinstance(a, ast.Attribute):
            a = a.value
        return isinstance(a, (ast.Name, ast.Constant))

    for fn in [n for n in ast.walk(tree) if isinstance(n, (ast.FunctionDef, ast.AsyncFunctionDef))]:
        sc = _Scope()
        for st in fn.body:
            sc.visit(st)
        local = set(sc.bind) | sc.bad | {a.arg for a in fn.args.posonlyargs + fn.args.args + fn.args.kwonlyargs}

        def expand(st):
            nonlocal done
            if not (isinstance(st, ast.Expr) and isinstance(st.value, ast.Call) and isinstance(st.value.func, ast.Name) and st.value.func.id in nr and st.value.func.id not in local and st.value.func.id != fn.name):
                return None
            call = st.value
            h, body = nr[call.func.id]
            if any(isinstance(a, ast.Starred) for a in call.args) or any(k.arg is None for k in call.keywords):
                return None
            if not all(simple(a) for a in call.args) or not all(simple(k.value) for k in call.keywords):
                return None
            pos, kwonly = _params(h)
            if len(call.args) > len(pos):
                return None
            bind = {prm.arg: a for prm, a in zip(pos, call.args)}
            names = {a.arg for a in pos + kwonly}
            for k in call.keywords:
                if k.arg not in names or k.arg in bind:
                    return None
                bind[k.arg] = k.value
            defaults = dict(zip([a.arg for a in pos][len(pos) - len(h.args.defaults):], h.args.defaults))
            defaults.update({a.arg: d for a, d in zip(kwonly, h.args.kw_defaults) if d is not None})
            for prm in names - set(bind):
                if not isinstance(defaults.get(prm), ast.Constant):
                    return None
                bind[prm] = defaults[prm]
            hs = _Scope()
            for b in body:
                hs.visit(b)
            hlocal = set(hs.bind) | hs.bad
            if hlocal & set(bind) or hlocal & local:
                return None      # a substituted parameter is reassigned, or a local of the helper would clash with a local of the caller
            for x in (x for b in body for x in ast.walk(b)):
                if isinstance(x, ast.Name) and x.id not in names and x.id in local:
                    return None  # a module-level name of the helper is shadowed in the caller
            done += 1
            sub = _ConstSubst(bind)
            return [sub.visit(copy.deepcopy(b)) for b in body]

        class T(ast.NodeTransformer):
            def _body(self_, stmts):
                out = []
                for st in stmts:
                    if isinstance(st, (ast.FunctionDef, ast.AsyncFunctionDef, ast.ClassDef)):
                        out.append(st)
                        continue
                    st = self_.visit(st)
                    rep = expand(st)
                    out += rep if rep is not None else [st]
                return out

            def generic_visit(self_, node):
                for fld in ("body", "orelse", "finalbody"):
                    v = getattr(node, fld, None)
                    if isinstance(v, list) and v and isinstance(v[0], ast.stmt):
                        setattr(node, fld, self_._body(v))
                for h_ in getattr(node, "handlers", []) or []:
                    h_.body = self_._body(h_.body)
                return node
        T().generic_visit(fn)
    return done


def _inline_method_selectors(tree):
    """N13 for methods:  T = self._pick(a, expr)  where `_pick` is a private, undecorated method of the same class whose body is a decision tree of returns
    ==> the tree with `T = <leaf>` at the leaves.  T is a name or an attribute chain on a name.  Arguments are simple (name / constant / attribute chain), or any
    expression whose parameter occurs exactly once in the helper, namely in the test at the root of the tree (so it is still evaluated exactly once, first)."""
    done = 0

    def simple(a):
        while isinstance(a, ast.Attribute):
            a = a.value
        return isinstance(a, (ast.Name, ast.Constant))

    for cd in [n for n in ast.walk(tree) if isinstance(n, ast.ClassDef)]:
        cnt = {}
        for st in cd.body:
            if isinstance(st, ast.FunctionDef):
                cnt[st.name] = cnt.get(st.name, 0) + 1
        sels = {}
        for st in cd.body:
            if not (isinstance(st, ast.FunctionDef) and cnt[st.name] == 1 and not st.decorator_list and st.name.startswith("_") and not st.name.startswith("__") and st.args.args
                    and not st.args.vararg and not st.args.kwarg and not _protected(st.name, cd.name)):
                continue
            body = list(st.body)
            if body and isinstance(body[0], ast.Expr) and isinstance(body[0].value, ast.Constant) and isinstance(body[0].value.value, str):
                body = body[1:]
            t = _return_tree(body)
            if t is None or t[0] == "ret":
                continue
            nodes = [x for b in body for x in ast.walk(b)]
            if any(isinstance(x, (ast.Lambda, ast.NamedExpr, ast.Yield, ast.YieldFrom, ast.Await, ast.ListComp, ast.SetComp, ast.DictComp, ast.GeneratorExp)) for x in nodes):
                continue
            if any(isinstance(x, ast.Attribute) and x.attr == st.name for x in nodes):
                continue
            sels[st.name] = (st, t)
        if not sels:
            continue
        for w in [st for st in cd.body if isinstance(st, ast.FunctionDef) and st.args.args]:
            selfn = w.args.args[0].arg
            sc = _Scope()
            for st in w.body:
                sc.visit(st)
            wlocal = set(sc.bind) | sc.bad | {a.arg for a in w.args.posonlyargs + w.args.args + w.args.kwonlyargs}

            def expand(st):
                nonlocal done
                if not (isinstance(st, ast.Assign) and len(st.targets) == 1 and simple(st.targets[0]) and not isinstance(st.targets[0], ast.Constant)):
                    return None
                call = st.value
                if not (isinstance(call, ast.Call) and isinstance(call.func, ast.Attribute) and isinstance(call.func.value, ast.Name) and call.func.value.id == selfn and call.func.attr in sels):
                    return None
                h, t = sels[call.func.attr]
                if h is w or any(isinstance(a, ast.Starred) for a in call.args) or any(k.arg is None for k in call.keywords):
                    return None
                pos = h.args.posonlyargs + h.args.args
                kwonly = h.args.kwonlyargs
                if len(call.args) + 1 > len(pos):
                    return None
                bind = {pos[0].arg: ast.Name(id=selfn, ctx=ast.Load())}
                bind.update({prm.arg: a for prm, a in zip(pos[1:], call.args)})
                names = {a.arg for a in pos + kwonly}
                for k in call.keywords:
                    if k.arg not in names or k.arg in bind:
                        return None
                    bind[k.arg] = k.value
                defaults = dict(zip([a.arg for a in pos][len(pos) - len(h.args.defaults):], h.args.defaults))
                defaults.update({a.arg: d for a, d in zip(kwonly, h.args.kw_defaults) if d is not None})
                for prm in names - set(bind):
                    if not isinstance(defaults.get(prm), ast.Constant):
                        return None
                    bind[prm] = defaults[prm]
                body_nodes = [x for b in h.body for x in ast.walk(b)]
                for prm, a in bind.items():
                    if simple(a):
                        continue
                    occ = [x for x in body_nodes if isinstance(x, ast.Name) and x.id == prm]
                    in_root = [x for x in ast.walk(t[1]) if isinstance(x, ast.Name) and x.id == prm]
                    if len(occ) != 1 or len(in_root) != 1:
                        return None
                for x in body_nodes:
                    if isinstance(x, ast.Name) and x.id not in names and x.id in wlocal:
                        return None
                tgt = st.targets[0]
                mk = lambda e: ast.Assign(targets=[copy.deepcopy(tgt)], value=e)
                sub = _ConstSubst(bind)
                new = [sub.visit(x) for x in _tree_stmts(t, mk)]
                # the substitution must not touch the assignment targets themselves (they are caller expressions): rebuild them
                for x in new:
                    for y in ast.walk(x):
                        if isinstance(y, ast.Assign):
                            y.targets = [copy.deepcopy(tgt)]
                        ast.copy_location(y, st)
                done += 1
                _INLINED.append(h.name)
                return new

            class T(ast.NodeTransformer):
                def _body(self_, stmts):
                    out = []
                    for st in stmts:
                        if isinstance(st, (ast.FunctionDef, ast.AsyncFunctionDef, ast.ClassDef)):
                            out.append(st)
                            continue
                        st = self_.generic_visit(st)
                        rep = expand(st)
                        out += rep if rep is not None else [st]
                    return out

                def generic_visit(self_, node):
                    for fld in ("body", "orelse", "finalbody"):
                        v = getattr(node, fld, None)
                        if isinstance(v, list) and v and isinstance(v[0], ast.stmt):
                            setattr(node, fld, self_._body(v))
                    for h_ in getattr(node, "handlers", []) or []:
                        h_.body = self_._body(h_.body)
                    return node
            T().generic_visit(w)
    return done


def _inline_tail_method_calls(tree):
    """N15: `return self._helper(a, b)` in a method, where `_helper` is a private method of the same class (defined once there, undecorated, no nested scopes/yield),
    is replaced by the helper's body with its parameters replaced by the (simple) arguments; a body that can fall off its end gets `return None` appended.
    The statement is in tail position, so nothing of the caller runs after it; side conditions: the helper does not assign its parameters, the names it reads
    from the module are not locals of the caller, it does not call itself.  (Dynamic dispatch: a subclass overriding the private helper would see a difference; the
    package defines no such override, and names the rules know are never inlined.)"""
    done = 0

    def simple(a):
        while isinstance(a, ast.Attribute):
            a = a.value
        return isinstance(a, (ast.Name, ast.Constant))

    for cd in [n for n in ast.walk(tree) if isinstance(n, ast.ClassDef)]:
        cnt = {}
        for st in cd.body:
            if isinstance(st, ast.FunctionDef):
                cnt[st.name] = cnt.get(st.name, 0) + 1
        helpers = {st.name: st for st in cd.body if isinstance(st, ast.FunctionDef) and cnt[st.name] == 1 and not st.decorator_list and st.name.startswith("_") and not st.name.startswith("__")
                   and st.args.args and not st.args.vararg and not st.args.kwarg and not _protected(st.name, cd.name)
                   and not any(isinstance(x, (ast.FunctionDef, ast.AsyncFunctionDef, ast.Lambda, ast.ClassDef, ast.Global, ast.Nonlocal, ast.Yield, ast.YieldFrom, ast.Await)) for b in st.body for x in ast.walk(b))}
        if not helpers:
            continue
        for w in [st for st in cd.body if isinstance(st, ast.FunctionDef) and st.args.args]:
            selfn = w.args.args[0].arg
            sc = _Scope()
            for st in w.body:
                sc.visit(st)
            wlocal = set(sc.bind) | sc.bad | {a.arg for a in w.args.posonlyargs + w.args.args + w.args.kwonlyargs}

            def expand(st):
                nonlocal done
                if not (isinstance(st, ast.Return) and isinstance(st.value, ast.Call) and isinstance(st.value.func, ast.Attribute) and isinstance(st.value.func.value, ast.Name)
                        and st.value.func.value.id == selfn and st.value.func.attr in helpers):
                    return None
                call = st.value
                h = helpers[call.func.attr]
                if h is w or any(isinstance(a, ast.Starred) for a in call.args) or any(k.arg is None for k in call.keywords):
                    return None
                if not all(simple(a) for a in call.args) or not all(simple(k.value) for k in call.keywords):
                    return None
                if any(isinstance(x, ast.Call) and isinstance(x.func, ast.Attribute) and x.func.attr == h.name for b in h.body for x in ast.walk(b)):
                    return None
                pos = h.args.posonlyargs + h.args.args
                kwonly = h.args.kwonlyargs
                if len(call.args) + 1 > len(pos):
                    return None
                bind = {pos[0].arg: ast.Name(id=selfn, ctx=ast.Load())}
                bind.update({prm.arg: a for prm, a in zip(pos[1:], call.args)})
                names = {a.arg for a in pos + kwonly}
                for k in call.keywords:
                    if k.arg not in names or k.arg in bind:
                        return None
                    bind[k.arg] = k.value
                defaults = dict(zip([a.arg for a in pos][len(pos) - len(h.args.defaults):], h.args.defaults))
                defaults.update({a.arg: d for a, d in zip(kwonly, h.args.kw_defaults) if d is not None})
                for prm in names - set(bind):
                    if not isinstance(defaults.get(prm), ast.Constant):
                        return None
                    bind[prm] = defaults[prm]
                hs = _Scope()
                for b in h.body:
                    hs.visit(b)
                hlocal = set(hs.bind) | hs.bad
                if hlocal & set(bind):
                    return None
                for x in (x for b in h.body for x in ast.walk(b)):
                    if isinstance(x, ast.Name) and x.id not in names and x.id not in hlocal and x.id in wlocal:
                        return None      # a module-level name of the helper is a local of the caller
                body = list(h.body)
                if body and isinstance(body[0], ast.Expr) and isinstance(body[0].value, ast.Constant) and isinstance(body[0].value.value, str):
                    body = body[1:]
                if not body:
                    return None
                sub = _ConstSubst(bind)
                new = [sub.visit(copy.deepcopy(b)) for b in body]
                if not isinstance(new[-1], (ast.Return, ast.Raise)):
                    new.append(ast.Return(value=ast.Constant(value=None)))
                for x in new:
                    for y in ast.walk(x):
                        if not hasattr(y, "lineno"):
                            ast.copy_location(y, st)
                done += 1
                _INLINED.append(h.name)
                return new

            class T(ast.NodeTransformer):
                def _body(self_, stmts):
                    out = []
                    for st in stmts:
                        if isinstance(st, (ast.FunctionDef, ast.AsyncFunctionDef, ast.ClassDef)):
                            out.append(st)
                            continue
                        st = self_.generic_visit(st)
                        rep = expand(st)
                        out += rep if rep is not None else [st]
                    return out

                def generic_visit(self_, node):
                    for fld in ("body", "orelse", "finalbody"):
                        v = getattr(node, fld, None)
                        if isinstance(v, list) and v and isinstance(v[0], ast.stmt):
                            setattr(node, fld, self_._body(v))
                    for h_ in getattr(node, "handlers", []) or []:
                        h_.body = self_._body(h_.body)
                    return node
            T().generic_visit(w)
    return done


_ARRAY_MUTATORS = {"fill", "put", "resize", "itemset", "partition", "setflags", "byteswap", "setfield"}


def _return_tree(body):
    """body as a decision tree  ("ret", expr) | ("if", test, tree, tree)  when it consists of if/else and returns only and every path returns; else None"""
    if not body:
        return None
    st = body[0]
    if isinstance(st, ast.Return):
        return ("ret", st.value) if st.value is not None else None   # anything after a return is dead
    if isinstance(st, ast.If):
        # if t: A else: B; rest   ==   t ? (A; rest) : (B; rest)
        a = _return_tree(st.body + body[1:])
        b = _return_tree(st.orelse + body[1:])
        if a is None or b is None:
            return None
        return ("if", st.test, a, b)
    return None


def _tree_stmts(tree_, make):
    if tree_[0] == "ret":
        return [make(copy.deepcopy(tree_[1]))]
    return [ast.If(test=copy.deepcopy(tree_[1]), body=_tree_stmts(tree_[2], make), orelse=_tree_stmts(tree_[3], make))]


def _inline_selectors(tree):
    """N13 (see the module docstring)."""
    counts, sel = {}, {}
    for st in tree.body:
        if isinstance(st, ast.FunctionDef):
            counts[st.name] = counts.get(st.name, 0) + 1
    for st in tree.body:
        if not isinstance(st, ast.FunctionDef) or counts[st.name] != 1 or st.decorator_list or st.args.vararg or st.args.kwarg or _protected(st.name):
            continue
        body = list(st.body)
        if body and isinstance(body[0], ast.Expr) and isinstance(body[0].value, ast.Constant) and isinstance(body[0].value.value, str):
            body = body[1:]
        t = _return_tree(body)
        if t is None or t[0] == "ret":
            continue       # single-expression helpers are N5's
        nodes = [x for b in body for x in ast.walk(b)]
        if any(isinstance(x, (ast.Lambda, ast.NamedExpr, ast.Yield, ast.YieldFrom, ast.Await, ast.ListComp, ast.SetComp, ast.DictComp, ast.GeneratorExp)) for x in nodes):
            continue
        if any(isinstance(x, ast.Call) and isinstance(x.func, ast.Name) and x.func.id == st.name for x in nodes):
            continue
        quiet = not any(isinstance(x, ast.Call) and isinstance(x.func, ast.Attribute) and x.func.attr in (_MUTATORS | _ARRAY_MUTATORS) for x in nodes)
        sel[st.name] = (st, t, quiet)
    if not sel:
        return 0
    done = 0

    def simple(a):
        while isinstance(a, ast.Attribute):
            a = a.value
        return isinstance(a, (ast.Name, ast.Constant))

    for fn in [n for n in ast.walk(tree) if isinstance(n, (ast.FunctionDef, ast.AsyncFunctionDef))]:
        sc = _Scope()
        for st in fn.body:
            sc.visit(st)
        local = set(sc.bind) | sc.bad | {a.arg for a in fn.args.posonlyargs + fn.args.args + fn.args.kwonlyargs} | ({fn.args.vararg.arg} if fn.args.vararg else set()) | ({fn.args.kwarg.arg} if fn.args.kwarg else set())
        fresh = [0]

        def expand(st):
            nonlocal done
            if isinstance(st, ast.Assign) and len(st.targets) == 1 and isinstance(st.targets[0], ast.Name):
                call, mode = st.value, "assign"
            elif isinstance(st, ast.AugAssign):
                call, mode = st.value, "aug"
            else:
                return None
            if not (isinstance(call, ast.Call) and isinstance(call.func, ast.Name) and call.func.id in sel and call.func.id not in local and call.func.id != fn.name):
                return None
            h, t, quiet = sel[call.func.id]
            if mode == "aug" and not quiet:
                return None
            if any(isinstance(a, ast.Starred) for a in call.args) or any(k.arg is None for k in call.keywords):
                return None
            if not all(simple(a) for a in call.args) or not all(simple(k.value) for k in call.keywords):
                return None
            pos, kwonly = _params(h)
            if len(call.args) > len(pos):
                return None
            bind = {prm.arg: a for prm, a in zip(pos, call.args)}
            names = {a.arg for a in pos + kwonly}
            for k in call.keywords:
                if k.arg not in names or k.arg in bind:
                    return None
                bind[k.arg] = k.value
            defaults = dict(zip([a.arg for a in pos][len(pos) - len(h.args.defaults):], h.args.defaults))
            defaults.update({a.arg: d for a, d in zip(kwonly, h.args.kw_defaults) if d is not None})
            for prm in names - set(bind):
                if not isinstance(defaults.get(prm), ast.Constant):
                    return None
                bind[prm] = defaults[prm]
            for x in (x for b in h.body for x in ast.walk(b)):
                if isinstance(x, ast.Name) and x.id not in names and x.id in local:
                    return None  # a module-level name of the helper is shadowed in the caller
            if mode == "assign":
                tgt = st.targets[0].id
                # the target may be one of the arguments: it is assigned only at a leaf, after every test of that path was evaluated
                mk = lambda e: ast.Assign(targets=[ast.Name(id=tgt, ctx=ast.Store())], value=e)
                tail = []
            else:
                fresh[0] += 1
                tgt = f"_uxsa_sel{fresh[0]}"
                while tgt in local:
                    fresh[0] += 1
                    tgt = f"_uxsa_sel{fresh[0]}"
                mk = lambda e: ast.Assign(targets=[ast.Name(id=tgt, ctx=ast.Store())], value=e)
                tail = [ast.AugAssign(target=st.target, op=st.op, value=ast.Name(id=tgt, ctx=ast.Load()))]
            sub = _ConstSubst(bind)
            new = [sub.visit(x) for x in _tree_stmts(t, mk)] + tail
            for x in new:
                for y in ast.walk(x):
                    ast.copy_location(y, st)
            done += 1
            _INLINED.append(call.func.id)
            return new

        class T(ast.NodeTransformer):
            def _body(self_, stmts):
                out = []
                for st in stmts:
                    if isinstance(st, (ast.FunctionDef, ast.AsyncFunctionDef, ast.ClassDef)):
                        out.append(st)
                        continue
                    st = self_.generic_visit(st)
                    rep = expand(st)
                    out += rep if rep is not None else [st]
                return out

            def generic_visit(self_, node):
                for fld in ("body", "orelse", "finalbody"):
                    v = getattr(node, fld, None)
                    if isinstance(v, list) and v and isinstance(v[0], ast.stmt):
                        setattr(node, fld, self_._body(v))
                for h_ in getattr(node, "handlers", []) or []:
                    h_.body = self_._body(h_.body)
                return node
        T().generic_visit(fn)
    return done


def _is_const_arith(e):
    ok = False
    for x in ast.walk(e):
        if isinstance(x, ast.BinOp) and isinstance(x.op, (ast.Add, ast.Sub, ast.Mult, ast.Div)):
            ok = True
        elif isinstance(x, ast.UnaryOp) and isinstance(x.op, (ast.USub, ast.UAdd)):
            pass
        elif isinstance(x, ast.Constant) and isinstance(x.value, (int, float)) and not isinstance(x.value, bool):
            pass
        elif isinstance(x, ast.Name) and isinstance(x.ctx, ast.Load) and x.id.isupper():
            pass
        elif isinstance(x, (ast.operator, ast.unaryop, ast.expr_context)):
            pass
        else:
            return False
    return ok


def _fold_numeric_constants(tree):
    """N12: a module-level  NAME = <number>  (bound once in the module, no `global NAME` anywhere) read inside a function of the same module, where NAME is not a
    parameter or local of that function, is replaced by the number (a literal moved to a named constant reads like the literal)."""
    counts, vals, exprs = {}, {}, {}
    for st in tree.body:
        if isinstance(st, ast.Assign):
            for t in st.targets:
                for x in ast.walk(t):
                    if isinstance(x, ast.Name):
                        counts[x.id] = counts.get(x.id, 0) + 1
            if len(st.targets) == 1 and isinstance(st.targets[0], ast.Name) and isinstance(st.value, ast.Constant) and isinstance(st.value.value, (int, float)) and not isinstance(st.value.value, bool):
                vals[st.targets[0].id] = st.value
            elif (len(st.targets) == 1 and isinstance(st.targets[0], ast.Name) and isinstance(st.value, ast.UnaryOp) and isinstance(st.value.op, (ast.USub, ast.UAdd))
                  and isinstance(st.value.operand, ast.Constant) and isinstance(st.value.operand.value, (int, float)) and not isinstance(st.value.operand.value, bool)):
                vals[st.targets[0].id] = st.value       # NAME = -1
            elif len(st.targets) == 1 and isinstance(st.targets[0], ast.Name) and _is_const_arith(st.value):
                # NAME = 1.0 - ERROR_TOLERANCE : arithmetic over numbers and other module-level names (imported constants); evaluating it at the use gives the
                # same value as long as those names are bound once in the module and not shadowed where NAME is read (checked below)
                exprs[st.targets[0].id] = st.value
        elif isinstance(st, (ast.AugAssign, ast.AnnAssign)) and isinstance(st.target, ast.Name):
            counts[st.target.id] = counts.get(st.target.id, 0) + 2
    for x in ast.walk(tree):
        if isinstance(x, (ast.Global, ast.Nonlocal)):
            for g in x.names:
                vals.pop(g, None)
    vals = {k: v for k, v in vals.items() if counts.get(k) == 1}
    # names an arithmetic constant refers to: imported (never assigned in the module) or assigned once
    imported = set()
    for st in tree.body:
        if isinstance(st, (ast.Import, ast.ImportFrom)):
            imported |= {(a.asname or a.name).split(".")[0] for a in st.names}
    for k, e in list(exprs.items()):
        inner = {x.id for x in ast.walk(e) if isinstance(x, ast.Name)}
        if counts.get(k) != 1 or not all((n in imported and counts.get(n, 0) == 0) or (n in vals) for n in inner):
            exprs.pop(k)
    for x in ast.walk(tree):
        if isinstance(x, (ast.Global, ast.Nonlocal)):
            for g in x.names:
                exprs.pop(g, None)
    _EXPR_INNER = {k: {x.id for x in ast.walk(e) if isinstance(x, ast.Name)} for k, e in exprs.items()}
    if not vals and not exprs:
        return 0
    done = 0
    for fn in [n for n in ast.walk(tree) if isinstance(n, (ast.FunctionDef, ast.AsyncFunctionDef))]:
        sc = _Scope()
        for st in fn.body:
            sc.visit(st)
        shadow = set(sc.bind) | sc.bad | {a.arg for a in fn.args.posonlyargs + fn.args.args + fn.args.kwonlyargs}
        use = {k: v for k, v in vals.items() if k not in shadow}
        use.update({k: e for k, e in exprs.items() if k not in shadow and not (_EXPR_INNER[k] & shadow)})
        if not use:
            continue
        before = sum(1 for x in ast.walk(fn) if isinstance(x, ast.Name) and x.id in use and isinstance(x.ctx, ast.Load))
        if before:
            sub = _ConstSubst(use)
            fn.body = [sub.visit(st) for st in fn.body]
            done += before
    return done


def normalise(tree, relpath=None):
    del _INLINED[:]
    _RELPATH[0] = relpath
    n_const = _fold_numeric_constants(tree)
    n_alias = n_upd = 0
    n_dict = 0
    n_kw = n_pure = 0
    for fn in [n for n in ast.walk(tree) if isinstance(n, (ast.FunctionDef, ast.AsyncFunctionDef))]:
        n_dict += _propagate_dict_literals(fn)
        n_kw += _inline_kwargs_dicts(fn)
        n_pure += _propagate_pure_locals(fn)
    sp = _SplatLiteral()
    sp.visit(tree)
    n_kw += sp.count
    n_canon = _canonical_calls(tree)
    n_inlined0 = _inline_wrappers(tree)      # before N5: a thin wrapper that rules know by name keeps its name in its callers
    n_noret = _inline_noreturn(tree)
    n_expr = 0
    for _r in range(3):
        k = _inline_expr_helpers(tree)
        n_expr += k
        if not k:
            break
    n_inlined = n_inlined0 + _inline_wrappers(tree)
    n_sel = _inline_selectors(tree) + _inline_method_selectors(tree)
    n_tail = _inline_tail_method_calls(tree)
    tables = _module_tables(tree)
    n_unrolled = 0
    for fn in [n for n in ast.walk(tree) if isinstance(n, (ast.FunctionDef, ast.AsyncFunctionDef))]:
        u = _Unroll(tables, fn)
        u.generic_visit(fn)
        n_unrolled += u.count
    aa = _AnyAll()
    aa.visit(tree)
    gs = _GetSetAttr()
    gs.visit(tree)
    fb = _FoldBool()
    fb.visit(tree)
    n_flags = 0
    for fn in [n for n in ast.walk(tree) if isinstance(n, (ast.FunctionDef, ast.AsyncFunctionDef))]:
        n_flags += _inline_flags(fn)
    for fn in [n for n in ast.walk(tree) if isinstance(n, (ast.FunctionDef, ast.AsyncFunctionDef))]:
        al = _aliases(fn)
        if al:
            sub = _Subst(al)
            fn.body = [sub.visit(st) for st in fn.body]
            n_alias += len(al)
    before = sum(1 for n in ast.walk(tree) if isinstance(n, ast.Assign))
    _Updates().visit(tree)
    n_upd = sum(1 for n in ast.walk(tree) if isinstance(n, ast.Assign)) - before
    ast.fix_missing_locations(tree)
    return tree, {"aliases_inlined": n_alias, "update_keys_split": n_upd, "table_loops_unrolled": n_unrolled, "wrappers_inlined": n_inlined, "expression_helpers_inlined": n_expr, "noreturn_helpers_inlined": n_noret, "selector_helpers_inlined": n_sel, "kwargs_dicts_inlined": n_kw, "calls_made_positional": n_canon, "pure_locals_propagated": n_pure, "tail_method_calls_inlined": n_tail, "flags_inlined": n_flags, "dict_literals_propagated": n_dict, "any_all_expanded": aa.count, "getattr_setattr_folded": gs.count, "numeric_constants_folded": n_const, "boolean_constants_folded": fb.count, "inlined_helpers": sorted(set(_INLINED))}
