"""Transfer functions for calls: repo functions (descent), numpy/xarray/sklearn tables, methods."""

from __future__ import annotations

import ast

from .astutil import norm, str_const
from .av import AV, FRESH, KINDS, TOP, join, join_all, schema_av
from .loader import ClassInfo, External, FuncInfo, Sym, dotted

FULL_TURN = ("360", "360.0", "2 * np.pi", "2.0 * np.pi", "np.pi * 2", "2 * math.pi", "2 * pi", "2.0 * pi")

VIEW_METHODS = {"ravel", "reshape", "squeeze", "transpose", "swapaxes", "view", "T"}
COPY_METHODS = {"copy", "flatten", "tolist", "astype", "to_numpy", "compute", "load"}
REDUCE_KEEP = {"min", "max", "mean", "median"}
REDUCE_DROP = {"sum", "prod", "std", "var", "any", "all", "argmax", "argmin", "count_nonzero", "item"}

NP_TRIG = {"sin", "cos", "tan"}
NP_ATRIG = {"arcsin", "arccos", "arctan", "arctan2", "atan2", "asin", "acos", "atan"}
NP_SHAPE_VIEW = {"ravel", "reshape", "squeeze", "expand_dims", "transpose", "swapaxes", "atleast_1d", "atleast_2d"}
NP_STACK = {"vstack", "hstack", "stack", "column_stack", "concatenate", "dstack"}
NP_MASK = {"logical_or", "logical_and", "logical_not", "isnan", "isin", "isfinite", "isclose"}
NP_ALLOC = {"zeros", "ones", "empty", "full", "arange", "zeros_like", "ones_like", "full_like", "empty_like", "linspace"}


def np_name(ext: str):
    for p in ("numpy.", "np."):
        if ext.startswith(p):
            return ext[len(p):]
    if ext.startswith("math."):
        return ext[5:]
    return None


def is_int_dtype(av: AV):
    return av is not None and av.const is not None and av.const[1] in (Sym("INT_DTYPE"), Sym("uxarray.constants.INT_DTYPE"))


def dtype_state(av: AV):
    """'std' for INT_DTYPE, 'other' for a definite other dtype, None unknown."""
    if av is None:
        return None
    if av.const is not None:
        c = av.const[1]
        if isinstance(c, Sym):
            if c.name.split(".")[-1] == "INT_DTYPE":
                return "std"
            if c.name.split(".")[-1] in ("intp",):
                return "std"
            if c.name.split(".")[-1] in ("int32", "int16", "int8", "uint32", "uint64", "float32", "float64", "int64", "float", "int"):
                return "other"
        if isinstance(c, str):
            return "other"
    if av.kind == "dtype" and av.conn is not None:
        return av.conn[0]
    if av.kind == "class":
        return "other"
    return None


def call_transfer(I, node: ast.Call, fr):
    # evaluate arguments first (left-to-right after the callee expression)
    fexpr = node.func
    bound = None
    fav = None
    target = None  # FuncInfo | ClassInfo | External | ('method', name, base)
    if isinstance(fexpr, ast.Attribute):
        ch = dotted(fexpr)
        r = None
        if ch and ch[0] not in fr.env:
            r = I.P.resolve_expr(fr.func.module, fexpr, fr.func)
        if r is not None and isinstance(r, (FuncInfo, ClassInfo, External)):
            target = r
        else:
            base = I.eval(fexpr.value, fr)
            fav = I.attr_of(base, fexpr.attr, fexpr, fr)
            if fav.kind == "func" and fav.func is not None:
                target = fav.func
                bound = base
            else:
                target = ("method", fexpr.attr, base)
    elif isinstance(fexpr, ast.Name):
        if fexpr.id in fr.env:
            fav = fr.env[fexpr.id]
            if fav.kind == "func" and fav.func is not None:
                target = fav.func
            elif fav.kind == "class" and fav.cls is not None:
                target = fav.cls
        else:
            r = I.P.resolve_name(fr.func.module, fexpr.id, fr.func)
            if isinstance(r, (FuncInfo, ClassInfo, External)):
                target = r
            elif fexpr.id in BUILTINS:
                target = External("builtins." + fexpr.id)
    else:
        I.eval(fexpr, fr)

    args = []
    for a in node.args:
        if isinstance(a, ast.Starred):
            I.eval(a.value, fr)
            args.append(TOP)
        else:
            args.append(I.eval(a, fr))
    kwargs = {}
    for k in node.keywords:
        v = I.eval(k.value, fr)
        kwargs[k.arg] = v

    I.emit("call", fr, node, target=target, args=args, kwargs=kwargs, bound=bound)

    if isinstance(target, FuncInfo):
        f = target
        if f.is_property:
            return TOP
        bs = bound
        if f.cls is not None and f.is_classmethod:
            bs = AV(kind="class", cls=f.cls)
        elif f.cls is not None and bound is None and not f.is_staticmethod:
            bs = None
        ret = I.call_repo(f, args, kwargs, node, fr, bound_self=bs)
        if ret is None:
            ret = summary_fallback(I, f, args, kwargs)
        if f.name in UNITLEN_PRODUCERS and f.cls is None:
            if ret.elts and len(ret.elts) == 3:
                ret = ret.with_(elts=tuple(e.with_(unitlen=True, role=r) for e, r in zip(ret.elts, ("x", "y", "z"))))
            else:
                ret = AV(kind="tuple", elts=tuple(AV(kind="nd", unitlen=True, role=r, origins=FRESH) for r in ("x", "y", "z")), origins=FRESH)
        return ret
    if isinstance(target, ClassInfo):
        return construct(I, target, args, kwargs, node, fr)
    if isinstance(target, External):
        I.stats["calls_external"] += 1
        return external_call(I, target.name, node, args, kwargs, fr)
    if isinstance(target, tuple):
        I.stats["calls_external"] += 1
        return method_call(I, target[1], target[2], node, args, kwargs, fr)
    I.stats["calls_unresolved"] += 1
    return TOP


UNITLEN_PRODUCERS = {"_normalize_xyz", "_normalize_xyz_scalar", "_lonlat_rad_to_xyz"}

BUILTINS = {"len", "range", "enumerate", "zip", "list", "tuple", "dict", "set", "int", "float", "str", "max", "min", "sum",
            "abs", "isinstance", "getattr", "setattr", "hasattr", "print", "any", "all", "sorted", "reversed", "map", "iter", "next", "super", "type", "bool"}


def summary_fallback(I, f: FuncInfo, args, kwargs):
    """Beyond the inlining bound: name-based contract only (no claim otherwise)."""
    return TOP


def construct(I, ci: ClassInfo, args, kwargs, node, fr):
    I.emit("construct", fr, node, cls=ci, args=args, kwargs=kwargs)
    kind = {"Grid": "grid", "UxDataArray": "uxda", "UxDataset": "uxds", "BallTree": "tree", "KDTree": "tree"}.get(ci.name)
    init = ci.methods.get("__init__")
    if init is not None and kind in ("grid", "tree"):
        I.call_repo(init, args, kwargs, node, fr, bound_self=AV(kind=kind, cls=ci))
    return AV(kind=kind, cls=ci, origins=FRESH)


def _first(args, kwargs, *names):
    if args:
        return args[0]
    for n in names:
        if n in kwargs:
            return kwargs[n]
    return TOP


def external_call(I, name, node, args, kwargs, fr):
    n = np_name(name)
    a0 = args[0] if args else TOP
    if n is not None:
        n = n.split(".")[-1] if not n.startswith("linalg.") else n
        if n in ("deg2rad", "radians"):
            return a0.only("kind", "axes", "role", "rng").with_(unit="rad", origins=FRESH, kind=a0.kind if a0.kind in ("nd", "da") else ("nd" if a0.kind == "list" else a0.kind))
        if n in ("rad2deg", "degrees"):
            return a0.only("kind", "axes", "role", "rng").with_(unit="deg", origins=FRESH)
        if n in NP_TRIG:
            return AV(kind=a0.kind if a0.kind in ("nd", "da") else None, axes=a0.axes, origins=FRESH)
        if n in NP_ATRIG:
            return AV(kind=a0.kind if a0.kind in ("nd", "da") else None, axes=a0.axes, unit="rad", origins=FRESH)
        if n in ("asarray", "asanyarray", "ascontiguousarray"):
            dt = kwargs.get("dtype") or (args[1] if len(args) > 1 else None)
            if a0.kind == "list" or a0.kind == "tuple":
                j = join_all(a0.elts) if a0.elts else a0
                return AV(kind="nd", unit=j.unit, vals=j.vals, fill=j.fill, origins=FRESH)
            out = a0.with_(kind="nd" if a0.kind in ("da", "list", None) else a0.kind)
            if dt is not None:
                # may copy (dtype differs) or not: may-alias
                ds = dtype_state(dt)
                if out.conn is not None:
                    out = out.with_(conn=(ds or out.conn[0], out.conn[1], out.conn[2]))
                elif a0.vals or a0.src:
                    out = out.with_(conn=(ds, None, None))
            return out
        if n == "array":
            dt = kwargs.get("dtype") or (args[1] if len(args) > 1 else None)
            if a0.kind in ("list", "tuple"):
                j = join_all(a0.elts) if a0.elts else a0
                return AV(kind="nd", unit=j.unit, role=None, vals=j.vals, fill=j.fill, origins=FRESH)
            out = a0.with_(kind="nd", origins=FRESH, var=None, dsof=None)
            ds = dtype_state(dt) if dt is not None else None
            if out.conn is not None:
                out = out.with_(conn=(ds or out.conn[0], out.conn[1], out.conn[2]))
            elif ds:
                out = out.with_(conn=(ds, None, None))
            return out
        if n in NP_STACK:
            seq = a0
            j = join_all(seq.elts) if seq.elts else seq
            return AV(kind="nd", unit=j.unit, vals=j.vals, fill=j.fill, conn=j.conn, src=j.src, origins=FRESH)
        if n == "where":
            if len(args) == 1:
                sp = a0.axes[0] if a0.axes else None
                e = AV(kind="nd", axes=(None,), vals=sp if sp in KINDS else None, fill="no", origins=FRESH)
                return AV(kind="tuple", elts=(e,), origins=FRESH)
            if len(args) >= 3:
                j = join(args[1].without("const", "origins", "kind"), args[2].without("const", "origins", "kind"))
                unit = args[1].unit or args[2].unit if (args[1].unit is None or args[2].unit is None) else j.unit
                rng = args[1].rng if args[2].rng in (None, args[1].rng) else (args[2].rng if args[1].rng is None else None)
                if args[1].const is None and args[2].const is None and args[1].rng != args[2].rng:
                    rng = None
                return j.with_(kind="nd", origins=FRESH, unit=unit, role=args[1].role or args[2].role, rng=rng)
            return TOP
        if n in ("argwhere", "nonzero", "flatnonzero"):
            sp = a0.axes[0] if a0.axes else None
            return AV(kind="nd", vals=sp if sp in KINDS else None, fill="no", origins=FRESH)
        if n == "unique":
            ret = [k for k in ("return_index", "return_inverse", "return_counts") if k in kwargs]
            e = AV(kind="nd", axes=(None,), vals=a0.vals, fill=a0.fill, unit=a0.unit, role=a0.role, origins=FRESH)
            if ret:
                return AV(kind="tuple", elts=tuple([e] + [AV(kind="nd", origins=FRESH) for _ in ret]), origins=FRESH)
            return e
        if n == "delete":
            I.emit("np_delete", fr, node, base=a0, index=args[1] if len(args) > 1 else TOP, kwargs=kwargs)
            ax = list(a0.axes) if a0.axes else None
            if ax:
                ax[0] = None
            return a0.with_(kind="nd", axes=tuple(ax) if ax else None, origins=FRESH, var=None)
        if n in ("mean", "min", "max", "median", "amin", "amax", "nanmin", "nanmax"):
            return AV(unit=a0.unit, role=a0.role, origins=FRESH)
        if n in ("sum", "prod", "std", "var", "any", "all", "argmax", "argmin", "cumsum", "count_nonzero", "dot", "cross",
                 "argsort", "sort", "searchsorted", "diff", "abs", "absolute", "sqrt", "sign", "floor", "ceil", "round"):
            if n in ("abs", "absolute", "diff"):
                return AV(kind="nd", unit=a0.unit, origins=FRESH)
            return AV(kind="nd" if n in ("cumsum", "argsort", "sort", "searchsorted", "cross") else None, origins=FRESH)
        if n in NP_SHAPE_VIEW:
            ax = None
            return a0.with_(kind="nd", axes=ax, var=None, dsof=None)
        if n in ("flip", "roll", "copy", "repeat", "tile", "take"):
            return a0.with_(kind="nd", origins=FRESH, var=None, dsof=None, axes=None if n != "copy" else a0.axes)
        if n in NP_MASK:
            return AV(kind="mask", axes=a0.axes, origins=FRESH)
        if n in NP_ALLOC:
            dt = kwargs.get("dtype")
            ds = dtype_state(dt) if dt is not None else None
            out = AV(kind="nd", origins=FRESH)
            if ds:
                out = out.with_(conn=(ds, None, None))
            if n == "arange" and a0.kind == "int" and a0.count in KINDS and len(args) == 1:
                out = out.with_(axes=(a0.count,), vals=a0.count, fill="no")
            if n == "full" and len(args) > 1 and args[1].const is not None and args[1].const[1] == Sym("INT_FILL_VALUE"):
                out = out.with_(fill="may")
            return out
        if n == "mod":
            out = a0.only("kind", "axes", "unit", "role").with_(origins=FRESH)
            if len(node.args) > 1 and norm(node.args[1]) in FULL_TURN:
                out = out.with_(rng="pos")
            return out
        if n == "pad":
            conn = a0.conn
            if a0.kind == "list" and (conn is None or conn[0] is None):
                conn = ("other", None, None)
            return AV(kind="nd", vals=a0.vals, conn=conn, origins=FRESH)
        if n == "put":
            I.emit("mutate", fr, node, base=a0, how="np.put", target_node=node.args[0] if node.args else node)
            return AV(kind="none")
        if n == "einsum":
            I.emit("einsum", fr, node, args=args)
            return AV(kind="nd", origins=FRESH)
        if n in ("linalg.norm", "norm"):
            I.emit("norm", fr, node, args=args, kwargs=kwargs)
            return AV(origins=FRESH)
        if n in ("iinfo", "finfo", "issubdtype", "isscalar", "ndim", "shape", "size"):
            return TOP
        if n in ("float64", "float32", "int32", "int64", "intp"):
            return AV(const=a0.const, origins=FRESH)
        return AV(origins=FRESH)
    if name.startswith("builtins."):
        b = name[9:]
        if b == "enumerate":
            e = I.iter_elem(a0, None, fr)
            sp = a0.axes[0] if a0.axes else None
            idx = AV(kind="int", vals=sp if sp in KINDS else None, fill="no") if sp in KINDS else AV(kind="int")
            return AV(kind="list", elts=None, origins=FRESH).with_(kind="enum", elts=(idx, e))
        if b == "zip":
            return AV(kind="enum", elts=tuple(I.iter_elem(a, None, fr) for a in args), origins=FRESH)
        if b == "range":
            if len(args) == 1 and a0.kind == "int" and a0.count in KINDS:
                return AV(kind="list", axes=(a0.count,), vals=a0.count, fill="no", origins=FRESH)
            return AV(kind="list", origins=FRESH)
        if b == "len":
            if a0.axes and a0.axes[0] in KINDS + ("slot",):
                return AV(kind="int", count=a0.axes[0])
            return AV(kind="int")
        if b in ("list", "tuple", "sorted", "reversed"):
            return a0.with_(origins=FRESH) if a0.kind in ("list", "nd", "tuple") else AV(kind="list", origins=FRESH)
        if b == "dict":
            return AV(kind="dict", origins=FRESH)
        if b in ("int", "float"):
            return AV(kind="int" if b == "int" else None, count=a0.count, unit=a0.unit, role=a0.role, origins=FRESH)
        if b == "getattr" and len(args) >= 2 and args[1].const is not None and isinstance(args[1].const[1], str):
            return I.attr_of(a0, args[1].const[1], node, fr)
        if b in ("max", "min"):
            j = join_all(args) if len(args) > 1 else a0
            return AV(unit=j.unit, role=j.role, origins=FRESH)
        return AV(origins=FRESH)
    last = name.split(".")[-1]
    if name.startswith(("xarray.", "xr.")):
        if last == "DataArray":
            data = kwargs.get("data", a0 if args else TOP)
            attrs = kwargs.get("attrs")
            dims = kwargs.get("dims")
            I.emit("mk_da", fr, node, data=data, attrs=attrs, dims=dims, kwargs=kwargs)
            keep = data.without("kind", "const", "elts", "var", "dsof", "cls", "func")
            return keep.with_(kind="da")
        if last == "Dataset":
            if args or kwargs:
                return AV(kind="ds", origins=FRESH)
            return AV(kind="ds", dsof="new", origins=FRESH)
        if last in ("open_dataset", "open_mfdataset"):
            return AV(kind="ds", dsof="file", origins=FRESH)
        return AV(origins=FRESH)
    if "sklearn" in name or last in ("SKBallTree", "SKKDTree"):
        I.emit("sk_tree", fr, node, args=args, kwargs=kwargs, name=last)
        return AV(kind="sktree", origins=FRESH)
    if name.startswith("copy."):
        if last in ("deepcopy", "copy"):
            return a0.with_(origins=FRESH)
    if name.startswith("warnings.") or last == "warn":
        return AV(kind="none")
    return AV(origins=FRESH)


def method_call(I, meth, base: AV, node, args, kwargs, fr):
    k = base.kind
    a0 = args[0] if args else TOP
    if k in ("nd", "da", "list", "mask") or (k is None and base.origins and any(o[0] in ("param", "parambuf") for o in base.origins)):
        if meth == "astype":
            ds = dtype_state(a0)
            nocopy = any(kw.arg == "copy" and isinstance(kw.value, ast.Constant) and kw.value.value is False for kw in getattr(node, "keywords", []))
            # astype(dtype, copy=False) returns the operand itself when the dtype already matches: it may alias
            out = base.with_(kind="nd" if k == "da" else k) if nocopy else base.with_(origins=FRESH, var=None)
            if out.conn is not None:
                out = out.with_(conn=(ds or out.conn[0], out.conn[1], out.conn[2]))
            elif ds and (base.vals or base.src):
                out = out.with_(conn=(ds, None, None))
            return out
        if meth in ("copy", "flatten", "tolist", "to_numpy", "compute", "load", "item"):
            if meth == "to_numpy":
                return base.with_(kind="nd")
            ax = base.axes if meth == "copy" else None
            return base.with_(origins=FRESH, axes=ax, var=None)
        if meth in VIEW_METHODS:
            return base.with_(axes=None, var=None, dsof=None, kind="nd" if k in ("da", "nd", "list") else k)
        if meth in REDUCE_KEEP or meth in REDUCE_DROP:
            I.emit("reduce", fr, node, base=base, how=meth, kwargs=kwargs, args=args)
            if meth in REDUCE_KEEP:
                return AV(unit=base.unit, role=base.role, origins=FRESH)
            return AV(origins=FRESH)
        if meth == "sort":
            I.emit("mutate", fr, node, base=base, how=".sort()", target_node=node.func.value)
            return AV(kind="none")
        if meth in ("fill", "put", "itemset", "resize", "partition"):
            I.emit("mutate", fr, node, base=base, how=f".{meth}()", target_node=node.func.value)
            return AV(kind="none")
        if meth == "isel":
            I.emit("isel", fr, node, base=base, kwargs=kwargs, args=args)
            return base.with_(origins=FRESH, axes=None, var=None)
        if meth in ("equals", "identical", "all", "any"):
            return AV(kind="bool")
        if meth in ("split",):
            return AV(kind="list", origins=FRESH)
        if meth in ("chunk", "rename", "assign_attrs", "fillna", "where", "clip", "drop_vars"):
            return base.with_(origins=FRESH)
        if meth in ("append", "extend", "insert", "pop", "remove", "clear", "reverse"):
            I.emit("mutate", fr, node, base=base, how=f".{meth}()", target_node=node.func.value)
            return AV(kind="none")
        return AV(origins=FRESH)
    if k == "ds":
        if meth in ("rename", "swap_dims", "drop_vars", "set_coords", "rename_dims", "rename_vars", "isel", "assign_attrs",
                    "assign", "assign_coords", "chunk", "squeeze", "transpose", "expand_dims"):
            if meth == "isel":
                I.emit("isel", fr, node, base=base, kwargs=kwargs, args=args)
            org = frozenset(("parambuf", o[1]) if o[0] in ("param", "parambuf") else (("grid_dsbuf",) if o[0] in ("grid_ds", "grid_dsbuf") else o)
                            for o in (base.origins or ()))
            return AV(kind="ds", dsof=base.dsof, origins=org or FRESH)
        if meth == "copy":
            deep = kwargs.get("deep")
            if deep is not None and deep.const is not None and deep.const[1] is True:
                return AV(kind="ds", dsof=base.dsof, origins=FRESH)
            org = frozenset(("parambuf", o[1]) if o[0] in ("param", "parambuf") else (("grid_dsbuf",) if o[0] in ("grid_ds", "grid_dsbuf") else o)
                            for o in (base.origins or ()))
            return AV(kind="ds", dsof=base.dsof, origins=org or FRESH)
        if meth == "filter_by_attrs":
            return AV(kind="ds", dsof=base.dsof, origins=FRESH)
        if meth in ("keys", "items", "values"):
            return AV(kind="list", origins=FRESH)
        if meth in ("update", "merge"):
            I.emit("mutate", fr, node, base=base, how=f".{meth}()", target_node=node.func.value)
        return AV(origins=FRESH)
    if k == "dict" or k == "dictmethod":
        if meth in ("update", "pop", "setdefault", "clear", "popitem", "__setitem__"):
            I.emit("mutate", fr, node, base=base, how=f".{meth}()", target_node=node.func.value)
            return AV(origins=FRESH)
        if meth == "copy":
            return AV(kind="dict", origins=FRESH)
        if meth == "get":
            if base.const is not None and isinstance(base.const[1], dict) and a0.const is not None:
                v = base.const[1].get(a0.const[1])
                if v is not None:
                    return AV(const=("c", v), origins=base.origins)
            return AV(origins=base.origins)
        if meth in ("keys", "values", "items"):
            return AV(kind="list", origins=FRESH)
        return AV(origins=FRESH)
    if k == "grid":
        # non-property grid methods are resolved through attr_of -> FuncInfo; anything else is unknown
        return TOP
    if k in ("uxda", "uxds"):
        if meth in ("isel",):
            I.emit("isel", fr, node, base=base, kwargs=kwargs, args=args)
        return AV(kind=k, origins=FRESH)
    if k == "str":
        return AV(kind="str" if meth not in ("split",) else "list", origins=FRESH)
    if k == "tuple" or k == "enum":
        return AV(origins=FRESH)
    if k == "sktree":
        I.emit("sk_query", fr, node, meth=meth, args=args, kwargs=kwargs)
        return AV(kind="tuple", origins=FRESH)
    if k == "tree":
        return TOP
    if meth in ("append", "extend", "insert", "update", "pop", "remove", "clear", "setdefault", "sort", "reverse"):
        I.emit("mutate", fr, node, base=base, how=f".{meth}()", target_node=node.func.value)
    return TOP
