"""Obligations, verdicts, known findings, evidence and replay files."""

from __future__ import annotations

import json
import os
import re
import time
from dataclasses import dataclass, field, asdict

from . import VERIF

HOLDS = "holds"
VIOLATION = "violation"
INCOMPLETE = "incomplete"
NOTE = "note"


@dataclass
class Ob:
    prop: str
    rule: str  # e.g. "F-UNIT/deg->rad-sink"
    construct: str  # stable key: module:function:normalised-construct
    where: str  # file:line (diagnostic only, never used for matching)
    verdict: str
    detail: str = ""
    facts: dict = field(default_factory=dict)
    nontrivial: bool = True

    def key(self):
        return (self.prop, self.rule, self.construct)


def load_known():
    path = os.path.join(VERIF, "known_findings.jsonl")
    known, fixed = {}, []
    if os.path.exists(path):
        with open(path) as f:
            for ln in f:
                ln = ln.strip()
                if not ln or ln.startswith("#"):
                    continue
                rec = json.loads(ln)
                if rec.get("fixed"):
                    fixed.append(rec)
                else:
                    known[(rec["property"], rec["rule"], rec["construct"])] = rec
    return known, fixed


def _slug(s):
    return re.sub(r"[^A-Za-z0-9_.-]+", "_", s)[:150]


class Run:
    def __init__(self, prop, tier, program, seed=0):
        self.prop = prop
        self.tier = tier
        self.program = program
        self.seed = seed
        self.obs: list[Ob] = []
        self.t0 = time.time()
        self.stats = {}
        self.assumptions = []
        self.explanation = ""
        self.rule_text = ""
        self.floors = {}  # rule -> (found, floor)
        self.extra = {}

    # ------------------------------------------------------------------ record
    def ob(self, rule, construct, where, verdict, detail="", facts=None, nontrivial=True):
        o = Ob(self.prop, rule, construct, where, verdict, detail, facts or {}, nontrivial)
        # de-duplicate identical constructs (same rule/key): keep the worst verdict
        for i, p in enumerate(self.obs):
            if p.key() == o.key():
                order = {HOLDS: 0, NOTE: 0, INCOMPLETE: 1, VIOLATION: 2}
                if order[o.verdict] > order[p.verdict]:
                    self.obs[i] = o
                return self.obs[i]
        self.obs.append(o)
        return o

    def holds(self, rule, construct, where, detail="", **kw):
        return self.ob(rule, construct, where, HOLDS, detail, **kw)

    def violation(self, rule, construct, where, detail="", **kw):
        return self.ob(rule, construct, where, VIOLATION, detail, **kw)

    def _normalisation(self):
        """rewrites the normaliser applied to the parsed modules before the rules read them (per module, non-zero only)"""
        out = {}
        if self.program:
            for m in self.program.modules.values():
                st = {k: v for k, v in (getattr(m, "normalised", {}) or {}).items() if v}
                if st:
                    out[m.relpath] = st
        return out

    def incomplete(self, rule, construct, where, detail="", **kw):
        return self.ob(rule, construct, where, INCOMPLETE, detail, **kw)

    def note(self, rule, construct, where, detail="", **kw):
        return self.ob(rule, construct, where, NOTE, detail, nontrivial=False, **kw)

    def floor(self, rule, found, floor):
        """Instance-count floor: a rule that matches fewer sites than confirmed by hand is broken."""
        self.floors[rule] = (found, floor)
        if found < floor:
            self.incomplete(
                rule + "/floor",
                f"instances:{rule}",
                "-",
                f"rule matched {found} instance(s), fewer than the {floor} confirmed by reading; "
                "an anchor moved or an idiom is no longer recognised",
            )

    # ------------------------------------------------------------------ finish
    def finish(self, out=print):
        known, fixed = load_known()
        n_viol = 0
        n_known = 0
        n_incomplete = 0
        used_known = set()
        lines = []
        for o in self.obs:
            if o.verdict == VIOLATION:
                k = o.key()
                if k in known:
                    n_known += 1
                    used_known.add(k)
                    lines.append(
                        f"KNOWN-FINDING: property={o.prop} {o.rule} {o.construct} @ {o.where}: {known[k].get('what', o.detail)}"
                    )
                else:
                    n_viol += 1
                    path = self._write_replay(o)
                    lines.append(f"VIOLATION property={o.prop} replay={path}")
                    lines.append(f"  rule={o.rule} construct={o.construct} at {o.where}")
                    lines.append(f"  {o.detail}")
            elif o.verdict == INCOMPLETE:
                n_incomplete += 1
                lines.append(
                    f"ANALYSIS-INCOMPLETE property={o.prop} rule={o.rule} construct={o.construct} at {o.where}: {o.detail}"
                )
        for ln in lines:
            out(ln)
        wall = time.time() - self.t0
        discharged = sum(1 for o in self.obs if o.verdict == HOLDS)
        obligations = sum(1 for o in self.obs if o.verdict in (HOLDS, VIOLATION, INCOMPLETE))
        nontrivial = len({o.key() for o in self.obs if o.nontrivial and o.verdict in (HOLDS, VIOLATION)})
        by_rule = {}
        for o in self.obs:
            d = by_rule.setdefault(o.rule, {"holds": 0, "violation": 0, "incomplete": 0, "note": 0})
            d[o.verdict] += 1
        samples = []
        seen_rules = set()
        for o in self.obs:
            if o.rule not in seen_rules or o.verdict == VIOLATION:
                seen_rules.add(o.rule)
                samples.append(
                    {
                        "rule": o.rule,
                        "construct": o.construct,
                        "where": o.where,
                        "verdict": ("known-finding" if (o.verdict == VIOLATION and o.key() in known) else o.verdict),
                        "detail": o.detail,
                        "facts": o.facts,
                    }
                )
            if len(samples) >= 60:
                break
        cov = {
            "explanation": self.explanation or "static analysis of /repo sources (see DESIGN.md)",
            "rule": self.rule_text,
            "obligations": obligations,
            "discharged": discharged,
            "evaluations": max(len(self.obs), 1),
            "distinct_nontrivial": nontrivial,
            "samples": samples or [{"note": "no obligations generated"}],
            "instances_by_rule": by_rule,
            "floors": {k: {"found": v[0], "floor": v[1]} for k, v in self.floors.items()},
            "known_findings": n_known,
            "unlisted_violations": n_viol,
            "incomplete": n_incomplete,
            "modules_parsed": len(self.program.modules) if self.program else 0,
            "functions_in_package": self.program.n_functions if self.program else 0,
            "normalisation": self._normalisation(),
            "checker_cmd": f"/venv/bin/python -m uxsa check {self.prop} --tier {self.tier}",
            "trusted_base": [
                "CPython ast parser",
                "behaviour-preserving normaliser uxsa/normalise.py (validated by its equivalence samples in selfcheck)",
                "hand-written numpy/xarray transfer tables (uxsa/absint.py)",
                "schema derived from uxarray/conventions/*.py",
            ],
            "exhaustive": False,
        }
        cov.update(self.stats)
        cov.update(self.extra)
        ev = {
            "property_id": self.prop,
            "tier": self.tier,
            "seed": int(self.seed),
            "level": "other",
            "coverage": cov,
            "assumptions": self.assumptions,
            "wall_s": round(wall, 3),
            "violations": n_viol,
        }
        if not os.environ.get("UXSA_NO_EVIDENCE"):  # set only by the seeded-change harness (scratch trees)
            evdir = os.path.join(VERIF, "evidence")
            os.makedirs(evdir, exist_ok=True)
            with open(os.path.join(evdir, f"{self.prop}.json"), "w") as f:
                json.dump(ev, f, indent=1, sort_keys=True, default=str)
                f.write("\n")
        out(
            f"[{self.prop}/{self.tier}] obligations={obligations} discharged={discharged} "
            f"known-findings={n_known} violations={n_viol} incomplete={n_incomplete} wall={wall:.2f}s"
        )
        if n_viol:
            return 1
        if n_incomplete:
            return 2
        return 0

    def _write_replay(self, o: Ob):
        if os.environ.get("UXSA_NO_REPLAY"):
            return os.path.join(VERIF, "replay", o.prop, _slug(f"{o.rule}__{o.construct}") + ".json")
        d = os.path.join(VERIF, "replay", o.prop)
        os.makedirs(d, exist_ok=True)
        path = os.path.join(d, _slug(f"{o.rule}__{o.construct}") + ".json")
        with open(path, "w") as f:
            json.dump(
                {
                    "property": o.prop,
                    "rule": o.rule,
                    "construct": o.construct,
                    "where": o.where,
                    "detail": o.detail,
                    "facts": o.facts,
                    "rerun": f"/venv/bin/python -m uxsa check {o.prop} --tier {self.tier}",
                },
                f,
                indent=1,
                default=str,
            )
        return path
