"""Exact multivariate polynomial arithmetic (integer coefficients) over AST expressions - enough to prove small
algebraic identities statically (no floating point, no execution of the analysed code)."""

from __future__ import annotations

import ast
from fractions import Fraction

from ..astutil import norm


class Poly:
    __slots__ = ("t",)

    def __init__(self, terms=None):
        self.t = {k: v for k, v in (terms or {}).items() if v != 0}

    @staticmethod
    def const(c):
        return Poly({(): Fraction(c)})

    @staticmethod
    def var(name):
        return Poly({(name,): Fraction(1)})

    def __add__(self, o):
        out = dict(self.t)
        for k, v in o.t.items():
            out[k] = out.get(k, 0) + v
        return Poly(out)

    def __neg__(self):
        return Poly({k: -v for k, v in self.t.items()})

    def __sub__(self, o):
        return self + (-o)

    def __mul__(self, o):
        out = {}
        for ka, va in self.t.items():
            for kb, vb in o.t.items():
                k = tuple(sorted(ka + kb))
                out[k] = out.get(k, 0) + va * vb
        return Poly(out)

    def is_zero(self):
        return not self.t

    def subst(self, name, p):
        """replace variable `name` by polynomial p"""
        out = Poly()
        for k, v in self.t.items():
            term = Poly({(): v})
            for x in k:
                term = term * (p if x == name else Poly.var(x))
            out = out + term
        return out

    def degree_in(self, name):
        return max((k.count(name) for k in self.t), default=0)

    def coeff(self, name, d):
        """coefficient polynomial of name**d"""
        out = {}
        for k, v in self.t.items():
            if k.count(name) == d:
                kk = tuple(x for x in k if x != name)
                out[kk] = out.get(kk, 0) + v
        return Poly(out)

    def diff(self, name):
        out = {}
        for k, v in self.t.items():
            n = k.count(name)
            if n:
                kk = list(k)
                kk.remove(name)
                kk = tuple(kk)
                out[kk] = out.get(kk, 0) + v * n
        return Poly(out)

    def __repr__(self):
        return " + ".join(f"{v}*{'*'.join(k) or '1'}" for k, v in sorted(self.t.items())) or "0"


class Rat:
    """numerator / denominator"""
    __slots__ = ("n", "d")

    def __init__(self, n, d=None):
        self.n = n
        self.d = d if d is not None else Poly.const(1)

    def __add__(self, o):
        return Rat(self.n * o.d + o.n * self.d, self.d * o.d)

    def __sub__(self, o):
        return Rat(self.n * o.d - o.n * self.d, self.d * o.d)

    def __mul__(self, o):
        return Rat(self.n * o.n, self.d * o.d)

    def __truediv__(self, o):
        return Rat(self.n * o.d, self.d * o.n)

    def __neg__(self):
        return Rat(-self.n, self.d)


class NotAlgebraic(Exception):
    pass


def to_rat(node, env):
    """AST -> Rat.  env maps normalised leaf texts (names, subscripts like 'n1[2]') to Rat values or variable names."""
    key = norm(node)
    if key in env:
        v = env[key]
        return v if isinstance(v, Rat) else Rat(Poly.var(v))
    if isinstance(node, ast.Constant) and isinstance(node.value, (int, float)) and not isinstance(node.value, bool):
        return Rat(Poly.const(Fraction(node.value).limit_denominator(10**9)))
    if isinstance(node, ast.UnaryOp) and isinstance(node.op, ast.USub):
        return -to_rat(node.operand, env)
    if isinstance(node, ast.BinOp):
        a, b = to_rat(node.left, env), to_rat(node.right, env)
        if isinstance(node.op, ast.Add):
            return a + b
        if isinstance(node.op, ast.Sub):
            return a - b
        if isinstance(node.op, ast.Mult):
            return a * b
        if isinstance(node.op, ast.Div):
            return a / b
    raise NotAlgebraic(key)
