"""WRAP/one-sided-period: a hand-written longitude wrap that handles one side only, applied to a DIFFERENCE of two angles.

`np.where(v > 180, v - 360, v)` is a correct wrap into (-180, 180] for v in [0, 360) - and only for that: when v = a - b (a longitude minus a central
longitude, a difference of two longitudes) v ranges over more than one period on BOTH sides, and the values below -180 are left where they are.  The code
contradicts itself: it believes v can leave the principal range (otherwise no wrap) and handles `>` but not `<` (Engler et al.: one-sided comparison).
Matched shapes (V a name, H/P the half period / period in degrees or radians, P == 2H):
    V = np.where(V > H, V - P, V)         V = np.where(V < -H, V + P, V)         if V > H: V -= P  /  V = V - P
reported when, in the same function, only one side is handled for V and the binding of V that reaches the wrap is `a - b` / `a + b` with two non-constant
operands.  Silent on everything else (contradiction rule): mod-based wraps, wraps of raw coordinates, both sides present, unknown operands."""
import ast

from ..astutil import iter_stmts, norm, where
from ..loader import dotted

_HALF = {"180", "180.0", "np.pi", "pi", "math.pi"}
_FULL = {"360", "360.0", "2 * np.pi", "2.0 * np.pi", "2 * pi", "np.pi * 2", "2 * math.pi"}


def _half(e):
    """+1 / -1 if e is H / -H"""
    if isinstance(e, ast.UnaryOp) and isinstance(e.op, ast.USub):
        return -1 if norm(e.operand) in _HALF else 0
    return 1 if norm(e) in _HALF else 0


def _side(cond, shifted, v):
    """'hi' for (V > H, V - P), 'lo' for (V < -H, V + P), else None"""
    if not (isinstance(cond, ast.Compare) and len(cond.ops) == 1 and norm(cond.left) == v):
        return None
    op, h = cond.ops[0], _half(cond.comparators[0])
    if not (isinstance(shifted, ast.BinOp) and norm(shifted.left) == v and norm(shifted.right) in _FULL):
        return None
    if isinstance(op, (ast.Gt, ast.GtE)) and h == 1 and isinstance(shifted.op, ast.Sub):
        return "hi"
    if isinstance(op, (ast.Lt, ast.LtE)) and h == -1 and isinstance(shifted.op, ast.Add):
        return "lo"
    return None


def _is_const(e):
    if isinstance(e, ast.Constant):
        return True
    return norm(e) in _HALF | _FULL or (isinstance(e, ast.UnaryOp) and _is_const(e.operand))


def scan_function(fnode):
    """[(node, V, side handled, defining expression text)]"""
    sides = {}      # V -> {side: node}
    last_def = {}   # V -> expression bound most recently (source order)
    reaching = {}   # V -> definition that reached its first wrap
    for st in iter_stmts(fnode.body):
        if isinstance(st, ast.Assign) and len(st.targets) == 1 and isinstance(st.targets[0], ast.Name):
            v, val = st.targets[0].id, st.value
            s = None
            if isinstance(val, ast.Call) and (dotted(val.func) or [""])[-1] == "where" and len(val.args) == 3 and norm(val.args[2]) == v:
                s = _side(val.args[0], val.args[1], v)
            if s:
                sides.setdefault(v, {})[s] = st
                reaching.setdefault(v, last_def.get(v))
            else:
                last_def[v] = val
        elif isinstance(st, ast.AugAssign) and isinstance(st.target, ast.Name) and isinstance(st.op, (ast.Sub, ast.Add)):
            v = st.target.id
            if norm(st.value) not in _FULL:
                last_def[v] = ast.BinOp(left=ast.Name(id=v, ctx=ast.Load()), op=st.op, right=st.value)
        elif isinstance(st, ast.If) and len(st.body) == 1 and isinstance(st.test, ast.Compare) and isinstance(st.test.left, ast.Name):
            v, b = st.test.left.id, st.body[0]
            shifted = None
            if isinstance(b, ast.AugAssign) and isinstance(b.target, ast.Name) and b.target.id == v:
                shifted = ast.BinOp(left=ast.Name(id=v, ctx=ast.Load()), op=b.op, right=b.value)
            elif isinstance(b, ast.Assign) and len(b.targets) == 1 and norm(b.targets[0]) == v:
                shifted = b.value
            s = _side(st.test, shifted, v) if shifted is not None else None
            if s:
                sides.setdefault(v, {})[s] = st
                reaching.setdefault(v, last_def.get(v))
                for o in st.orelse:                       # elif V < -H: V += P
                    if isinstance(o, ast.If) and len(o.body) == 1 and isinstance(o.body[0], ast.AugAssign) and isinstance(o.test, ast.Compare):
                        s2 = _side(o.test, ast.BinOp(left=ast.Name(id=v, ctx=ast.Load()), op=o.body[0].op, right=o.body[0].value), v)
                        if s2:
                            sides[v][s2] = o
    out = []
    for v, ss in sides.items():
        d = reaching.get(v)
        if len(ss) == 1 and isinstance(d, ast.BinOp) and isinstance(d.op, (ast.Sub, ast.Add)) and not _is_const(d.left) and not _is_const(d.right):
            (s, node), = ss.items()
            out.append((node, v, s, norm(d)))
    return out


_SELFTEST = '''
def f(node_lon, central_longitude, lon):
    node_lon = node_lon - central_longitude
    node_lon = np.where(node_lon > 180.0, node_lon - 360.0, node_lon)
    lon = np.where(lon > 180, lon - 360, lon)
    d = lon - node_lon
    d = np.where(d > 180, d - 360, d)
    d = np.where(d < -180, d + 360, d)
    e = lon - central_longitude
    if e > np.pi:
        e -= 2 * np.pi
    g = (lon - central_longitude + 180) % 360 - 180
    return node_lon, lon, d, e, g
'''


def check(run, P, prefixes):
    st = scan_function(ast.parse(_SELFTEST).body[0])
    if sorted(v for _n, v, _s, _d in st) != ["e", "node_lon"]:
        run.incomplete("WRAP/one-sided-period", "rule-self-test", "uxsa/rules/wrap.py", f"the rule's own example matched {[v for _n, v, _s, _d in st]} instead of ['e', 'node_lon']")
        return
    n_funcs = 0
    for f in P.all_functions():
        if not any(f.module.relpath.startswith(p) for p in prefixes):
            continue
        n_funcs += 1
        for node, v, s, d in scan_function(f.node):
            other = "below minus half a period" if s == "hi" else "above half a period"
            run.violation("WRAP/one-sided-period", f"{f.key}:{v}", where(f, node),
                          f"`{norm(node)[:70]}` wraps `{v}` = `{d[:50]}` on one side only: a sum/difference of two angles leaves the principal range on both sides, values {other} are not brought back "
                          "(polygons across the dateline of a shifted projection keep longitudes outside [-180, 180])")
    run.holds("WRAP/one-sided-period", "no-one-sided-wrap-of-a-difference", "uxarray/", f"{n_funcs} functions scanned, positive example matched 2 of its 5 wraps; no hand-written one-sided period wrap applied to a sum/difference of angles")
    run.stats["one_sided_wrap_functions_scanned"] = n_funcs
