"""IDX/index-truthiness: `np.any(I)` / `I.any()` / `np.all(I)` on an array of element INDICES.

An index array is non-empty even when the only index it holds is 0; `np.any` looks at the values, so "are there any such faces?" written as
np.any(indices) answers False for [0] exactly as for [].  The value test has no other reasonable meaning on indices, so a bare any/all on a value
that is known to be an index array is reported; `np.any(I < 0)`, `I.size`, `len(I)` are of course fine.

What counts as an index array (decided per function, through single-definition locals):
  * the result of np.where(..)[0], np.nonzero(..)[0], np.flatnonzero(..), np.argwhere(..), np.argsort(..), np.unique(.., return_index/inverse) positions,
  * the result of a call whose callee's name ends in `_indices`,
  * a name (local, parameter or attribute) ending in `_indices` / `_index_list`.
"""
import ast

from ..astutil import LocalDefs, norm, where
from ..loader import dotted

_PRODUCERS = {"flatnonzero", "argwhere", "argsort"}


def _is_index_expr(e, defs, depth=0):
    if depth > 4 or e is None:
        return False
    if isinstance(e, ast.Name):
        if e.id.endswith("_indices") or e.id.endswith("_index_list") or e.id == "indices":
            return True
        ds_ = defs.defs.get(e.id, [])
        return len(ds_) == 1 and ds_[0][1] is None and not ds_[0][2] and _is_index_expr(ds_[0][0], defs, depth + 1)
    if isinstance(e, ast.Attribute):
        return e.attr.endswith("_indices")
    if isinstance(e, ast.Subscript):
        v = e.value
        if isinstance(v, ast.Call) and (dotted(v.func) or [""])[-1] in ("where", "nonzero") and len(v.args) == 1 and isinstance(e.slice, ast.Constant):
            return True
        return False
    if isinstance(e, ast.Call):
        nm = (dotted(e.func) or [""])[-1] if dotted(e.func) else (e.func.attr if isinstance(e.func, ast.Attribute) else "")
        if nm in _PRODUCERS or nm.endswith("_indices"):
            return True
        if nm in ("asarray", "array", "ravel", "flatten", "squeeze", "atleast_1d") and (e.args or isinstance(e.func, ast.Attribute)):
            return _is_index_expr(e.args[0] if e.args else e.func.value, defs, depth + 1)
    return False


def scan_function(fnode):
    """[(call node, tested expression)] for bare any/all on an index array in one function"""
    defs = LocalDefs(fnode)
    out = []
    for n in ast.walk(fnode):
        if not (isinstance(n, ast.Call) and isinstance(n.func, ast.Attribute) and n.func.attr in ("any", "all")):
            continue
        recv = n.func.value
        if isinstance(recv, ast.Name) and recv.id in ("np", "numpy"):
            tested = n.args[0] if n.args else None
        else:
            tested = recv
        if tested is not None and _is_index_expr(tested, defs):
            out.append((n, tested))
    return out


_SELFTEST = '''
def f(shells, antimeridian_face_indices):
    keep = np.where(shells > 0)[0]
    if np.any(antimeridian_face_indices):
        shells = np.delete(shells, antimeridian_face_indices, axis=0)
    if keep.any():
        return shells[keep]
    if np.any(keep < 0) or len(keep) == 0 or keep.size:
        return None
    return shells
'''


def check(run, P, prefixes):
    """Applies the rule to every function of the modules whose relpath starts with one of `prefixes`."""
    st = scan_function(ast.parse(_SELFTEST).body[0])
    if len(st) != 2:
        run.incomplete("IDX/index-truthiness", "rule-self-test", "uxsa/rules/idxlint.py", f"the rule's own positive example matched {len(st)} sites instead of 2")
        return
    n_funcs = n_calls = 0
    for f in P.all_functions():
        if not any(f.module.relpath.startswith(p) for p in prefixes):
            continue
        n_funcs += 1
        for call, tested in scan_function(f.node):
            n_calls += 1
            run.violation("IDX/index-truthiness", f"{f.key}:{norm(call)[:60]}", where(f, call),
                          f"`{norm(call)[:60]}` tests the VALUES of the index array `{norm(tested)[:40]}`: it is False for the single index 0 exactly as for an empty array, "
                          "so the element with index 0 is treated as 'no such element'")
    run.holds("IDX/index-truthiness", "no-value-test-on-index-arrays", "uxarray/", f"{n_funcs} functions scanned, positive example matched; no bare any()/all() on an index array")
    run.stats["index_truthiness_functions_scanned"] = n_funcs
