"""IDX/index-truthiness: `np.any(I)` / `I.any()` / `np.all(I)` on an array of element INDICES.

An index array is non-empty even when the only index it holds is 0; `np.any` looks at the values, so "are there any such faces?" written as
np.any(indices) answers False for [0] exactly as for [].  The value test has no other reasonable meaning on indices, so a bare any/all on a value
that is known to be an index array is reported; `np.any(I < 0)`, `I.size`, `len(I)` are of course fine.

What counts as an index array (decided per function, through single-definition locals):
  * the result of np.where(..)[0], np.nonzero(..)[0], np.flatnonzero(..), np.argwhere(..), np.argsort(..), np.unique(.., return_index/inverse) positions,
  * the result of a call whose callee's name ends in `_indices`,
  * a name (local, parameter or attribute) ending in `_indices` / `_index_list`.
"""
import ast

from ..astutil import LocalDefs, norm, where
from ..loader import dotted

_PRODUCERS = {"flatnonzero", "argwhere", "argsort"}


def _is_index_expr(e, defs, depth=0):
    if depth > 4 or e is None:
        return False
    if isinstance(e, ast.Name):
        if e.id.endswith("_indices") or e.id.endswith("_index_list") or e.id == "indices":
            return True
        ds_ = defs.defs.get(e.id, [])
        return len(ds_) == 1 and ds_[0][1] is None and not ds_[0][2] and _is_index_expr(ds_[0][0], defs, depth + 1)
    if isinstance(e, ast.Attribute):
        return e.attr.endswith("_indices")
    if isinstance(e, ast.Subscript):
        v = e.value
        if isinstance(v, ast.Call) and (dotted(v.func) or [""])[-1] in ("where", "nonzero") and len(v.args) == 1 and isinstance(e.slice, ast.Constant):
            return True
        return False
    if isinstance(e, ast.Call):
        nm = (dotted(e.func) or [""])[-1] if dotted(e.func) else (e.func.attr if isinstance(e.func, ast.Attribute) else "")
        if nm in _PRODUCERS or nm.endswith("_indices"):
            return True
        if nm in ("asarray", "array", "ravel", "flatten", "squeeze", "atleast_1d") and (e.args or isinstance(e.func, ast.Attribute)):
            return _is_index_expr(e.args[0] if e.args else e.func.value, defs, depth + 1)
    return False


def scan_function(fnode):
    """[(call node, tested expression)] for bare any/all on an index array in one function"""
    defs = LocalDefs(fnode)
    out = []
    for n in ast.walk(fnode):
        if not (isinstance(n, ast.Call) and isinstance(n.func, ast.Attribute) and n.func.attr in ("any", "all")):
            continue
        recv = n.func.value
        if isinstance(recv, ast.Name) and recv.id in ("np", "numpy"):
            tested = n.args[0] if n.args else None
        else:
            tested = recv
        if tested is not None and _is_index_expr(tested, defs):
            out.append((n, tested))
    return out


_SELFTEST = '''
def f(shells, antimeridian_face_indices):
    keep = np.where(shells > 0)[0]
    if np.any(antimeridian_face_indices):
        shells = np.delete(shells, antimeridian_face_indices, axis=0)
    if keep.any():
        return shells[keep]
    if np.any(keep < 0) or len(keep) == 0 or keep.size:
        return None
    return shells
'''


def check(run, P, prefixes):
    """Applies the rule to every function of the modules whose relpath starts with one of `prefixes`."""
    st = scan_function(ast.parse(_SELFTEST).body[0])
    if len(st) != 2:
        run.incomplete("IDX/index-truthiness", "rule-self-test", "uxsa/rules/idxlint.py", f"the rule's own positive example matched {len(st)} sites instead of 2")
        return
    n_funcs = n_calls = 0
    for f in P.all_functions():
        if not any(f.module.relpath.startswith(p) for p in prefixes):
            continue
        n_funcs += 1
        for call, tested in scan_function(f.node):
            n_calls += 1
            run.violation("IDX/index-truthiness", f"{f.key}:{norm(call)[:60]}", where(f, call),
                          f"`{norm(call)[:60]}` tests the VALUES of the index array `{norm(tested)[:40]}`: it is False for the single index 0 exactly as for an empty array, "
                          "so the element with index 0 is treated as 'no such element'")
    run.holds("IDX/index-truthiness", "no-value-test-on-index-arrays", "uxarray/", f"{n_funcs} functions scanned, positive example matched; no bare any()/all() on an index array")
    run.stats["index_truthiness_functions_scanned"] = n_funcs


# ---------------------------------------------------------------------------------------------------------------------------------------
# SORT/partial-key-adjacency
#
# "Find equal records by sorting and comparing neighbours" is only correct when the sort key covers every field that is compared: after
# `order = np.argsort(K)` equal K-values are adjacent, but two records that agree in K AND in another field X need not be adjacent (any record with the
# same K and a different X may sit between them - a stable sort keeps the original order inside a K-group, it does not sort by X).  So
# `np.diff(X[order]) == 0` / `X[order][1:] == X[order][:-1]` with X not part of the key is a contradiction in the code itself: it believes
# that neighbours in K-order are the only candidates for equality in (K, X).  The rule reports exactly that shape and is silent on everything it does not
# recognise (contradiction rule): np.lexsort keys, keys built from X (complex `lon + 1j * lat`, structured or scaled sums) and non-equality uses of the
# neighbours' difference (`np.diff(lat[order]) > tol`) are not matched.


def _expand(e, defs, depth=0):
    """e with single-definition locals substituted, as normalised text"""
    if depth > 4:
        return norm(e)
    if isinstance(e, ast.Name):
        ds_ = defs.defs.get(e.id, [])
        if len(ds_) == 1 and ds_[0][1] is None and not ds_[0][2]:
            return _expand(ds_[0][0], defs, depth + 1)
        return e.id
    parts = {}
    for n in ast.walk(e):
        if isinstance(n, ast.Name) and n.id not in parts and n.id not in ("np", "numpy"):
            ds_ = defs.defs.get(n.id, [])
            if len(ds_) == 1 and ds_[0][1] is None and not ds_[0][2]:
                parts[n.id] = _expand(ds_[0][0], defs, depth + 1)
    s = norm(e)
    import re
    for k, v in parts.items():
        s = re.sub(rf"(?<![\w.]){re.escape(k)}(?![\w])", f"({v})", s)
    return s


def _argsort_key(e, defs):
    """K if e is (a single-definition local bound to) np.argsort(K, ..) / K.argsort(..); else None"""
    if isinstance(e, ast.Name):
        ds_ = defs.defs.get(e.id, [])
        if len(ds_) != 1 or ds_[0][1] is not None or ds_[0][2]:
            return None
        e = ds_[0][0]
    if isinstance(e, ast.Call):
        d = dotted(e.func)
        if d and d[-1] == "argsort" and d[0] in ("np", "numpy") and e.args:
            return e.args[0]
        if isinstance(e.func, ast.Attribute) and e.func.attr == "argsort" and not (d and d[0] in ("np", "numpy")):
            return e.func.value
    return None


def _reordered(e, defs, depth=0):
    """(X, order-expression) if e is X[order] (through single-definition locals and [1:] / [:-1] slices) with `order` an argsort result"""
    if depth > 4 or e is None:
        return None
    if isinstance(e, ast.Name):
        ds_ = defs.defs.get(e.id, [])
        if len(ds_) == 1 and ds_[0][1] is None and not ds_[0][2]:
            return _reordered(ds_[0][0], defs, depth + 1)
        return None
    if isinstance(e, ast.Subscript):
        if isinstance(e.slice, ast.Slice):
            return _reordered(e.value, defs, depth + 1)
        if _argsort_key(e.slice, defs) is not None:
            return e.value, e.slice
    return None


def _is_zero(e):
    return isinstance(e, ast.Constant) and not isinstance(e.value, (str, bytes, bool)) and e.value == 0


def scan_sort_adjacency(fnode):
    """[(compare node, X text, K text)]: neighbours in argsort(K) order compared for equality in a field X that the key does not contain"""
    defs = LocalDefs(fnode)
    out = []
    for n in ast.walk(fnode):
        if not (isinstance(n, ast.Compare) and len(n.ops) == 1 and isinstance(n.ops[0], (ast.Eq, ast.NotEq))):
            continue
        l, r = n.left, n.comparators[0]
        hit = None
        # np.diff(X[order]) == 0
        for a, b in ((l, r), (r, l)):
            if _is_zero(b) and isinstance(a, ast.Call) and (dotted(a.func) or [""])[-1] == "diff" and a.args:
                hit = _reordered(a.args[0], defs)
        # X[order][1:] == X[order][:-1]
        if hit is None and isinstance(l, ast.Subscript) and isinstance(r, ast.Subscript) and isinstance(l.slice, ast.Slice) and isinstance(r.slice, ast.Slice):
            hl, hr = _reordered(l, defs), _reordered(r, defs)
            if hl and hr and _expand(hl[0], defs) == _expand(hr[0], defs) and norm(l.slice) != norm(r.slice):
                hit = hl
        if hit is None:
            continue
        x, order = hit
        key = _argsort_key(order, defs)
        xs, ks = _expand(x, defs), _expand(key, defs)
        if xs == ks or xs in ks:
            continue                      # the compared field is (part of) the key
        if any(isinstance(c, ast.Call) and (dotted(c.func) or [""])[-1] in ("lexsort", "argsort") for c in ast.walk(key)):
            continue                      # a derived key: not understood, silent
        out.append((n, xs, ks))
    return out


_SELFTEST_SORT = '''
def f(grid, tol):
    lon, lat = grid.node_lon.values, grid.node_lat.values
    order = np.argsort(lon, kind="stable")
    same = (np.diff(lon[order]) == 0) & (np.diff(lat[order]) == 0)
    lat_s = lat[order]
    same2 = lat_s[1:] == lat_s[:-1]
    key = lon + 1j * lat
    o2 = np.argsort(key)
    ok = (np.diff(lon[o2]) == 0) & (np.diff(lat[o2]) == 0)
    o3 = np.lexsort((lat, lon))
    ok3 = np.diff(lat[o3]) == 0
    jump = np.diff(lat[order]) > tol
    return same, same2, ok, ok3, jump
'''


def check_sort_adjacency(run, P, prefixes):
    st = scan_sort_adjacency(ast.parse(_SELFTEST_SORT).body[0])
    if len(st) != 2:
        run.incomplete("SORT/partial-key-adjacency", "rule-self-test", "uxsa/rules/idxlint.py", f"the rule's own example matched {len(st)} sites instead of 2")
        return
    n_funcs = n_sorts = 0
    for f in P.all_functions():
        if not any(f.module.relpath.startswith(p) for p in prefixes):
            continue
        n_funcs += 1
        n_sorts += sum(1 for c in ast.walk(f.node) if isinstance(c, ast.Call) and (dotted(c.func) or [""])[-1] in ("argsort", "lexsort"))
        for cmp_, xs, ks in scan_sort_adjacency(f.node):
            run.violation("SORT/partial-key-adjacency", f"{f.key}:{norm(cmp_)[:60]}", where(f, cmp_),
                          f"`{norm(cmp_)[:70]}` compares neighbours in the order of argsort(`{ks[:40]}`) for equality in `{xs[:40]}`, which the sort key does not contain: "
                          "records that agree in both fields are not adjacent when another record with the same key lies between them, so equal records (duplicate nodes) are missed")
    run.holds("SORT/partial-key-adjacency", "neighbour-equality-only-on-sort-keys", "uxarray/", f"{n_funcs} functions ({n_sorts} argsort/lexsort calls) scanned, positive example matched 2 of its 5 comparisons; no equality test between neighbours on a field outside the sort key")
    run.stats["sort_adjacency_functions_scanned"] = n_funcs
