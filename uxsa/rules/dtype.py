"""F-DTYPE: float-valued results (integrals, means, quotients, gradients) must not be squeezed into the dtype of the
input data: an integer or boolean field would be truncated silently.  Violations are definite constructs:
  * a result buffer allocated with the input's dtype:  np.zeros/empty/full(..., dtype=<data>.dtype), np.empty_like/zeros_like(<data>, ...)
  * a computed result cast back:  (<computation>).astype(<data>.dtype)"""

from __future__ import annotations

import ast

from ..astutil import iter_stmts, norm, where
from ..loader import dotted

DATA_NAMES = {"data", "d_var", "self", "uxda", "source_data", "self.values", "self.data", "uxda.values", "uxda.data"}


def _is_input_dtype(node):
    """<data>.dtype for a data-valued name"""
    if isinstance(node, ast.Attribute) and node.attr == "dtype":
        base = norm(node.value)
        head = base.split(".")[0].split("[")[0]
        return base in DATA_NAMES or base.endswith((".values", ".data")) and head in ("self", "uxda", "data", "d_var") or head.startswith("source_")
    return False


def check_float_results(run, program, func_keys, rule="F-DTYPE/result-not-input-dtype"):
    n = 0
    for key in func_keys:
        f = program.try_func(key)
        if f is None:
            run.incomplete(rule, f"{key}:present", "-", "function not found")
            continue
        bad = []
        for node in ast.walk(f.node):
            if isinstance(node, ast.Call):
                nm = (dotted(node.func) or [""])[-1]
                if nm in ("zeros", "empty", "full", "ones"):
                    dt = next((k.value for k in node.keywords if k.arg == "dtype"), None)
                    if dt is not None and _is_input_dtype(dt):
                        bad.append((node, f"result buffer {norm(node)[:70]} takes the dtype of the input data"))
                if nm in ("empty_like", "zeros_like", "ones_like", "full_like") and node.args and norm(node.args[0]) in DATA_NAMES | {"data", "d_var"}:
                    dt = next((k.value for k in node.keywords if k.arg == "dtype"), None)
                    if dt is None:
                        bad.append((node, f"result buffer {norm(node)[:70]} inherits the dtype of the input data"))
                if isinstance(node.func, ast.Attribute) and node.func.attr == "astype" and node.args and _is_input_dtype(node.args[0]):
                    bad.append((node, f"{norm(node)[:80]} casts a computed result back to the dtype of the input data"))
        n += 1
        c = f"{f.key}:result-dtype"
        if bad:
            run.violation(rule, c, where(f, bad[0][0]), bad[0][1] + ": for integer or boolean fields the float result (area-weighted sum, mean, quotient by a distance) is truncated")
        else:
            run.holds(rule, c, where(f), "results are allocated/returned in the default float dtype, never in the input's dtype")
    return n


NARROW_INTS = {"uint8", "int8", "uint16", "int16", "uint32", "int32", "ubyte", "byte", "short", "ushort", "intc", "uintc", "half"}


def check_no_narrow_index_dtype(run, program, files, rule="F-DTYPE/index-width"):
    """Variables that hold element indices or element counts are INT_DTYPE in the Grid: a store under a schema name whose value was cast to a narrower integer type
    (`.astype(np.uint8)`, `dtype=np.int16`) wraps around for the first mesh that exceeds it - a count above 255 (polygon faces read from shapefiles have thousands of
    corners), an index above 32767."""
    from ..astutil import LocalDefs, str_const
    n = 0
    for f in program.all_functions():
        if f.module.relpath not in files:
            continue
        defs = None
        for st in ast.walk(f.node):
            if not (isinstance(st, ast.Assign) and isinstance(st.targets[0], ast.Subscript)):
                continue
            key = str_const(st.targets[0].slice)
            if not key or not (key.endswith("_connectivity") or key.startswith("n_") or key.endswith("_indices")):
                continue
            defs = defs or LocalDefs(f.node)
            n += 1
            nodes, _ = defs.closure(st.value)
            narrow = None
            for e in nodes:
                for x in ast.walk(e):
                    if isinstance(x, ast.Call):
                        cands = list(x.args[:1]) if (isinstance(x.func, ast.Attribute) and x.func.attr == "astype") else []
                        cands += [k.value for k in x.keywords if k.arg == "dtype"]
                        for d in cands:
                            nm = d.attr if isinstance(d, ast.Attribute) else d.id if isinstance(d, ast.Name) else (d.value if isinstance(d, ast.Constant) and isinstance(d.value, str) else None)
                            if nm in NARROW_INTS:
                                narrow = (x, nm)
            c = f"{f.key}:store[{key}]:index-width"
            if narrow:
                run.violation(rule, c, where(f, st), f"{key} is stored after `{norm(narrow[0])[:50]}`: values above the range of {narrow[1]} wrap around (a count of 300 becomes 44)")
            else:
                run.holds(rule, c, where(f, st), "no narrowing cast on the way into the store")
    return n

