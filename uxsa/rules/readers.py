"""Reader rules: role tables frozen from the format specifications (not from the source),
checked against the source variables each emitted variable is built from."""

from __future__ import annotations

import ast

from ..astutil import iter_stmts, norm, str_const, where
from ..loader import FuncInfo, dotted

MPAS = "uxarray/io/_mpas.py"

# MPAS Mesh Specification 1.0.  Entities Cell / Vertex / Edge.  primal: Cell->face, Vertex->node;
# dual: Cell->node, Vertex->face; Edge->edge in both.
MPAS_ROLES = {
    "primal": {
        "node_lon": {"lonVertex"}, "node_lat": {"latVertex"},
        "node_x": {"xVertex"}, "node_y": {"yVertex"}, "node_z": {"zVertex"},
        "face_lon": {"lonCell"}, "face_lat": {"latCell"},
        "face_x": {"xCell"}, "face_y": {"yCell"}, "face_z": {"zCell"},
        "edge_lon": {"lonEdge"}, "edge_lat": {"latEdge"},
        "edge_x": {"xEdge"}, "edge_y": {"yEdge"}, "edge_z": {"zEdge"},
        "face_node_connectivity": {"verticesOnCell", "nEdgesOnCell"},
        "node_face_connectivity": {"cellsOnVertex"},
        "edge_node_connectivity": {"verticesOnEdge"},
        "edge_face_connectivity": {"cellsOnEdge"},
        "face_edge_connectivity": {"edgesOnCell", "nEdgesOnCell"},
        "face_face_connectivity": {"cellsOnCell", "nEdgesOnCell"},
        "edge_node_distances": {"dvEdge"},
        "edge_face_distances": {"dcEdge"},
        "face_areas": {"areaCell"},
    },
    "dual": {
        "node_lon": {"lonCell"}, "node_lat": {"latCell"},
        "node_x": {"xCell"}, "node_y": {"yCell"}, "node_z": {"zCell"},
        "face_lon": {"lonVertex"}, "face_lat": {"latVertex"},
        "face_x": {"xVertex"}, "face_y": {"yVertex"}, "face_z": {"zVertex"},
        "edge_lon": {"lonEdge"}, "edge_lat": {"latEdge"},
        "edge_x": {"xEdge"}, "edge_y": {"yEdge"}, "edge_z": {"zEdge"},
        "face_node_connectivity": {"cellsOnVertex"},
        "node_face_connectivity": {"verticesOnCell", "nEdgesOnCell"},
        "edge_node_connectivity": {"cellsOnEdge"},
        "edge_face_connectivity": {"verticesOnEdge"},
        "face_edge_connectivity": {"edgesOnVertex"},
        "edge_node_distances": {"dcEdge"},
        "edge_face_distances": {"dvEdge"},
        "face_areas": {"areaTriangle"},
    },
}


def _mesh_test(test):
    """'primal'|'dual' if the test is  mesh_type == "<x>"  else None."""
    if isinstance(test, ast.Compare) and len(test.ops) == 1 and isinstance(test.ops[0], ast.Eq):
        a, b = test.left, test.comparators[0]
        for x, y in ((a, b), (b, a)):
            if isinstance(x, ast.Name) and x.id == "mesh_type" and str_const(y) in ("primal", "dual"):
                return str_const(y)
    return None


def _ds_keys(node, dsname):
    out = set()
    for n in ast.walk(node):
        if isinstance(n, ast.Subscript) and isinstance(n.value, ast.Name) and n.value.id == dsname and str_const(n.slice) is not None:
            out.add(str_const(n.slice))
    return out


def mpas_function_table(f: FuncInfo):
    """{mesh_type: {target: set(source keys)}} for one _parse_* function (branch-aware, def-use over locals)."""
    params = f.params()
    if len(params) < 2:
        return {}
    in_ds, out_ds = params[0], params[1]
    has_mt = "mesh_type" in params
    result = {"primal": {}, "dual": {}}

    def walk(stmts, which, defs):
        """defs: local name -> set(source keys) on this branch"""
        for st in stmts:
            if isinstance(st, ast.If):
                mt = _mesh_test(st.test)
                if mt is not None:
                    other = "dual" if mt == "primal" else "primal"
                    d1 = {k: dict(v) for k, v in defs.items()}
                    walk(st.body, [w for w in which if w == mt], defs)
                    walk(st.orelse, [w for w in which if w == other], defs)
                    continue
                walk(st.body, which, defs)
                walk(st.orelse, which, defs)
                continue
            if isinstance(st, ast.Assign):
                srcs_direct = _ds_keys(st.value, in_ds)
                used = {n.id for n in ast.walk(st.value) if isinstance(n, ast.Name)}
                for w in which:
                    srcs = set(srcs_direct)
                    for u in used:
                        srcs |= defs.setdefault(w, {}).get(u, set())
                    for t in st.targets:
                        if isinstance(t, ast.Name):
                            defs.setdefault(w, {})[t.id] = srcs
                        elif isinstance(t, ast.Subscript) and isinstance(t.value, ast.Name) and t.value.id == out_ds and str_const(t.slice):
                            result[w][str_const(t.slice)] = (srcs, st)
                        elif isinstance(t, ast.Tuple):
                            for e in t.elts:
                                if isinstance(e, ast.Name):
                                    defs.setdefault(w, {})[e.id] = srcs

    walk(f.node.body, ["primal", "dual"], {})
    return result, has_mt


def mpas_call_modes(program):
    """{parse function name: set of mesh types it is called with} from _primal_to_ugrid/_dual_to_ugrid."""
    modes = {}
    for drv, mt in (("_primal_to_ugrid", "primal"), ("_dual_to_ugrid", "dual")):
        f = program.func(f"{MPAS}:{drv}")
        for c in ast.walk(f.node):
            if isinstance(c, ast.Call) and isinstance(c.func, ast.Name) and c.func.id.startswith("_parse_"):
                passed = None
                for k in c.keywords:
                    if k.arg == "mesh_type":
                        passed = str_const(k.value)
                if passed is None and len(c.args) >= 3:
                    passed = str_const(c.args[2])
                modes.setdefault(c.func.id, []).append((mt, passed, f, c))
    return modes


def check_mpas_roles(run, program, targets=None, rule="F-TABLE/mpas-roles"):
    """Every UGRID variable the MPAS reader emits is built from the MPAS variables the mesh specification
    assigns to that role, for the primal and for the dual mesh (Cell<->Vertex swap)."""
    m = program.module("uxarray.io._mpas")
    modes = mpas_call_modes(program)
    n = 0
    vocab = set().union(*[s for t in MPAS_ROLES.values() for s in t.values()])
    for f in m.all_funcs:
        if not f.name.startswith("_parse_") or m.defs.get(f.name) is not f:
            continue
        tab = mpas_function_table(f)
        if not tab:
            continue
        table, has_mt = tab
        calls = modes.get(f.name, [])
        for driver_mt, passed, drv, call in calls:
            eff = passed if (has_mt and passed in ("primal", "dual")) else driver_mt
            if has_mt and passed not in ("primal", "dual"):
                run.incomplete(rule, f"{drv.key}:call({f.name}):mesh_type", where(drv, call), "mesh_type argument is not a literal")
                continue
            if has_mt and passed != driver_mt:
                run.violation(rule, f"{drv.key}:call({f.name}):mesh_type", where(drv, call), f"{drv.name} calls {f.name} with mesh_type='{passed}'")
            for target, (srcs, st) in sorted(table[eff].items()):
                if targets is not None and target not in targets:
                    continue
                want = MPAS_ROLES[driver_mt].get(target)
                if want is None:
                    continue
                n += 1
                c = f"mpas:{driver_mt}:{target}"
                got = srcs & vocab
                if got == want:
                    run.holds(rule, c, where(f, st), f"{target} <- {sorted(got)} ({driver_mt})")
                else:
                    extra = sorted(got - want)
                    missing = sorted(want - got)
                    msg = f"on the {driver_mt} mesh {target} is built from {sorted(got)}; the MPAS mesh specification assigns {sorted(want)}"
                    if missing and not extra and missing == ["nEdgesOnCell"]:
                        msg += " (rows are padded by repeating indices beyond nEdgesOnCell: without it padding is read as real entries)"
                    run.violation(rule, c, where(f, st), msg, facts={"extra": extra, "missing": missing})
    return n


def check_mpas_distance_roles(run, program):
    return check_mpas_roles(run, program, targets={"edge_node_distances", "edge_face_distances"})
