"""Reader rules: role tables frozen from the format specifications (not from the source),
checked against the source variables each emitted variable is built from."""

from __future__ import annotations

import ast

from ..astutil import iter_stmts, norm, str_const, where
from ..loader import FuncInfo, dotted

MPAS = "uxarray/io/_mpas.py"

# MPAS Mesh Specification 1.0.  Entities Cell / Vertex / Edge.  primal: Cell->face, Vertex->node;
# dual: Cell->node, Vertex->face; Edge->edge in both.
MPAS_ROLES = {
    "primal": {
        "node_lon": {"lonVertex"}, "node_lat": {"latVertex"},
        "node_x": {"xVertex"}, "node_y": {"yVertex"}, "node_z": {"zVertex"},
        "face_lon": {"lonCell"}, "face_lat": {"latCell"},
        "face_x": {"xCell"}, "face_y": {"yCell"}, "face_z": {"zCell"},
        "edge_lon": {"lonEdge"}, "edge_lat": {"latEdge"},
        "edge_x": {"xEdge"}, "edge_y": {"yEdge"}, "edge_z": {"zEdge"},
        "face_node_connectivity": {"verticesOnCell", "nEdgesOnCell"},
        "node_face_connectivity": {"cellsOnVertex"},
        "edge_node_connectivity": {"verticesOnEdge"},
        "edge_face_connectivity": {"cellsOnEdge"},
        "face_edge_connectivity": {"edgesOnCell", "nEdgesOnCell"},
        "face_face_connectivity": {"cellsOnCell", "nEdgesOnCell"},
        "edge_node_distances": {"dvEdge"},
        "edge_face_distances": {"dcEdge"},
        "face_areas": {"areaCell"},
    },
    "dual": {
        "node_lon": {"lonCell"}, "node_lat": {"latCell"},
        "node_x": {"xCell"}, "node_y": {"yCell"}, "node_z": {"zCell"},
        "face_lon": {"lonVertex"}, "face_lat": {"latVertex"},
        "face_x": {"xVertex"}, "face_y": {"yVertex"}, "face_z": {"zVertex"},
        "edge_lon": {"lonEdge"}, "edge_lat": {"latEdge"},
        "edge_x": {"xEdge"}, "edge_y": {"yEdge"}, "edge_z": {"zEdge"},
        "face_node_connectivity": {"cellsOnVertex"},
        "node_face_connectivity": {"verticesOnCell", "nEdgesOnCell"},
        "edge_node_connectivity": {"cellsOnEdge"},
        "edge_face_connectivity": {"verticesOnEdge"},
        "face_edge_connectivity": {"edgesOnVertex"},
        "edge_node_distances": {"dcEdge"},
        "edge_face_distances": {"dvEdge"},
        "face_areas": {"areaTriangle"},
    },
}


def _mesh_test(test):
    """'primal'|'dual' if the test is  mesh_type == "<x>"  else None."""
    if isinstance(test, ast.Compare) and len(test.ops) == 1 and isinstance(test.ops[0], ast.Eq):
        a, b = test.left, test.comparators[0]
        for x, y in ((a, b), (b, a)):
            if isinstance(x, ast.Name) and x.id == "mesh_type" and str_const(y) in ("primal", "dual"):
                return str_const(y)
    return None


def _module_str_consts(module):
    """module-level NAME = ("a", "b", ...) / NAME = "a" tables"""
    out = {}
    for st in module.tree.body:
        if isinstance(st, ast.Assign) and len(st.targets) == 1 and isinstance(st.targets[0], ast.Name):
            v = st.value
            if isinstance(v, (ast.Tuple, ast.List, ast.Set)) and all(str_const(e) is not None for e in v.elts):
                out[st.targets[0].id] = tuple(str_const(e) for e in v.elts)
            elif str_const(v) is not None:
                out[st.targets[0].id] = str_const(v)
    return out


def _specialise(expr, w):
    """resolve  a if mesh_type == "<x>" else b   and   {"primal": a, "dual": b}[mesh_type]   for mesh type w (copy of the expression)"""
    class T(ast.NodeTransformer):
        def visit_IfExp(self, n):
            self.generic_visit(n)
            mt = _mesh_test(n.test)
            if mt is None:
                return n
            return n.body if mt == w else n.orelse

        def visit_Subscript(self, n):
            self.generic_visit(n)
            if isinstance(n.value, ast.Dict) and isinstance(n.slice, ast.Name) and n.slice.id == "mesh_type":
                for k, v in zip(n.value.keys, n.value.values):
                    if k is not None and str_const(k) == w:
                        return v
            return n
    import copy
    return T().visit(copy.deepcopy(expr))


def _decide(test, env, consts):
    """True/False/None for  name in CONST,  name == "lit",  name != "lit",  not <t>,  a bare name bound to a literal bool  with name bound in env"""
    if isinstance(test, ast.UnaryOp) and isinstance(test.op, ast.Not):
        r = _decide(test.operand, env, consts)
        return None if r is None else (not r)
    if isinstance(test, ast.Name) and isinstance(env.get(test.id), bool):
        return env[test.id]
    if isinstance(test, ast.Compare) and len(test.ops) == 1 and isinstance(test.ops[0], (ast.Is, ast.IsNot)) and isinstance(test.left, ast.Name) and test.left.id in env \
            and isinstance(test.comparators[0], ast.Constant) and test.comparators[0].value is None:
        return (env[test.left.id] is None) == isinstance(test.ops[0], ast.Is)
    if isinstance(test, ast.Compare) and len(test.ops) == 1 and isinstance(test.left, ast.Name) and test.left.id in env:
        v = env[test.left.id]
        rhs = test.comparators[0]
        if isinstance(rhs, ast.Name) and isinstance(consts.get(rhs.id), tuple):
            coll = consts[rhs.id]
        elif isinstance(rhs, (ast.Tuple, ast.List, ast.Set)) and all(str_const(e) is not None for e in rhs.elts):
            coll = tuple(str_const(e) for e in rhs.elts)
        elif str_const(rhs) is not None:
            coll = None
        else:
            return None
        op = test.ops[0]
        if isinstance(op, ast.In) and coll is not None:
            return v in coll
        if isinstance(op, ast.NotIn) and coll is not None:
            return v not in coll
        if isinstance(op, ast.Eq) and coll is None:
            return v == str_const(rhs)
        if isinstance(op, ast.NotEq) and coll is None:
            return v != str_const(rhs)
    return None


def _ds_keys(node, dsname, env=None, module=None, depth=0):
    """(set of dataset keys read by the expression, opaque?)  -- direct  ds["k"] / ds[name bound to a literal]  reads, and reads made by same-module
    helpers that receive the dataset (inlined with literal arguments bound; undecidable guards around reads make the result opaque)."""
    env = env or {}
    out = set()
    opaque = False
    for n in ast.walk(node):
        if isinstance(n, ast.Subscript) and isinstance(n.value, ast.Name) and n.value.id == dsname:
            k = str_const(n.slice)
            if k is None and isinstance(n.slice, ast.Name) and n.slice.id in env:
                k = env[n.slice.id]
            if k is not None:
                out.add(k)
            else:
                opaque = True
        elif isinstance(n, ast.Call):
            passes = [i for i, a in enumerate(n.args) if isinstance(a, ast.Name) and a.id == dsname] + [k.arg for k in n.keywords if isinstance(k.value, ast.Name) and k.value.id == dsname]
            if not passes:
                continue
            h = module.defs.get(n.func.id) if (module is not None and isinstance(n.func, ast.Name)) else None
            if not isinstance(h, FuncInfo) or depth >= 2:
                opaque = True
                continue
            hp = h.params()
            henv = {}
            hds = None
            for i, a in enumerate(n.args):
                if i >= len(hp):
                    continue
                if isinstance(a, ast.Name) and a.id == dsname:
                    hds = hp[i]
                elif str_const(a) is not None:
                    henv[hp[i]] = str_const(a)
                elif isinstance(a, ast.Name) and a.id in env:
                    henv[hp[i]] = env[a.id]
            for k in n.keywords:
                if isinstance(k.value, ast.Name) and k.value.id == dsname:
                    hds = k.arg
                elif k.arg and str_const(k.value) is not None:
                    henv[k.arg] = str_const(k.value)
                elif k.arg and isinstance(k.value, ast.Constant) and (isinstance(k.value.value, bool) or k.value.value is None):
                    henv[k.arg] = k.value.value
            for i, a in enumerate(n.args):
                if i < len(hp) and isinstance(a, ast.Constant) and (isinstance(a.value, bool) or a.value is None):
                    henv[hp[i]] = a.value
            # parameters that are not passed take their literal defaults
            ha = h.node.args
            hpos = [x.arg for x in ha.posonlyargs + ha.args]
            for prm, dflt in list(zip(hpos[len(hpos) - len(ha.defaults):], ha.defaults)) + [(x.arg, d) for x, d in zip(ha.kwonlyargs, ha.kw_defaults) if d is not None]:
                if prm not in henv and prm != hds and isinstance(dflt, ast.Constant) and (isinstance(dflt.value, (bool, str)) or dflt.value is None):
                    passed = any(k.arg == prm for k in n.keywords) or (prm in hpos and hpos.index(prm) < len(n.args))
                    if not passed:
                        henv[prm] = dflt.value
            consts = _module_str_consts(module)

            def hwalk(stmts):
                nonlocal opaque
                for st in stmts:
                    if isinstance(st, ast.If):
                        r = _decide(st.test, henv, consts)
                        if r is True:
                            hwalk(st.body)
                        elif r is False:
                            hwalk(st.orelse)
                        else:
                            k0 = len(out)
                            before = set(out)
                            hwalk(st.body)
                            hwalk(st.orelse)
                            if out != before:
                                opaque = True
                        continue
                    if isinstance(st, (ast.For, ast.While, ast.With, ast.Try)):
                        for fld in ("body", "orelse", "finalbody"):
                            hwalk(getattr(st, fld, []) or [])
                        continue
                    ks, op = _ds_keys(st, hds, henv, module, depth + 1)
                    out.update(ks)
                    opaque = opaque or op
            if hds is None:
                opaque = True
            else:
                hwalk(h.node.body)
    return out, opaque


def mpas_function_table(f: FuncInfo):
    """{mesh_type: {target: (set(source keys), statement, opaque?)}} for one _parse_* function (branch-aware, def-use over locals)."""
    params = f.params()
    if len(params) < 2:
        return {}
    in_ds, out_ds = params[0], params[1]
    has_mt = "mesh_type" in params
    result = {"primal": {}, "dual": {}}
    names = {}       # mesh type -> local name -> string constant it holds
    computed = {}    # mesh type -> number of stores under a key that could not be resolved

    def walk(stmts, which, defs):
        """defs: mesh type -> local name -> (source keys, opaque) on this branch"""
        for st in stmts:
            if isinstance(st, ast.If):
                mt = _mesh_test(st.test)
                if mt is not None:
                    other = "dual" if mt == "primal" else "primal"
                    walk(st.body, [w for w in which if w == mt], defs)
                    walk(st.orelse, [w for w in which if w == other], defs)
                    continue
                walk(st.body, which, defs)
                walk(st.orelse, which, defs)
                continue
            if isinstance(st, ast.Assign):
                for w in which:
                    val = _specialise(st.value, w)
                    srcs, opaque = _ds_keys(val, in_ds, dict(names.get(w, {})), f.module)
                    srcs = set(srcs)
                    used = {n.id for n in ast.walk(val) if isinstance(n, ast.Name)}
                    for u in used:
                        s_, o_ = defs.setdefault(w, {}).get(u, (set(), False))
                        srcs |= s_
                        opaque = opaque or o_
                    for t in st.targets:
                        if isinstance(t, ast.Name):
                            defs.setdefault(w, {})[t.id] = (srcs, opaque)
                            if str_const(val) is not None:
                                names.setdefault(w, {})[t.id] = str_const(val)
                            else:
                                names.setdefault(w, {}).pop(t.id, None)
                        elif isinstance(t, ast.Subscript) and isinstance(t.value, ast.Name) and t.value.id == out_ds and str_const(t.slice):
                            result[w][str_const(t.slice)] = (srcs, st, opaque)
                        elif isinstance(t, ast.Subscript) and isinstance(t.value, ast.Name) and t.value.id == out_ds and isinstance(t.slice, ast.Name) and t.slice.id in names.get(w, {}):
                            # a second store under the same key on this mesh type (two table rows mapped to one name) keeps BOTH source sets: that is what the file would receive last
                            key_ = names[w][t.slice.id]
                            if key_ in result[w]:
                                prev = result[w][key_]
                                result[w][key_] = (set(prev[0]) | srcs, st, prev[2] or opaque)
                            else:
                                result[w][key_] = (srcs, st, opaque)
                        elif isinstance(t, ast.Subscript) and isinstance(t.value, ast.Name) and t.value.id == out_ds:
                            computed[w] = computed.get(w, 0) + 1
                        elif isinstance(t, ast.Tuple):
                            for e in t.elts:
                                if isinstance(e, ast.Name):
                                    defs.setdefault(w, {})[e.id] = (srcs, opaque)

    walk(f.node.body, ["primal", "dual"], {})
    mpas_function_table.computed[f.key] = computed
    return result, has_mt


mpas_function_table.computed = {}


def mpas_call_modes(program):
    """{parse function name: set of mesh types it is called with} from _primal_to_ugrid/_dual_to_ugrid."""
    modes = {}
    for drv, mt in (("_primal_to_ugrid", "primal"), ("_dual_to_ugrid", "dual")):
        f = program.func(f"{MPAS}:{drv}")
        for c in ast.walk(f.node):
            if isinstance(c, ast.Call) and isinstance(c.func, ast.Name) and c.func.id.startswith("_parse_"):
                passed = None
                for k in c.keywords:
                    if k.arg == "mesh_type":
                        passed = str_const(k.value)
                if passed is None and len(c.args) >= 3:
                    passed = str_const(c.args[2])
                modes.setdefault(c.func.id, []).append((mt, passed, f, c))
    return modes


def check_mpas_roles(run, program, targets=None, rule="F-TABLE/mpas-roles"):
    """Every UGRID variable the MPAS reader emits is built from the MPAS variables the mesh specification
    assigns to that role, for the primal and for the dual mesh (Cell<->Vertex swap)."""
    m = program.module("uxarray.io._mpas")
    modes = mpas_call_modes(program)
    n = 0
    vocab = set().union(*[s for t in MPAS_ROLES.values() for s in t.values()])
    for f in m.all_funcs:
        if not f.name.startswith("_parse_") or m.defs.get(f.name) is not f:
            continue
        tab = mpas_function_table(f)
        if not tab:
            continue
        table, has_mt = tab
        calls = modes.get(f.name, [])
        for driver_mt, passed, drv, call in calls:
            eff = passed if (has_mt and passed in ("primal", "dual")) else driver_mt
            if has_mt and passed not in ("primal", "dual"):
                run.incomplete(rule, f"{drv.key}:call({f.name}):mesh_type", where(drv, call), "mesh_type argument is not a literal")
                continue
            if has_mt and passed != driver_mt:
                run.violation(rule, f"{drv.key}:call({f.name}):mesh_type", where(drv, call), f"{drv.name} calls {f.name} with mesh_type='{passed}'")
            for target, (srcs, st, opaque) in sorted(table[eff].items()):
                if targets is not None and target not in targets:
                    continue
                want = MPAS_ROLES[driver_mt].get(target)
                if want is None:
                    continue
                n += 1
                c = f"mpas:{driver_mt}:{target}"
                got = srcs & vocab
                if got == want:
                    run.holds(rule, c, where(f, st), f"{target} <- {sorted(got)} ({driver_mt})")
                else:
                    extra = sorted(got - want)
                    missing = sorted(want - got)
                    msg = f"on the {driver_mt} mesh {target} is built from {sorted(got)}; the MPAS mesh specification assigns {sorted(want)}"
                    if missing and not extra and missing == ["nEdgesOnCell"]:
                        msg += " (rows are padded by repeating indices beyond nEdgesOnCell: without it padding is read as real entries)"
                    if opaque:
                        run.incomplete(rule, c, where(f, st), msg + " -- but part of the dataset access is not understood (dataset passed to an unknown helper, computed key, or undecidable guard)")
                    else:
                        run.violation(rule, c, where(f, st), msg, facts={"extra": extra, "missing": missing})
    return n


def check_mpas_distance_roles(run, program):
    return check_mpas_roles(run, program, targets={"edge_node_distances", "edge_face_distances"})
