"""Shared drivers: one whole-package dataflow pass per process, and conversion of findings to obligations."""

from __future__ import annotations

from .dataflow import DataflowRules

# public constructors / readers whose parameters are owned by the caller (C19, ALIAS-1)
ALIAS_ENTRIES = [
    "uxarray/grid/grid.py:Grid.__init__",
    "uxarray/grid/grid.py:Grid.from_dataset",
    "uxarray/grid/grid.py:Grid.from_topology",
    "uxarray/grid/grid.py:Grid.from_face_vertices",
    "uxarray/grid/grid.py:Grid.from_file",
    "uxarray/core/api.py:open_grid",
    "uxarray/core/api.py:open_dataset",
]

_CACHE = {}


def dataflow(program, tier="quick", depth=None) -> DataflowRules:
    depth = depth or (4 if tier == "quick" else 6)
    k = (id(program), depth)
    if k not in _CACHE:
        R = DataflowRules(program, max_depth=depth)
        R.alias_entries = set(ALIAS_ENTRIES)
        R.analyse_all(list(program.all_functions()))
        R.findings = postfilter(R.findings)
        _CACHE[k] = R
    return _CACHE[k]


def postfilter(findings):
    """Keep the shortest-chain report of each construct: a construct that is already decided when
    its own function is analysed alone is not repeated for every caller."""
    local = {(f.rule, f.func.key, f.construct, f.ok) for f in findings if f.site is None}
    out = []
    seen = set()
    for f in sorted(findings, key=lambda x: len(x.chain)):
        if f.site is not None and (f.rule, f.func.key, f.construct, f.ok) in local:
            continue
        k = (f.rule, f.key(), f.ok)
        if k in seen:
            continue
        seen.add(k)
        out.append(f)
    return out


def in_scope(f, files=None, funcs=None):
    if files is None and funcs is None:
        return True
    if f.site is not None:
        mods = {f.site[0].module.relpath}
        names = {f.site[0].key}
    else:
        mods = {f.func.module.relpath}
        names = {f.func.key}
    if files is not None and mods & set(files):
        return True
    if funcs is not None and names & set(funcs):
        return True
    return False


def emit(run, R: DataflowRules, rules, files=None, funcs=None, rule_prefix="", where_filter=None):
    """Turn findings of the given rule names into obligations of `run`.  Findings inside a callee that
    were decided by facts of one call site are grouped into ONE obligation for that call site.
    Returns (n_ok, n_bad)."""
    from ..astutil import norm, where as _where

    n_ok = n_bad = 0
    groups = {}
    for f in R.findings:
        if f.rule not in rules:
            continue
        if not in_scope(f, files, funcs):
            continue
        if where_filter is not None and not where_filter(f):
            continue
        if f.site is not None:
            caller, call = f.site
            gk = (f.rule, f"{caller.key}:call({norm(call)[:90]})")
        else:
            gk = (f.rule, f.key())
        groups.setdefault(gk, []).append(f)
    for (rule0, key), fs in groups.items():
        rule = rule_prefix + rule0
        bad = [f for f in fs if not f.ok]
        first = (bad or fs)[0]
        w = first.where()
        if bad:
            n_bad += 1
            facts = dict(first.facts)
            if first.chain:
                facts["call_chain"] = [f"{k}@{ln}" for k, ln in first.chain]
            if first.entry is not None:
                facts["analysed_entry"] = first.entry.key
            if len(bad) > 1:
                facts["constructs"] = [f"{b.func.qualname}:{b.construct}" for b in bad]
            detail = first.detail if len(bad) == 1 else f"{first.detail} (+{len(bad) - 1} more in the same callee: {', '.join(b.construct for b in bad[1:4])})"
            run.violation(rule, key, w, detail, facts=facts)
        else:
            n_ok += 1
            run.holds(rule, key, w, first.detail if len(fs) == 1 else f"{first.detail} ({len(fs)} constructs)", facts=first.facts)
    return n_ok, n_bad
