"""Contradiction rules evaluated on abstract-interpreter events: units/roles, index spaces,
fill safety, fill literal, global writes, alias writes.  Unknown facts are silent."""

from __future__ import annotations

import ast
import re
from dataclasses import dataclass, field

from ..absint import Interp
from ..astutil import norm, where
from ..av import AV, KINDS, TOP
from ..loader import ClassInfo, External, FuncInfo, Sym
from ..transfer import np_name


@dataclass
class Finding:
    rule: str
    ok: bool
    func: FuncInfo  # innermost function containing the construct
    node: ast.AST
    construct: str  # normalised construct text (without module/function prefix)
    detail: str
    entry: FuncInfo = None
    chain: tuple = ()
    facts: dict = field(default_factory=dict)

    site: tuple = None  # (caller FuncInfo, call node) when the construct lies in a callee of the analysed function

    def key(self):
        if self.site is not None:
            c, n = self.site
            return f"{c.key}:call({norm(n.func)})->{self.func.qualname}:{self.construct}"
        return f"{self.func.key}:{self.construct}"

    def where(self):
        if self.site is not None:
            return where(self.site[0], self.site[1]) + " -> " + where(self.func, self.node)
        return where(self.func, self.node)


ROLE_TOKENS = ("lon", "lat", "x", "y", "z")


def name_role(name: str):
    """Role suggested by an identifier: node_lon -> lon, centroid_x -> x, lat_rad -> lat."""
    toks = re.split(r"[_\W]+", name.lower())
    roles = [t for t in toks if t in ROLE_TOKENS]
    if len(roles) == 1:
        return roles[0]
    return None


class DataflowRules:
    def __init__(self, program, max_depth=3):
        self.I = Interp(program, max_depth=max_depth)
        self.I.listeners.append(self.on_event)
        self.findings: list[Finding] = []
        self.entry = None
        self.alias_entries = None  # set of function keys whose parameters are caller-owned (C19)
        self._seen = set()

    # ---------------------------------------------------------------- driving
    def analyse(self, func: FuncInfo, overrides=None):
        self.entry = func
        return self.I.analyse_entry(func, overrides)

    def analyse_all(self, funcs):
        for f in funcs:
            try:
                self.analyse(f)
            except RecursionError:
                continue

    def add(self, rule, ok, fr, node, construct, detail, **facts):
        if rule == "ALIAS/param-write" and (self.alias_entries is None or self.entry is None or self.entry.key not in self.alias_entries):
            return
        f = Finding(rule, ok, fr.func, node, construct, detail, self.entry, tuple((c.key, getattr(n, "lineno", 0)) for c, n in fr.stack), facts)
        if fr.stack:
            f.site = fr.stack[-1]
        if rule == "ALIAS/param-write":
            f.site = None
            f.construct = f"{self.entry.qualname}({facts.get('param')})=>{construct}"
        k = (rule, f.key(), ok)
        if k in self._seen:
            return
        self._seen.add(k)
        self.findings.append(f)

    # ---------------------------------------------------------------- events
    def on_event(self, kind, fr, node, p):
        h = getattr(self, "ev_" + kind, None)
        if h:
            h(fr, node, p)

    # ---- units
    def ev_call(self, fr, node, p):
        t = p["target"]
        args = p["args"]
        if isinstance(t, External):
            n = np_name(t.name)
            if n:
                n = n.split(".")[-1]
                a0 = args[0] if args else TOP
                txt = f"{n}({norm(node.args[0]) if node.args else ''})"
                if a0.unit == "deg|rad" and n in ("sin", "cos", "tan", "deg2rad", "radians", "rad2deg", "degrees"):
                    self.add("UNIT/double-conversion" if n not in ("sin", "cos", "tan") else "UNIT/deg->trig", False, fr, node, txt,
                             f"the argument of np.{n} is in degrees on one path and in radians on another (two definitions with different units reach {norm(node)[:60]}): one of them is converted wrongly", arg=a0.brief())
                elif n in ("sin", "cos", "tan"):
                    if a0.unit == "deg":
                        self.add("UNIT/deg->trig", False, fr, node, txt, f"degrees reach np.{n}: {norm(node)}", arg=a0.brief())
                    elif a0.unit == "rad":
                        self.add("UNIT/deg->trig", True, fr, node, txt, "radians reach the trigonometric function")
                elif n in ("deg2rad", "radians"):
                    if a0.unit == "rad":
                        self.add("UNIT/double-conversion", False, fr, node, txt, f"value already in radians converted again: {norm(node)}", arg=a0.brief())
                    elif a0.unit == "deg":
                        self.add("UNIT/double-conversion", True, fr, node, txt, "degrees converted to radians")
                elif n in ("rad2deg", "degrees"):
                    if a0.unit == "deg":
                        self.add("UNIT/double-conversion", False, fr, node, txt, f"value already in degrees converted again: {norm(node)}", arg=a0.brief())
                    elif a0.unit == "rad":
                        self.add("UNIT/double-conversion", True, fr, node, txt, "radians converted to degrees")
        if isinstance(t, FuncInfo) and t.name.startswith("_xyz_to_lonlat") and args:
            nz = p["kwargs"].get("normalize")
            nz_node = next((k.value for k in node.keywords if k.arg == "normalize"), None)
            if nz is not None and nz.const is not None and nz.const[1] is False and isinstance(nz_node, ast.Constant):
                a0 = args[0]
                txt = f"{t.name}({norm(node.args[0]) if node.args else ''}, normalize=False)"
                if a0.unitlen:
                    self.add("UNIT/unit-length", True, fr, node, txt, "argument is the result of a normalisation: unit length")
                elif a0.vars and any(v.endswith(("_x", "_y", "_z")) for v in a0.vars):
                    self.add("UNIT/unit-length", False, fr, node, txt,
                             f"{sorted(a0.vars)[0]} as stored (possibly supplied by the source with non-unit length) is converted with normalize=False: arcsin(z) is only the latitude on the unit sphere",
                             arg=a0.brief())
        # alias: internal dataset handed to another owner
        if isinstance(t, ClassInfo) and t.name == "Grid" and args:
            a0 = args[0]
            if a0.origins and ("grid_ds",) in a0.origins:
                self.add("ALIAS/internal-ds-shared", False, fr, node, f"Grid({norm(node.args[0])})",
                         "the grid's own internal dataset object is handed to a second Grid: both share every later write")
            elif a0.kind == "ds" and a0.origins:
                self.add("ALIAS/internal-ds-shared", True, fr, node, f"Grid({norm(node.args[0])})", "a distinct dataset object is passed")

    def ev_sk_tree(self, fr, node, p):
        a0 = p["args"][0] if p["args"] else TOP
        txt = f"{p['name']}({norm(node.args[0]) if node.args else ''})"
        if a0.unit == "deg":
            self.add("UNIT/tree-input", False, fr, node, txt, "tree built from coordinates in degrees (haversine/spherical trees expect radians)")
        elif a0.unit == "rad":
            self.add("UNIT/tree-input", True, fr, node, txt, "tree built from radians")

    def ev_setitem(self, fr, node, p):
        base, idx, val = p["base"], p["index"], p["value"]
        tn = p["target_node"]
        key = None
        if len(idx) == 1 and idx[0][0] == "str" and idx[0][1].const is not None:
            key = idx[0][1].const[1]
        # ---- stores into a dataset under a schema name
        if base.kind == "ds" and isinstance(key, str):
            m = re.match(r"^(node|edge|face)_(lon|lat|x|y|z)$", key)
            txt = f"store[{key}]"
            if m:
                r = m.group(2)
                if r in ("lon", "lat"):
                    if val.unit == "rad":
                        self.add("UNIT/store", False, fr, node, txt, f"radians stored under {key} (degrees by the schema)", value=val.brief())
                    elif val.unit == "deg":
                        self.add("UNIT/store", True, fr, node, txt, f"degrees stored under {key}")
                if r == "lon" and val.rng is not None:
                    if val.rng == "pos":
                        self.add("RANGE/store-lon", False, fr, node, txt, f"longitude stored under {key} is in [0, 360) (result of a modulo by a full turn), not in [-180, 180]", value=val.brief())
                    elif val.rng == "norm":
                        self.add("RANGE/store-lon", True, fr, node, txt, f"longitude stored under {key} is wrapped to [-180, 180)")
                if val.role is not None:
                    if val.role != r:
                        self.add("ROLE/store", False, fr, node, txt, f"a value with role '{val.role}' is stored under {key}", value=val.brief())
                    else:
                        self.add("ROLE/store", True, fr, node, txt, f"role {r} stored under {key}")
                if val.axes and val.axes[0] in KINDS:
                    if val.axes[0] != m.group(1):
                        self.add("IDX/store-space", False, fr, node, txt, f"array over {val.axes[0]}s stored under {key}", value=val.brief())
                    else:
                        self.add("IDX/store-space", True, fr, node, txt, f"array over {val.axes[0]}s stored under {key}")
            self.store_ds(fr, node, base, key, val)
        # ---- writes through aliases
        self.write_through(fr, node, base, tn, "item assignment", val=val, key=key)

    def store_ds(self, fr, node, base, key, val):
        pass  # extended by subclasses / property modules through findings of kind STORE

    def ev_augassign(self, fr, node, p):
        tn = p["target_node"]
        if isinstance(tn, ast.Subscript):
            base = fr.interp.eval_quiet(tn.value, fr) or TOP
            self.write_through(fr, node, base, tn, "augmented item assignment")
        elif isinstance(tn, ast.Name):
            self.write_through(fr, node, p["target"], tn, "augmented assignment")

    def ev_delitem(self, fr, node, p):
        self.write_through(fr, node, p["base"], p["target_node"], "del item")

    def ev_mutate(self, fr, node, p):
        self.write_through(fr, node, p["base"], p["target_node"], p["how"])

    def ev_setattr(self, fr, node, p):
        base = p["base"]
        if p["attr"] in ("data", "values", "attrs", "encoding", "name"):
            self.write_through(fr, node, base, p["target_node"], f".{p['attr']} =", container=True)
        # NOTE: `ds.attrs = other.attrs` is not an alias: xarray's attrs setter stores dict(value) (checked once
        # against the installed xarray; recorded as a trusted fact in the evidence).

    def write_through(self, fr, node, base: AV, tn, how, container=False, val=None, key=None):
        org = base.origins or frozenset()
        txt = f"write:{norm(tn)[:70]}"
        for o in org:
            if o[0] == "glob":
                self.add("GLOBAL/write", False, fr, node, txt, f"{how} writes the module-level object {o[1]} in place", target=o[1])
        is_container = base.kind in ("ds", "da", "dict", "dictmethod") or container
        # in-place arithmetic on the buffer of a variable stored in Grid._ds (reached through .values/.data of a grid property):
        # a read-only derivation then changes what the grid reports for the variable it read
        bvars = base.vars or (frozenset({base.var}) if base.var else None)
        if (how.startswith("augmented") or how.startswith("item")) and base.kind in ("nd", None) and any(o[0] == "grid_ds" for o in org) and bvars:
            self.add("GRIDBUF/write", False, fr, node, txt,
                     f"{how} modifies in place the stored grid variable(s) {sorted(bvars)} (the array is the buffer of Grid._ds, not a copy): deriving one quantity changes another",
                     vars=sorted(bvars))
        for o in org:
            if o[0] == "param" or (o[0] == "parambuf" and not is_container):
                self.add("ALIAS/param-write", False, fr, node, txt, f"{how} writes into an object owned by the caller (parameter '{o[1]}' of {self.entry.qualname if self.entry else '?'})",
                         param=o[1], level="container" if is_container else "buffer", may=len(org) > 1)
        if not any(o[0] in ("glob", "param", "parambuf") for o in org) and org:
            if any(o[0] == "fresh" for o in org):
                self.add("ALIAS/param-write", True, fr, node, txt, "write goes to a fresh object")

    # ---- index spaces
    def ev_gather(self, fr, node, p):
        base, iv, sp = p["base"], p["index"], p["axis_space"]
        txt = f"gather:{norm(node)[:80]}"
        if sp in KINDS and iv.vals in KINDS and iv.kind != "mask":
            if sp != iv.vals:
                self.add("IDX/space", False, fr, node, txt,
                         f"an array over {sp}s is indexed with {iv.vals} indices: {norm(node)[:100]}", base=base.brief(), index=iv.brief())
            else:
                self.add("IDX/space", True, fr, node, txt, f"{sp} axis indexed with {iv.vals} indices")
        if iv.kind != "mask" and iv.vals in KINDS:
            if iv.fill == "may":
                self.add("IDX/fill-safety", False, fr, node, txt,
                         f"index array may contain INT_FILL_VALUE (reached from a padded connectivity through value-preserving steps only): {norm(node)[:100]}",
                         index=iv.brief())
            elif iv.fill == "no":
                self.add("IDX/fill-safety", True, fr, node, txt, "index array proven free of the fill value")

    def ev_np_delete(self, fr, node, p):
        base, iv = p["base"], p["index"]
        sp = base.axes[0] if base.axes else None
        txt = f"delete:{norm(node)[:80]}"
        if sp in KINDS and iv.vals in KINDS:
            if sp != iv.vals:
                self.add("IDX/space", False, fr, node, txt, f"np.delete over {sp}s with {iv.vals} indices")
            else:
                self.add("IDX/space", True, fr, node, txt, f"np.delete over {sp}s with {iv.vals} indices")

    def ev_compare(self, fr, node, p):
        left, rights = p["left"], p["rights"]
        if len(rights) != 1 or not isinstance(node.ops[0], (ast.Eq, ast.NotEq)):
            return
        for a, b, an in ((left, rights[0], node.comparators[0]), (rights[0], left, node.left)):
            std = a.vals in KINDS and a.conn is not None and a.conn[1] == "std"
            if not std:
                continue
            txt = f"filltest:{norm(node)[:70]}"
            if b.const is not None:
                c = b.const[1]
                if isinstance(c, int) and not isinstance(c, bool) and c < 0:
                    self.add("IDX/fill-literal", False, fr, node, txt,
                             f"standard-form connectivity compared with the literal {c}; the grid's fill value is INT_FILL_VALUE")
                elif c == Sym("INT_FILL_VALUE"):
                    self.add("IDX/fill-literal", True, fr, node, txt, "fill test uses INT_FILL_VALUE")

    def ev_reduce(self, fr, node, p):
        base = p["base"]
        if p["how"] in ("min", "max") and base.vals is None and base.conn is not None and base.conn[1] == "std" and base.fill != "no":
            pass

    def ev_unpack(self, fr, node, p):
        v = p["value"]
        tg = p["targets"]
        if not v.elts or len(v.elts) != len(tg.elts):
            return
        for t, e in zip(tg.elts, v.elts):
            if isinstance(t, ast.Name) and e.role is not None:
                r = name_role(t.id)
                if r is not None:
                    txt = f"unpack:{t.id}"
                    prev = fr.env.get(t.id)
                    if r != e.role and prev is not None and getattr(prev, "role", None) == e.role:
                        continue     # the name is rebound to (a conversion of) the value it already held: x, y, z = (f(a) for a in (x, y, z))
                    if r != e.role:
                        self.add("ROLE/unpack", False, fr, node, txt,
                                 f"a '{e.role}' value is unpacked into '{t.id}': {norm(node)[:100]}")
                    else:
                        self.add("ROLE/unpack", True, fr, node, txt, f"{e.role} unpacked into {t.id}")

    def ev_return(self, fr, node, p):
        v = p["value"]
        if fr.depth == 0 and v.origins:
            txt = f"return:{norm(node.value)[:60]}" if node.value is not None else "return"
            if ("grid_ds",) in v.origins and v.kind == "ds":
                self.add("ALIAS/internal-returned", False, fr, node, txt, "returns the grid's internal dataset object itself")
            for o in v.origins:
                if o[0] == "cache" and v.kind != "tree":
                    self.add("ALIAS/cache-returned", False, fr, node, txt, f"returns the cached object {o[1]} without a copy")
